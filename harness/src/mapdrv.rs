//! Script interpreter for HashMap<K, V, PlanBuild, Ledger>; prints the step trace that the
//! OCaml driver (extracted Coq model) checks.
use crate::instr::*;
use hashbrown::hash_map::Entry;
use hashbrown::HashMap;
use rayon::prelude::*;
use std::sync::atomic::{AtomicUsize, Ordering};
use std::sync::Mutex;
use std::fmt::Write as _;
use std::panic::{catch_unwind, AssertUnwindSafe};

pub type Map<K, V> = HashMap<K, V, PlanBuild, Ledger>;

pub fn hex(b: &[u8]) -> String {
    let mut s = String::with_capacity(b.len() * 2);
    for x in b {
        let _ = write!(s, "{:02x}", x);
    }
    s
}

pub fn dump_map<K: KeyT, V: ValT>(m: &Map<K, V>) -> String {
    let d = m.verif_dump();
    let mut s = String::new();
    if d.bucket_mask > 0xFFFF {
        // too large to dump (only reachable when something asks for an absurd capacity)
        let _ = write!(s, "m={} i={} g={} c=ff s=-", d.bucket_mask, d.items, d.growth_left);
        match d.alloc {
            Some((sz, al, off)) => {
                let _ = write!(s, " a={},{},{}", sz, al, off);
            }
            None => s.push_str(" a=-"),
        }
        let _ = write!(s, " sing=0 salt=0 cap={} BIG", m.capacity());
        return s;
    }
    let _ = write!(s, "m={} i={} g={} c={} s=", d.bucket_mask, d.items, d.growth_left, hex(&d.ctrl));
    let mut first = true;
    if d.bucket_mask != 0 {
        for i in 0..=d.bucket_mask {
            if let Some((k, v)) = m.verif_bucket(i) {
                if !first {
                    s.push(';');
                }
                first = false;
                let _ = write!(s, "{}:{}:{}:{}", i, k.id(), k.stamp(), v.val());
            }
        }
    }
    if first {
        s.push('-');
    }
    match d.alloc {
        Some((sz, al, off)) => {
            let _ = write!(s, " a={},{},{}", sz, al, off);
        }
        None => s.push_str(" a=-"),
    }
    let _ = write!(s, " sing={} salt={} cap={}", d.singleton as u8, m.hasher().salt, m.capacity());
    // address tie (Model/Addr.v): where the library puts the first and the last element slot, relative
    // to the start of the block
    if let (true, Some((_sz, _al, off))) = (d.bucket_mask != 0, d.alloc) {
        let base = d.ctrl_addr - off;
        let _ = write!(s, " ad={},{}", m.verif_bucket_addr(0) as i128 - base as i128, m.verif_bucket_addr(d.bucket_mask) as i128 - base as i128);
    }
    // alignment facts of the live block (C02): ctrl pointer aligned to the group width and to T
    let (_, ctrl_align) = Map::<K, V>::verif_table_layout();
    if d.bucket_mask != 0 && d.ctrl_addr % ctrl_align != 0 {
        let _ = write!(s, " MISALIGNED_CTRL");
    }
    s
}

fn table_serials<K: KeyT, V: ValT>(m: &Map<K, V>) -> Vec<(u64, u64, u64, u64, u64)> {
    // (kserial, vserial, kid, stamp, val)
    let d = m.verif_dump();
    let mut v = Vec::new();
    if d.bucket_mask != 0 {
        for i in 0..=d.bucket_mask {
            if let Some((k, val)) = m.verif_bucket(i) {
                v.push((k.serial(), val.serial(), k.id(), k.stamp(), val.val()));
            }
        }
    }
    v
}

pub enum Out {
    Unit,
    None,
    Val(u64),
    KV(u64, u64),
    Bool(bool),
    Num(u128),
    Try(String),
    List(Vec<(u64, u64, u64)>),
    Occupied(u64, u64),
    Raw(String),
}
#[allow(non_snake_case)]
fn OutRaw(s: String) -> Out {
    Out::Raw(s)
}

impl Out {
    pub fn text(&self) -> String {
        match self {
            Out::Unit => "unit".into(),
            Out::None => "none".into(),
            Out::Val(v) => format!("val {}", v),
            Out::KV(s, v) => format!("kv {} {}", s, v),
            Out::Bool(b) => format!("bool {}", *b as u8),
            Out::Num(n) => format!("num {}", n),
            Out::Try(s) => format!("try {}", s),
            Out::List(l) => {
                let mut s = String::from("list ");
                if l.is_empty() {
                    s.push('-');
                }
                for (i, (k, st, v)) in l.iter().enumerate() {
                    if i > 0 {
                        s.push(',');
                    }
                    let _ = write!(s, "{}:{}:{}", k, st, v);
                }
                s
            }
            Out::Occupied(s, v) => format!("occupied {} {}", s, v),
            Out::Raw(s) => s.clone(),
        }
    }
}

pub fn parse_u64(s: &str) -> u64 {
    s.parse::<u64>().unwrap_or_else(|_| panic!("bad number {:?}", s))
}

pub fn apply_directive(w: &[&str]) -> bool {
    match w[0] {
        "hash" => {
            let (k, h) = (parse_u64(w[1]), parse_u64(w[2]));
            with_ctx(|c| {
                c.hashes.insert(k, h);
            });
            true
        }
        "hashrule" => {
            let r = match w[1] {
                "mix" => 0,
                "zero" => 1,
                "max" => 2,
                "calldep" => 3,
                "calldep_near" => 4,
                r if r.starts_with("calldep_win:") => {
                    let p: Vec<u64> = r["calldep_win:".len()..].split(':').map(parse_u64).collect();
                    with_ctx(|c| c.hash_window = (p[0], p[1]));
                    5
                }
                _ => panic!("hashrule"),
            };
            with_ctx(|c| c.hash_rule = r);
            true
        }
        "eqrule" => {
            let r = match w[1] {
                "lawful" => 0,
                "calldep" => 3,
                "calldep_near" => 4,
                _ => panic!("eqrule"),
            };
            with_ctx(|c| c.eq_rule = r);
            true
        }
        "arm" => {
            let n = if w.len() > 2 { Some(parse_u64(w[2])) } else { None };
            with_ctx(|c| match w[1] {
                "hashpanic_key" => c.hash_panic_key = n,
                "hashpanic_nth" => c.hash_panic_nth = n,
                "eqpanic_nth" => c.eq_panic_nth = n,
                "droppanic_nth" => c.drop_panic_nth = n,
                "clonepanic_nth" => c.clone_panic_nth = n,
                "predpanic_nth" => c.pred_panic_nth = n,
                "refuse_nth" => c.refuse_nth = n,
                "hasher_clone_panic" => c.hasher_clone_panics = true,
                "intopanic" => c.into_panics = true,
                _ => panic!("unknown arm {}", w[1]),
            });
            true
        }
        _ => false,
    }
}

pub fn disarm() {
    with_ctx(|c| {
        c.hash_panic_key = None;
        c.hash_panic_nth = None;
        c.eq_panic_nth = None;
        c.drop_panic_nth = None;
        c.clone_panic_nth = None;
        c.pred_panic_nth = None;
        c.refuse_nth = None;
        c.hasher_clone_panics = false;
        c.into_panics = false;
    })
}

fn pred_tick() {
    let p = with_ctx(|c| match c.pred_panic_nth {
        Some(0) => {
            c.pred_panic_nth = None;
            true
        }
        Some(n) => {
            c.pred_panic_nth = Some(n - 1);
            false
        }
        None => false,
    });
    if p {
        std::panic::panic_any(HvPanic("pred"));
    }
}

fn try_text(r: Result<(), hashbrown::TryReserveError>) -> String {
    match r {
        Ok(()) => "ok".into(),
        Err(hashbrown::TryReserveError::CapacityOverflow) => "overflow".into(),
        Err(hashbrown::TryReserveError::AllocError { layout }) => format!("allocerr {} {}", layout.size(), layout.align()),
    }
}

pub fn kvt<K: KeyT, V: ValT>(k: &K, v: &V) -> (u64, u64, u64) {
    (k.id(), k.stamp(), v.val())
}

/// Executes one operation.  `chk` collects violations of properties that are checked directly
/// on the implementation (iterator length reporting etc.).
pub type Held = Vec<Box<dyn std::any::Any>>;

pub fn do_op<K: KeyT, V: ValT>(m: &mut Map<K, V>, w: &[&str], chk: &mut Vec<String>, held: &mut Held) -> Out {
    let n = |i: usize| parse_u64(w[i]);
    match w[0] {
        "withcap" => {
            *m = HashMap::with_capacity_and_hasher_in(n(1) as usize, PlanBuild::default(), Ledger::fresh());
            Out::Unit
        }
        "insert" => match m.insert(K::mk(n(1), n(2)), V::mk(n(3))) {
            Some(v) => {
                let o = Out::Val(v.val());
                held.push(Box::new(v));
                o
            }
            None => Out::None,
        },
        // lookups / removal through a borrowed form of the key (Equivalent<K>, a different type)
        "getb" => match m.get(&KQ(n(1))) {
            Some(v) => Out::Val(v.val()),
            None => Out::None,
        },
        "getkvb" => match m.get_key_value(&KQ(n(1))) {
            Some((k, v)) => Out::KV(k.stamp(), v.val()),
            None => Out::None,
        },
        "containsb" => Out::Bool(m.contains_key(&KQ(n(1)))),
        "getmutb" => match m.get_mut(&KQ(n(1))) {
            Some(v) => {
                let old = v.val();
                v.set(n(2));
                Out::Val(old)
            }
            None => Out::None,
        },
        "removeb" => match m.remove(&KQ(n(1))) {
            Some(v) => {
                let o = Out::Val(v.val());
                held.push(Box::new(v));
                o
            }
            None => Out::None,
        },
        // FromIterator: with_capacity(size_hint().0) + insert each; the old map is dropped afterwards
        "fromiter" => {
            let items: Vec<(K, V)> = w[1..].iter().map(|t| {
                let p: Vec<u64> = t.split(':').map(parse_u64).collect();
                (K::mk(p[0], p[1]), V::mk(p[2]))
            }).collect();
            let new: Map<K, V> = items.into_iter().collect();
            let old = std::mem::replace(m, new);
            drop(old);
            Out::Unit
        }
        "get" => match m.get(&K::mk(n(1), 999)) {
            Some(v) => Out::Val(v.val()),
            None => Out::None,
        },
        "getkv" => {
            if n(1) % 2 == 0 {
                match m.get_key_value(&K::mk(n(1), 999)) {
                    Some((k, v)) => Out::KV(k.stamp(), v.val()),
                    None => Out::None,
                }
            } else {
                match m.get_key_value_mut(&K::mk(n(1), 999)) {
                    Some((k, v)) => Out::KV(k.stamp(), v.val()),
                    None => Out::None,
                }
            }
        }
        "contains" => Out::Bool(m.contains_key(&K::mk(n(1), 999))),
        "getmut" => match m.get_mut(&K::mk(n(1), 999)) {
            Some(v) => {
                let old = v.val();
                v.set(n(2));
                Out::Val(old)
            }
            None => Out::None,
        },
        "remove" => match m.remove(&K::mk(n(1), 999)) {
            Some(v) => {
                let o = Out::Val(v.val());
                held.push(Box::new(v));
                o
            }
            None => Out::None,
        },
        "removeentry" => match m.remove_entry(&K::mk(n(1), 999)) {
            Some((k, v)) => {
                let o = Out::KV(k.stamp(), v.val());
                held.push(Box::new((k, v)));
                o
            }
            None => Out::None,
        },
        "tryinsert" => match m.try_insert(K::mk(n(1), n(2)), V::mk(n(3))) {
            Ok(_) => Out::None,
            Err(e) => {
                let o = Out::Occupied(e.entry.key().stamp(), e.entry.get().val());
                held.push(Box::new(e.value));
                o
            }
        },
        // ---------------- the other entry APIs (C14): rustc_entry, raw_entry_mut, entry_ref ----------------
        "rentry_or_insert" => {
            let v = m.rustc_entry(K::mk(n(1), n(2))).or_insert(V::mk(n(3)));
            Out::Val(v.val())
        }
        "rentry_insert" => match m.rustc_entry(K::mk(n(1), n(2))) {
            hashbrown::hash_map::RustcEntry::Occupied(mut e) => {
                let old = e.insert(V::mk(n(3)));
                let o = Out::Val(old.val());
                held.push(Box::new(old));
                o
            }
            hashbrown::hash_map::RustcEntry::Vacant(e) => {
                e.insert(V::mk(n(3)));
                Out::None
            }
        },
        "rentry_remove" => match m.rustc_entry(K::mk(n(1), n(2))) {
            hashbrown::hash_map::RustcEntry::Occupied(e) => {
                let (k, v) = e.remove_entry();
                let o = Out::KV(k.stamp(), v.val());
                held.push(Box::new((k, v)));
                o
            }
            hashbrown::hash_map::RustcEntry::Vacant(_) => Out::None,
        },
        "rentry_drop" => match m.rustc_entry(K::mk(n(1), n(2))) {
            hashbrown::hash_map::RustcEntry::Occupied(_) => Out::Bool(true),
            hashbrown::hash_map::RustcEntry::Vacant(_) => Out::Bool(false),
        },
        "raw_or_insert" => {
            let k = K::mk(n(1), n(2));
            let val = V::mk(n(3));
            let hb = m.hasher().clone();
            let h = std::hash::BuildHasher::hash_one(&hb, &k);
            let (_, v) = m.raw_entry_mut().from_key_hashed_nocheck(h, &k).or_insert(k, val);
            Out::Val(v.val())
        }
        "raw_insert" => {
            let k = K::mk(n(1), n(2));
            match m.raw_entry_mut().from_key(&k) {
                hashbrown::hash_map::RawEntryMut::Occupied(mut e) => {
                    let old = e.insert(V::mk(n(3)));
                    let o = Out::Val(old.val());
                    held.push(Box::new(old));
                    o
                }
                hashbrown::hash_map::RawEntryMut::Vacant(e) => {
                    e.insert(k, V::mk(n(3)));
                    Out::None
                }
            }
        }
        // raw_entry_mut().from_hash(hash of ANOTHER key, matcher on the id).insert(key, value): the entry is
        // searched under the caller's hash, but a Vacant entry must file the pair under the KEY's own hash
        "raw_hash_insert" => {
            let hk = K::mk(n(1), 0);
            let hb = m.hasher().clone();
            let h = std::hash::BuildHasher::hash_one(&hb, &hk);
            drop(hk);
            let id = n(2);
            // one time in four, on a vacant entry: the ENUM-level RawEntryMut::insert(key, value)
            if n(3) % 4 == 3 && m.raw_entry().from_hash(h, |q| q.id() == id).is_none() {
                let o = m.raw_entry_mut().from_hash(h, |q| q.id() == id).insert(K::mk(n(2), n(3)), V::mk(n(4)));
                if o.key().id() != n(2) || o.get().val() != n(4) {
                    chk.push("RawEntryMut::insert returned an entry that does not hold the inserted pair".into());
                }
                return Out::None;
            }
            match m.raw_entry_mut().from_hash(h, |q| q.id() == id) {
                hashbrown::hash_map::RawEntryMut::Occupied(mut e) => {
                    let old = e.insert(V::mk(n(4)));
                    let o = Out::Val(old.val());
                    held.push(Box::new(old));
                    o
                }
                hashbrown::hash_map::RawEntryMut::Vacant(e) => {
                    match n(3) % 3 {
                        0 => { e.insert(K::mk(n(2), n(3)), V::mk(n(4))); }
                        1 => { let k = K::mk(n(2), n(3)); let h2 = std::hash::BuildHasher::hash_one(&hb, &k); e.insert_hashed_nocheck(h2, k, V::mk(n(4))); }
                        _ => { let k = K::mk(n(2), n(3)); let h2 = std::hash::BuildHasher::hash_one(&hb, &k);
                               let hb2 = hb.clone();
                               e.insert_with_hasher(h2, k, V::mk(n(4)), move |q: &K| std::hash::BuildHasher::hash_one(&hb2, q)); }
                    }
                    Out::None
                }
            }
        }
        // from_key(k) -> Occupied -> replace_entry_with(|_, _| None) -> the returned VACANT entry -> insert(k2, v2):
        // the new pair must be filed under k2's hash, not under the hash the builder searched with
        "raw_rename" => {
            let k = K::mk(n(1), n(2));
            let e = m.raw_entry_mut().from_key(&k);
            let mut old: Option<u64> = None;
            let after = match e {
                hashbrown::hash_map::RawEntryMut::Occupied(o) => o.replace_entry_with(|_k: &K, val: V| {
                    old = Some(val.val());
                    held.push(Box::new(val));
                    None
                }),
                v => v,
            };
            match after {
                hashbrown::hash_map::RawEntryMut::Vacant(v) if n(4) % 2 == 0 => { v.insert(K::mk(n(3), n(4)), V::mk(n(5))); }
                // the ENUM-level insert on the vacant entry that replace_entry_with returned
                e @ hashbrown::hash_map::RawEntryMut::Vacant(_) => { e.insert(K::mk(n(3), n(4)), V::mk(n(5))); }
                hashbrown::hash_map::RawEntryMut::Occupied(_) => chk.push("raw replace_entry_with returned Occupied although the closure returned None".into()),
            }
            match old {
                Some(v) => Out::Val(v),
                None => Out::None,
            }
        }
        "raw_remove" => {
            let k = K::mk(n(1), n(2));
            match m.raw_entry_mut().from_key(&k) {
                hashbrown::hash_map::RawEntryMut::Occupied(e) => {
                    let (k2, v) = e.remove_entry();
                    let o = Out::KV(k2.stamp(), v.val());
                    held.push(Box::new((k2, v)));
                    o
                }
                hashbrown::hash_map::RawEntryMut::Vacant(_) => Out::None,
            }
        }
        "raw_get" => match m.raw_entry().from_key(&K::mk(n(1), 999)) {
            Some((k, v)) => Out::KV(k.stamp(), v.val()),
            None => Out::None,
        },
        "eref_or_insert" => {
            let k = K::mk(n(1), n(2));
            let e = m.entry_ref(&k);
            let v = match n(2) % 3 {
                0 => e.or_insert(V::mk(n(3))),
                1 => e.or_insert_with(|| V::mk(n(3))),
                _ => e.or_insert_with_key(|_k| V::mk(n(3))),
            };
            Out::Val(v.val())
        }
        "eref_insert" => {
            let k = K::mk(n(1), n(2));
            match m.entry_ref(&k) {
                hashbrown::hash_map::EntryRef::Occupied(mut e) => {
                    let old = e.insert(V::mk(n(3)));
                    let o = Out::Val(old.val());
                    held.push(Box::new(old));
                    o
                }
                hashbrown::hash_map::EntryRef::Vacant(e) => {
                    if n(2) % 2 == 0 {
                        e.insert(V::mk(n(3)));
                    } else {
                        let o = e.insert_entry(V::mk(n(3)));
                        if o.get().val() != n(3) || o.key().id() != n(1) {
                            chk.push("entry_ref insert_entry returned an entry that does not hold the inserted pair".into());
                        }
                    }
                    Out::None
                }
            }
        }
        "eref_drop" => {
            let k = K::mk(n(1), n(2));
            let r = match m.entry_ref(&k) {
                hashbrown::hash_map::EntryRef::Occupied(_) => Out::Bool(true),
                hashbrown::hash_map::EntryRef::Vacant(_) => Out::Bool(false),
            };
            r
        }
        // replace_entry_with / and_replace_entry_with (Entry and RawEntryMut): Some(v) = overwrite
        // in place (the primitive removes the element and puts it back), None = remove
        "entry_replace" | "entry_and_replace" => {
            let some = w[3] == "some";
            let nv = n(4);
            let e = m.entry(K::mk(n(1), n(2)));
            let mut old: Option<u64> = None;
            let mut f = |_k: &K, val: V| {
                pred_tick(); // armed: the closure panics while it owns the value
                old = Some(val.val());
                held.push(Box::new(val));
                if some { Some(V::mk(nv)) } else { None }
            };
            let after = if w[0] == "entry_replace" {
                match e {
                    Entry::Occupied(o) => o.replace_entry_with(&mut f),
                    v => v,
                }
            } else {
                e.and_replace_entry_with(&mut f)
            };
            let was_occupied = old.is_some();
            let mut stamp_of_removed = 0;
            match after {
                Entry::Vacant(v) => {
                    if was_occupied {
                        let k = v.into_key();
                        stamp_of_removed = k.stamp();
                        held.push(Box::new(k));
                    }
                }
                Entry::Occupied(o) => {
                    if was_occupied && !some {
                        chk.push("replace_entry_with returned Occupied although the closure returned None".into());
                    }
                    if was_occupied && o.get().val() != nv {
                        chk.push("replace_entry_with: the entry does not hold the new value".into());
                    }
                }
            }
            match (old, some) {
                (Some(v), true) => Out::Val(v),
                (Some(v), false) => Out::KV(stamp_of_removed, v),
                (None, _) => Out::None,
            }
        }
        "raw_replace" | "raw_and_replace" => {
            let some = w[3] == "some";
            let nv = n(4);
            let k = K::mk(n(1), n(2));
            let e = m.raw_entry_mut().from_key(&k);
            let mut old: Option<u64> = None;
            let mut f = |_k: &K, val: V| {
                pred_tick(); // armed: the closure panics while it owns the value
                old = Some(val.val());
                held.push(Box::new(val));
                if some { Some(V::mk(nv)) } else { None }
            };
            let after = if w[0] == "raw_replace" {
                match e {
                    hashbrown::hash_map::RawEntryMut::Occupied(o) => o.replace_entry_with(&mut f),
                    v => v,
                }
            } else {
                e.and_replace_entry_with(&mut f)
            };
            if let hashbrown::hash_map::RawEntryMut::Occupied(o) = &after {
                if old.is_some() && !some {
                    chk.push("raw replace_entry_with returned Occupied although the closure returned None".into());
                }
                if old.is_some() && o.get().val() != nv {
                    chk.push("raw replace_entry_with: the entry does not hold the new value".into());
                }
            }
            drop(after);
            match old {
                Some(v) => Out::Val(v),
                None => Out::None,
            }
        }
        "entry_or_insert" => {
            // the flavours of or_insert* (same semantics; which one is chosen by the stamp)
            let e = m.entry(K::mk(n(1), n(2)));
            let v = match n(2) % 3 {
                0 => e.or_insert(V::mk(n(3))),
                1 => e.or_insert_with(|| V::mk(n(3))),
                _ => e.or_insert_with_key(|_k| V::mk(n(3))),
            };
            Out::Val(v.val())
        }
        "entry_insert" => match m.entry(K::mk(n(1), n(2))) {
            Entry::Occupied(mut e) => {
                let old = e.insert(V::mk(n(3)));
                let o = Out::Val(old.val());
                held.push(Box::new(old));
                o
            }
            Entry::Vacant(e) => {
                if n(2) % 2 == 0 {
                    e.insert(V::mk(n(3)));
                } else {
                    let o = e.insert_entry(V::mk(n(3)));
                    if o.get().val() != n(3) || o.key().id() != n(1) {
                        chk.push("insert_entry returned an entry that does not hold the inserted pair".into());
                    }
                }
                Out::None
            }
        },
        "entry_remove" => match m.entry(K::mk(n(1), n(2))) {
            Entry::Occupied(e) => {
                let (k, v) = e.remove_entry();
                let o = Out::KV(k.stamp(), v.val());
                held.push(Box::new((k, v)));
                o
            }
            Entry::Vacant(_) => Out::None,
        },
        "entry_and_modify" => {
            let add = n(3);
            let v = m
                .entry(K::mk(n(1), n(2)))
                .and_modify(|x| {
                    pred_tick();
                    let nv = x.val().wrapping_add(add);
                    x.set(nv)
                })
                .or_insert(V::mk(n(4)));
            Out::Val(v.val())
        }
        "entry_drop" => match m.entry(K::mk(n(1), n(2))) {
            Entry::Occupied(_) => Out::Bool(true),
            Entry::Vacant(_) => Out::Bool(false),
        },
        "clear" => {
            m.clear();
            Out::Unit
        }
        "reserve" => {
            m.reserve(n(1) as usize);
            Out::Unit
        }
        "tryreserve" => Out::Try(try_text(m.try_reserve(n(1) as usize))),
        "shrinkto" => {
            m.shrink_to(n(1) as usize);
            Out::Unit
        }
        "shrinktofit" => {
            m.shrink_to_fit();
            Out::Unit
        }
        "retain" => {
            let bump = n(1);
            let keep: Vec<u64> = w[2..].iter().map(|s| parse_u64(s)).collect();
            let mut calls = 0usize;
            let before = m.len();
            m.retain(|k, v| {
                pred_tick();
                calls += 1;
                let nv = v.val().wrapping_add(bump);
                v.set(nv);
                keep.contains(&k.id())
            });
            if calls != before {
                chk.push(format!("retain called its predicate {} times for {} elements", calls, before));
            }
            Out::Unit
        }
        "extend" => {
            let items: Vec<(K, V)> = w[1..]
                .iter()
                .map(|t| {
                    let p: Vec<&str> = t.split(':').collect();
                    (K::mk(parse_u64(p[0]), parse_u64(p[1])), V::mk(parse_u64(p[2])))
                })
                .collect();
            m.extend(items);
            Out::Unit
        }
        // extend(iter) where iter.next() panics when asked for item number p (p items were handed over);
        // size_hint is exact for the whole list, as for a Vec's iterator
        "extendp" => {
            let p = n(1) as usize;
            let items: Vec<(K, V)> = w[2..]
                .iter()
                .map(|t| {
                    let q: Vec<&str> = t.split(':').collect();
                    (K::mk(parse_u64(q[0]), parse_u64(q[1])), V::mk(parse_u64(q[2])))
                })
                .collect();
            struct PanicIter<I: Iterator> { inner: I, left: usize }
            impl<I: Iterator> Iterator for PanicIter<I> {
                type Item = I::Item;
                fn next(&mut self) -> Option<I::Item> {
                    if self.left == 0 && self.inner.size_hint().0 > 0 {
                        std::panic::panic_any(HvPanic("iter"));
                    }
                    self.left = self.left.saturating_sub(1);
                    self.inner.next()
                }
                fn size_hint(&self) -> (usize, Option<usize>) { self.inner.size_hint() }
            }
            m.extend(PanicIter { inner: items.into_iter(), left: p });
            Out::Unit
        }
        "drain" => {
            let take = n(1) as usize;
            let total = m.len();
            let mut d = m.drain();
            let mut got = Vec::new();
            for j in 0..take {
                if d.len() != total - j.min(total) {
                    chk.push(format!("drain.len() = {} but {} remain", d.len(), total - j.min(total)));
                }
                match d.next() {
                    Some((k, v)) => {
                        got.push(kvt(&k, &v));
                        held.push(Box::new((k, v)));
                    }
                    None => break,
                }
            }
            drop(d);
            Out::List(got)
        }
        "extractif" => {
            let take = n(1) as usize;
            let sel: Vec<u64> = w[2..].iter().map(|s| parse_u64(s)).collect();
            let mut got = Vec::new();
            {
                let mut e = m.extract_if(|k, _| {
                    pred_tick();
                    sel.contains(&k.id())
                });
                for _ in 0..take {
                    match e.next() {
                        Some((k, v)) => {
                            got.push(kvt(&k, &v));
                            held.push(Box::new((k, v)));
                        }
                        None => break,
                    }
                }
            }
            Out::List(got)
        }
        "iter" => {
            let total = m.len();
            let mut it = m.iter();
            let mut got = Vec::new();
            let mut j = 0;
            loop {
                let r = total - j;
                if it.len() != r || it.size_hint() != (r, Some(r)) {
                    chk.push(format!("iter: len()={} size_hint={:?} but {} remain", it.len(), it.size_hint(), r));
                }
                match it.next() {
                    Some((k, v)) => got.push(kvt(k, v)),
                    None => break,
                }
                j += 1;
                if j > total {
                    chk.push("iter yields more than len() elements".into());
                    break;
                }
            }
            if it.next().is_some() || it.next().is_some() {
                chk.push("iter: Some after None".into());
            }
            // the other borrowing iterators must agree
            let ks: Vec<u64> = m.keys().map(|k| k.id()).collect();
            let vs: Vec<u64> = m.values().map(|v| v.val()).collect();
            if ks != got.iter().map(|x| x.0).collect::<Vec<_>>() || vs != got.iter().map(|x| x.2).collect::<Vec<_>>() {
                chk.push("keys()/values() disagree with iter()".into());
            }
            let vm: Vec<u64> = m.values_mut().map(|v| v.val()).collect();
            let im: Vec<u64> = m.iter_mut().map(|(_, v)| v.val()).collect();
            if vm != vs || im != vs {
                chk.push("values_mut()/iter_mut() disagree with iter()".into());
            }
            Out::List(got)
        }
        "iterfold" => {
            let p = n(1) as usize;
            let mut it = m.iter();
            let mut got = Vec::new();
            for _ in 0..p {
                match it.next() {
                    Some((k, v)) => got.push(kvt(k, v)),
                    None => break,
                }
            }
            // a clone continues independently from the same position
            let cl = it.clone();
            let rest_clone: Vec<(u64, u64, u64)> = cl.map(|(k, v)| kvt(k, v)).collect();
            let rest: Vec<(u64, u64, u64)> = it.fold(Vec::new(), |mut acc, (k, v)| {
                acc.push(kvt(k, v));
                acc
            });
            if rest != rest_clone {
                chk.push(format!("iter.clone() after {} steps continues differently from fold", p));
            }
            got.extend(rest);
            Out::List(got)
        }
        // ---------------- rayon (C19) ----------------
        "par_split" => {
            let dec: Vec<bool> = if w.len() > 1 { w[1].chars().map(|c| c == '1').collect() } else { Vec::new() };
            let leaves = m.verif_split_leaves(&dec);
            let mut s = String::from("leaves ");
            if leaves.is_empty() {
                s.push('-');
            }
            for (i, l) in leaves.iter().enumerate() {
                if i > 0 {
                    s.push('|');
                }
                if l.is_empty() {
                    s.push('_');
                }
                s.push_str(&l.iter().map(|x| x.to_string()).collect::<Vec<_>>().join(","));
            }
            return OutRaw(s);
        }
        "par_iter" | "par_keys" | "par_values" => {
            let pool = rayon::ThreadPoolBuilder::new().num_threads(n(1) as usize).build().unwrap();
            let mut got: Vec<(u64, u64, u64)> = match w[0] {
                "par_iter" => pool.install(|| m.par_iter().map(|(k, v)| kvt(k, v)).collect()),
                "par_keys" => {
                    let ks: Vec<(u64, u64)> = pool.install(|| m.par_keys().map(|k| (k.id(), k.stamp())).collect());
                    let mut seq: Vec<(u64, u64)> = m.keys().map(|k| (k.id(), k.stamp())).collect();
                    let mut ks2 = ks.clone();
                    ks2.sort();
                    seq.sort();
                    if ks2 != seq {
                        chk.push("par_keys does not deliver the keys exactly once each".into());
                    }
                    m.iter().map(|(k, v)| kvt(k, v)).collect()
                }
                _ => {
                    let vs: Vec<u64> = pool.install(|| m.par_values().map(|v| v.val()).collect());
                    let mut seq: Vec<u64> = m.values().map(|v| v.val()).collect();
                    let mut vs2 = vs.clone();
                    vs2.sort();
                    seq.sort();
                    if vs2 != seq {
                        chk.push("par_values does not deliver the values exactly once each".into());
                    }
                    m.iter().map(|(k, v)| kvt(k, v)).collect()
                }
            };
            got.sort();
            Out::List(got)
        }
        "par_iter_mut" | "par_values_mut" => {
            let pool = rayon::ThreadPoolBuilder::new().num_threads(n(1) as usize).build().unwrap();
            let add = n(2);
            let visits = AtomicUsize::new(0);
            if w[0] == "par_iter_mut" {
                pool.install(|| {
                    m.par_iter_mut().for_each(|(_, v)| {
                        visits.fetch_add(1, Ordering::SeqCst);
                        let nv = v.val().wrapping_add(add);
                        v.set(nv)
                    })
                });
            } else {
                pool.install(|| {
                    m.par_values_mut().for_each(|v| {
                        visits.fetch_add(1, Ordering::SeqCst);
                        let nv = v.val().wrapping_add(add);
                        v.set(nv)
                    })
                });
            }
            if visits.load(Ordering::SeqCst) != m.len() {
                chk.push(format!("{} visited {} elements of {}", w[0], visits.load(Ordering::SeqCst), m.len()));
            }
            Out::Unit
        }
        "into_par_iter" => {
            let pool = rayon::ThreadPoolBuilder::new().num_threads(n(1) as usize).build().unwrap();
            let old = std::mem::replace(m, HashMap::with_hasher_in(PlanBuild::default(), Ledger::fresh()));
            let got: Vec<(K, V)> = pool.install(|| old.into_par_iter().collect());
            let mut l: Vec<(u64, u64, u64)> = got.iter().map(|(k, v)| kvt(k, v)).collect();
            l.sort();
            held.push(Box::new(got));
            Out::List(l)
        }
        "par_drain" => {
            // a consumer that stops after `stop` elements (short-circuits the other producers)
            let pool = rayon::ThreadPoolBuilder::new().num_threads(n(1) as usize).build().unwrap();
            let stop = n(2) as usize;
            let count = AtomicUsize::new(0);
            let got: Mutex<Vec<(K, V)>> = Mutex::new(Vec::new());
            pool.install(|| {
                let _ = m.par_drain().try_for_each(|kv| {
                    let c = count.fetch_add(1, Ordering::SeqCst);
                    got.lock().unwrap().push(kv);
                    if c + 1 >= stop {
                        Err(())
                    } else {
                        Ok(())
                    }
                });
            });
            let got = got.into_inner().unwrap();
            let mut l: Vec<(u64, u64, u64)> = got.iter().map(|(k, v)| kvt(k, v)).collect();
            l.sort();
            held.push(Box::new(got));
            Out::List(l)
        }
        "par_extend" => {
            let pool = rayon::ThreadPoolBuilder::new().num_threads(n(1) as usize).build().unwrap();
            let items: Vec<(K, V)> = w[2..]
                .iter()
                .map(|t| {
                    let p: Vec<&str> = t.split(':').collect();
                    (K::mk(parse_u64(p[0]), parse_u64(p[1])), V::mk(parse_u64(p[2])))
                })
                .collect();
            pool.install(|| m.par_extend(items));
            Out::Unit
        }
        "from_par_iter" => {
            // FromParallelIterator exists for the Global allocator only: a separate map, compared
            // with the sequential from_iter / extend of the same items (the map `m` is untouched)
            let pool = rayon::ThreadPoolBuilder::new().num_threads(n(1) as usize).build().unwrap();
            let mk = || -> Vec<(K, V)> {
                w[2..]
                    .iter()
                    .map(|t| {
                        let p: Vec<&str> = t.split(':').collect();
                        (K::mk(parse_u64(p[0]), parse_u64(p[1])), V::mk(parse_u64(p[2])))
                    })
                    .collect()
            };
            let sorted = |x: &HashMap<K, V, PlanBuild>| -> Vec<(u64, u64, u64)> {
                let mut l: Vec<(u64, u64, u64)> = x.iter().map(|(k, v)| kvt(k, v)).collect();
                l.sort();
                l
            };
            let items = mk();
            let par: HashMap<K, V, PlanBuild> = pool.install(|| HashMap::from_par_iter(items));
            let seq: HashMap<K, V, PlanBuild> = mk().into_iter().collect();
            let mut ext: HashMap<K, V, PlanBuild> = HashMap::with_hasher(PlanBuild::default());
            ext.extend(mk());
            let (lp, ls, le) = (sorted(&par), sorted(&seq), sorted(&ext));
            if lp != ls || lp != le {
                chk.push(format!("from_par_iter: the parallel result {:?} differs from the sequential from_iter {:?} / extend {:?}", lp, ls, le));
            }
            if par.len() != lp.len() {
                chk.push(format!("from_par_iter: the parallel map reports len()={} but yields {} elements", par.len(), lp.len()));
            }
            held.push(Box::new((par, seq, ext)));
            Out::List(lp)
        }
        // ---------------- serde (C20) ----------------
        "serde_de" => {
            use serde::Deserialize;
            let hint = if w[1] == "none" { None } else { Some(parse_u64(w[1]) as usize) };
            let err_at = if w[2] == "-" { None } else { Some(parse_u64(w[2]) as usize) };
            let pairs: Vec<(u64, u64)> = w[3..]
                .iter()
                .map(|t| {
                    let p: Vec<&str> = t.split(':').collect();
                    (crate::serdedrv::pack_key(parse_u64(p[0]), parse_u64(p[1])), parse_u64(p[2]))
                })
                .collect();
            let de = crate::serdedrv::ScriptDe { pairs, hint, err_at };
            match Map::<K, V>::deserialize(de) {
                Ok(new) => {
                    let old = std::mem::replace(m, new);
                    held.push(Box::new(old));
                    Out::Unit
                }
                Err(_) => return OutRaw("err".into()),
            }
        }
        "serde_roundtrip" => {
            use serde::{Deserialize, Serialize};
            let toks = m.serialize(crate::serdedrv::Ser).expect("serialize");
            let pairs = match toks {
                crate::serdedrv::Tokens::Map(p) => p,
                _ => panic!("map serialized as a sequence"),
            };
            if pairs.len() != m.len() {
                chk.push(format!("serialize emitted {} entries for {} elements", pairs.len(), m.len()));
            }
            let hint = Some(pairs.len());
            let m2 = Map::<K, V>::deserialize(crate::serdedrv::ScriptDe { pairs, hint, err_at: None }).expect("deserialize");
            let eq = m2 == *m && *m == m2;
            let mut a: Vec<(u64, u64, u64)> = m.iter().map(|(k, v)| kvt(k, v)).collect();
            let mut b: Vec<(u64, u64, u64)> = m2.iter().map(|(k, v)| kvt(k, v)).collect();
            a.sort();
            b.sort();
            if a != b {
                chk.push("serialize + deserialize does not reproduce the contents".into());
            }
            held.push(Box::new(m2));
            Out::Bool(eq)
        }
        "serde_set" => {
            // serde_set <de|inplace> <hint|none> <err_at|-> ids...   (checked against the set of ids here)
            use serde::Deserialize;
            let hint = if w[2] == "none" { None } else { Some(parse_u64(w[2]) as usize) };
            let err_at = if w[3] == "-" { None } else { Some(parse_u64(w[3]) as usize) };
            let ids: Vec<u64> = w[4..].iter().map(|s| parse_u64(s)).collect();
            let pairs: Vec<(u64, u64)> = ids.iter().enumerate().map(|(i, k)| (crate::serdedrv::pack_key(*k, i as u64 + 1), 0)).collect();
            let de = crate::serdedrv::ScriptDe { pairs, hint, err_at };
            type S<K> = hashbrown::HashSet<K, PlanBuild, Ledger>;
            let fails = err_at.map_or(false, |p| p <= ids.len());
            let r: Result<S<K>, crate::serdedrv::Err> = if w[1] == "inplace" {
                let mut place: S<K> = hashbrown::HashSet::with_hasher_in(PlanBuild::default(), Ledger::fresh());
                place.insert(K::mk(1_000_000, 1));
                place.insert(K::mk(1_000_001, 1));
                match Deserialize::deserialize_in_place(de, &mut place) {
                    Ok(()) => Ok(place),
                    Err(e) => Err(e),
                }
            } else {
                S::<K>::deserialize(de)
            };
            match r {
                Ok(set) => {
                    if fails {
                        chk.push("deserialization succeeded although the input reported an error".into());
                    }
                    let mut got: Vec<u64> = set.iter().map(|k| k.id()).collect();
                    got.sort();
                    let mut want: Vec<u64> = ids.clone();
                    want.sort();
                    want.dedup();
                    if got != want {
                        chk.push(format!("deserialized set holds {:?}, expected {:?}", got, want));
                    }
                    // the first occurrence of an equal element is the one kept
                    for k in set.iter() {
                        let first = ids.iter().position(|x| *x == k.id()).unwrap() as u64 + 1;
                        if k.stamp() != first {
                            chk.push(format!("set element {} kept occurrence {} instead of the first ({})", k.id(), k.stamp(), first));
                        }
                    }
                    held.push(Box::new(set));
                    Out::Bool(true)
                }
                Err(_) => {
                    if !fails {
                        chk.push("deserialization failed without an input error".into());
                    }
                    Out::Bool(false)
                }
            }
        }
        "getmanymut" => {
            // getmanymut <add> k1 .. kN  (N <= 4): get_many_key_value_mut, every returned value += add;
            // then get_many_mut with the same keys must see the same entries
            let add = n(1);
            let ks: Vec<K> = w[2..].iter().map(|s| K::mk(parse_u64(s), 999)).collect();
            fn fin<K: KeyT, V: ValT, const N: usize>(r: [Option<(&K, &mut V)>; N], add: u64, chk: &mut Vec<String>) -> Vec<Option<(u64, u64, u64)>> {
                let mut out = Vec::new();
                let mut addrs: Vec<usize> = Vec::new();
                for o in r {
                    match o {
                        Some((k, v)) => {
                            let a = v as *mut V as usize;
                            if std::mem::size_of::<V>() > 0 && addrs.contains(&a) {
                                chk.push("get_many_mut returned two mutable references to the same entry".into());
                            }
                            addrs.push(a);
                            let nv = v.val().wrapping_add(add);
                            v.set(nv);
                            out.push(Some((k.id(), k.stamp(), nv)));
                        }
                        None => out.push(None),
                    }
                }
                out
            }
            fn vals<V: ValT, const N: usize>(r: [Option<&mut V>; N]) -> Vec<Option<u64>> {
                r.into_iter().map(|o| o.map(|v| v.val())).collect()
            }
            let (got, again) = match ks.len() {
                0 => (fin::<K, V, 0>(m.get_many_key_value_mut::<K, 0>([]), add, chk), vals::<V, 0>(m.get_many_mut::<K, 0>([]))),
                1 => (fin::<K, V, 1>(m.get_many_key_value_mut([&ks[0]]), add, chk), vals::<V, 1>(m.get_many_mut([&ks[0]]))),
                2 => (fin::<K, V, 2>(m.get_many_key_value_mut([&ks[0], &ks[1]]), add, chk), vals::<V, 2>(m.get_many_mut([&ks[0], &ks[1]]))),
                3 => (fin::<K, V, 3>(m.get_many_key_value_mut([&ks[0], &ks[1], &ks[2]]), add, chk), vals::<V, 3>(m.get_many_mut([&ks[0], &ks[1], &ks[2]]))),
                _ => (fin::<K, V, 4>(m.get_many_key_value_mut([&ks[0], &ks[1], &ks[2], &ks[3]]), add, chk), vals::<V, 4>(m.get_many_mut([&ks[0], &ks[1], &ks[2], &ks[3]]))),
            };
            let want: Vec<Option<u64>> = got.iter().map(|o| o.map(|x| x.2)).collect();
            // two separate calls can only be compared when Hash and Eq answer consistently
            let lawful = with_ctx(|c| c.hash_rule < 3 && c.eq_rule == 0);
            if lawful && want != again {
                chk.push("get_many_mut and get_many_key_value_mut disagree".into());
            }
            let parts: Vec<String> = got.iter().map(|o| match o { Some((k, s, v)) => format!("{}:{}:{}", k, s, v), None => "none".into() }).collect();
            return OutRaw(format!("opts {}", if parts.is_empty() { "-".to_string() } else { parts.join(",") }));
        }
        // ---------------- owning iterators (C09, C03): into_iter / into_keys / into_values ----------------
        "intoiter" | "intokeys" | "intovalues" => {
            let take = n(1) as usize;
            let total = m.len();
            let hb = m.hasher().clone();
            let snap: Vec<(u64, u64, u64)> = m.iter().map(|(k, v)| kvt(k, v)).collect();
            let old = std::mem::replace(m, HashMap::with_hasher_in(hb, Ledger::fresh()));
            let mut got = Vec::new();
            match w[0] {
                "intoiter" => {
                    let mut it = old.into_iter();
                    for j in 0..take {
                        let r = total - j.min(total);
                        if it.len() != r || it.size_hint() != (r, Some(r)) {
                            chk.push(format!("into_iter: len()={} size_hint={:?} but {} remain", it.len(), it.size_hint(), r));
                        }
                        match it.next() {
                            Some((k, v)) => {
                                got.push(kvt(&k, &v));
                                held.push(Box::new((k, v)));
                            }
                            None => {
                                if it.next().is_some() {
                                    chk.push("into_iter: Some after None".into());
                                }
                                break;
                            }
                        }
                    }
                    if take > total + 1 {
                        // fold over the (empty) rest must visit nothing
                        let c = it.fold(0usize, |a, _| a + 1);
                        if c != 0 {
                            chk.push("into_iter: fold after exhaustion visits elements".into());
                        }
                    } else {
                        drop(it); // the unconsumed rest is dropped by the iterator, then the block is freed
                    }
                }
                "intokeys" => {
                    let mut it = old.into_keys();
                    for j in 0..take {
                        let r = total - j.min(total);
                        if it.len() != r || it.size_hint() != (r, Some(r)) {
                            chk.push(format!("into_keys: len()={} size_hint={:?} but {} remain", it.len(), it.size_hint(), r));
                        }
                        match it.next() {
                            Some(k) => {
                                got.push((k.id(), k.stamp(), 0));
                                held.push(Box::new(k));
                            }
                            None => break,
                        }
                    }
                    let rest: Vec<K> = it.fold(Vec::new(), |mut a, k| {
                        a.push(k);
                        a
                    });
                    if got.len() + rest.len() != total {
                        chk.push(format!("into_keys: next() x {} + fold yields {} of {} keys", got.len(), got.len() + rest.len(), total));
                    }
                    for k in rest {
                        got.push((k.id(), k.stamp(), 0));
                        held.push(Box::new(k));
                    }
                    // every key exactly once: compare with the snapshot, then report the full entries
                    let mut a: Vec<(u64, u64)> = got.iter().map(|x| (x.0, x.1)).collect();
                    let mut b: Vec<(u64, u64)> = snap.iter().map(|x| (x.0, x.1)).collect();
                    a.sort();
                    b.sort();
                    if a != b {
                        chk.push(format!("into_keys yields {:?}, stored keys are {:?}", a, b));
                    }
                    got = snap.clone();
                }
                _ => {
                    let mut it = old.into_values();
                    for j in 0..take {
                        let r = total - j.min(total);
                        if it.len() != r || it.size_hint() != (r, Some(r)) {
                            chk.push(format!("into_values: len()={} size_hint={:?} but {} remain", it.len(), it.size_hint(), r));
                        }
                        match it.next() {
                            Some(v) => {
                                got.push((0, 0, v.val()));
                                held.push(Box::new(v));
                            }
                            None => break,
                        }
                    }
                    let rest: Vec<V> = it.fold(Vec::new(), |mut a, v| {
                        a.push(v);
                        a
                    });
                    if got.len() + rest.len() != total {
                        chk.push(format!("into_values: next() x {} + fold yields {} of {} values", got.len(), got.len() + rest.len(), total));
                    }
                    for v in rest {
                        got.push((0, 0, v.val()));
                        held.push(Box::new(v));
                    }
                    let mut a: Vec<u64> = got.iter().map(|x| x.2).collect();
                    let mut b: Vec<u64> = snap.iter().map(|x| x.2).collect();
                    a.sort();
                    b.sort();
                    if a != b {
                        chk.push(format!("into_values yields {:?}, stored values are {:?}", a, b));
                    }
                    got = snap.clone();
                }
            }
            Out::List(got)
        }
        // owning iterators consumed through fold / for_each by a consumer that may PANIC part-way
        // (C03 / C04): <op> <n> <k>: n calls of next(), then for_each; the consumer's k-th call keeps
        // its element and then panics (k >= 1000000: never).  Every element handed out is held by the
        // harness; the rest must be dropped exactly once by the iterator when it is dropped (normally
        // or by the unwinding).
        "intoiterfold" | "intokeysfold" | "intovaluesfold" | "drainfold" => {
            let take = n(1) as usize;
            let panic_at = n(2) as usize;
            let hb = m.hasher().clone();
            let snap: Vec<(u64, u64, u64)> = m.iter().map(|(k, v)| kvt(k, v)).collect();
            let mut got: Vec<(u64, u64, u64)> = Vec::new();
            let mut calls = 0usize;
            let r = if w[0] == "drainfold" {
                let mut it = m.drain();
                for _ in 0..take {
                    match it.next() {
                        Some((k, v)) => {
                            got.push(kvt(&k, &v));
                            held.push(Box::new((k, v)));
                        }
                        None => break,
                    }
                }
                catch_unwind(AssertUnwindSafe(|| {
                    it.for_each(|(k, v)| {
                        got.push(kvt(&k, &v));
                        held.push(Box::new((k, v)));
                        calls += 1;
                        if calls == panic_at + 1 {
                            std::panic::panic_any(HvPanic("pred"));
                        }
                    })
                }))
            } else {
                let old = std::mem::replace(m, HashMap::with_hasher_in(hb, Ledger::fresh()));
                match w[0] {
                    "intoiterfold" => {
                        let mut it = old.into_iter();
                        for _ in 0..take {
                            match it.next() {
                                Some((k, v)) => {
                                    got.push(kvt(&k, &v));
                                    held.push(Box::new((k, v)));
                                }
                                None => break,
                            }
                        }
                        catch_unwind(AssertUnwindSafe(|| {
                            it.for_each(|(k, v)| {
                                got.push(kvt(&k, &v));
                                held.push(Box::new((k, v)));
                                calls += 1;
                                if calls == panic_at + 1 {
                                    std::panic::panic_any(HvPanic("pred"));
                                }
                            })
                        }))
                    }
                    "intokeysfold" => {
                        let mut it = old.into_keys();
                        for _ in 0..take {
                            match it.next() {
                                Some(k) => {
                                    got.push((k.id(), k.stamp(), 0));
                                    held.push(Box::new(k));
                                }
                                None => break,
                            }
                        }
                        catch_unwind(AssertUnwindSafe(|| {
                            it.for_each(|k| {
                                got.push((k.id(), k.stamp(), 0));
                                held.push(Box::new(k));
                                calls += 1;
                                if calls == panic_at + 1 {
                                    std::panic::panic_any(HvPanic("pred"));
                                }
                            })
                        }))
                    }
                    _ => {
                        let mut it = old.into_values();
                        for _ in 0..take {
                            match it.next() {
                                Some(v) => {
                                    got.push((0, 0, v.val()));
                                    held.push(Box::new(v));
                                }
                                None => break,
                            }
                        }
                        catch_unwind(AssertUnwindSafe(|| {
                            it.for_each(|v| {
                                got.push((0, 0, v.val()));
                                held.push(Box::new(v));
                                calls += 1;
                                if calls == panic_at + 1 {
                                    std::panic::panic_any(HvPanic("pred"));
                                }
                            })
                        }))
                    }
                }
            };
            if r.is_ok() && got.len() != snap.len() {
                chk.push(format!("{}: next() x {} + for_each delivered {} of {} elements", w[0], take, got.len(), snap.len()));
            }
            // keys / values only: report the full entries that were handed out, by identity
            if w[0] == "intokeysfold" {
                let mut out = Vec::new();
                for g in &got {
                    match snap.iter().find(|x| x.0 == g.0 && x.1 == g.1) {
                        Some(x) => out.push(*x),
                        None => chk.push(format!("into_keys yields key {}:{} which was not stored", g.0, g.1)),
                    }
                }
                got = out;
            } else if w[0] == "intovaluesfold" {
                let mut pool = snap.clone();
                let mut out = Vec::new();
                for g in &got {
                    match pool.iter().position(|x| x.2 == g.2) {
                        Some(i) => out.push(pool.swap_remove(i)),
                        None => chk.push(format!("into_values yields value {} which was not stored (or twice)", g.2)),
                    }
                }
                got = out;
            }
            Out::List(got)
        }
        // ---------------- leaking iterators / drains / entries (C02) ----------------
        "forget_drain" => {
            let take = n(1) as usize;
            let mut d = m.drain();
            let mut got = Vec::new();
            for _ in 0..take {
                match d.next() {
                    Some((k, v)) => {
                        got.push(kvt(&k, &v));
                        held.push(Box::new((k, v)));
                    }
                    None => break,
                }
            }
            std::mem::forget(d);
            with_ctx(|c| c.forgotten += 1);
            Out::List(got)
        }
        "forget_iter" => {
            let take = n(1) as usize;
            let mut it = m.iter_mut();
            for _ in 0..take {
                if it.next().is_none() {
                    break;
                }
            }
            std::mem::forget(it);
            let hb = m.hasher().clone();
            let ii = std::mem::replace(m, HashMap::with_hasher_in(hb, Ledger::fresh())).into_iter();
            // an owning iterator leaked part-way: its elements and block are leaked, nothing else happens
            let mut ii = ii;
            let mut got = Vec::new();
            for _ in 0..take {
                match ii.next() {
                    Some((k, v)) => {
                        got.push(kvt(&k, &v));
                        held.push(Box::new((k, v)));
                    }
                    None => break,
                }
            }
            std::mem::forget(ii);
            with_ctx(|c| c.forgotten += 1);
            Out::List(got)
        }
        "forget_entry" => {
            let k = n(1);
            let e = m.entry(K::mk(k, n(2)));
            let occ = matches!(e, Entry::Occupied(_));
            std::mem::forget(e);
            with_ctx(|c| c.forgotten += 1);
            Out::Bool(occ)
        }
        "forget_extractif" => {
            let take = n(1) as usize;
            let sel: Vec<u64> = w[2..].iter().map(|s| parse_u64(s)).collect();
            let mut got = Vec::new();
            let mut e = m.extract_if(|k, _| sel.contains(&k.id()));
            for _ in 0..take {
                match e.next() {
                    Some((k, v)) => {
                        got.push(kvt(&k, &v));
                        held.push(Box::new((k, v)));
                    }
                    None => break,
                }
            }
            std::mem::forget(e);
            with_ctx(|c| c.forgotten += 1);
            Out::List(got)
        }
        "len" => Out::Num(m.len() as u128),
        "capacity" => Out::Num(m.capacity() as u128),
        "allocsize" => Out::Num(m.allocation_size() as u128),
        "dropmap" => {
            let old = std::mem::replace(m, HashMap::with_hasher_in(PlanBuild::default(), Ledger::fresh()));
            drop(old);
            Out::Unit
        }
        other => panic!("unknown op {}", other),
    }
}

fn do_clone_op<K: KeyT, V: ValT>(m: &mut Map<K, V>, other: &mut Map<K, V>, w: &[&str], chk: &mut Vec<String>) -> String {
    match w[0] {
        "o_clone" => {
            let c = m.clone();
            let old = std::mem::replace(other, c);
            drop(old);
            "unit".into()
        }
        "o_clone_from" => {
            m.clone_from(other);
            "unit".into()
        }
        "o_swap" => {
            std::mem::swap(m, other);
            "unit".into()
        }
        "o_eq" => {
            let r = *m == *other;
            if r != (*other == *m) {
                chk.push("== is not symmetric".into());
            }
            format!("bool {}", r as u8)
        }
        "o_salt" => {
            let old = std::mem::replace(other, HashMap::with_hasher_in(PlanBuild { salt: parse_u64(w[1]) }, Ledger::fresh()));
            drop(old);
            "unit".into()
        }
        x => panic!("unknown clone-family op {}", x),
    }
}

pub fn run_map<K: KeyT, V: ValT>(lines: &[String], out: &mut String) {
    let mut m: Map<K, V> = HashMap::with_hasher_in(PlanBuild::default(), Ledger::fresh());
    let mut other: Map<K, V> = HashMap::with_hasher_in(PlanBuild::default(), Ledger::fresh());
    let (tsize, calign) = Map::<K, V>::verif_table_layout();
    let _ = writeln!(
        out,
        "CFG coll=map gw={} tsize={} talign={} calign={} needs_drop={}",
        hashbrown::verif::GROUP_WIDTH,
        tsize,
        std::mem::align_of::<(K, V)>(),
        calign,
        (K::DROP || V::DROP) as u8
    );
    let mut step = 0usize;
    let mut arms: Vec<String> = Vec::new();
    for line in lines {
        let line = line.trim();
        if line.is_empty() || line.starts_with('#') {
            continue;
        }
        let w: Vec<&str> = line.split_whitespace().collect();
        if w[0] == "hash" || w[0] == "hashrule" || w[0] == "eqrule" {
            apply_directive(&w);
            let _ = writeln!(out, "DIR {}", line);
            continue;
        }
        if w[0] == "arm" {
            apply_directive(&w);
            arms.push(line[4..].to_string());
            continue;
        }
        step += 1;
        if w[0].starts_with("o_") {
            let _ = writeln!(out, "STEPC {} {}", step, line);
            let _ = writeln!(out, "ARM {}", if arms.is_empty() { "-".to_string() } else { arms.join(" ; ") });
            let _ = writeln!(out, "PRE {}", dump_map(&m));
            let _ = writeln!(out, "PREO {}", dump_map(&other));
            let mut pre = table_serials(&m);
            pre.extend(table_serials(&other));
            with_ctx(|c| {
                c.drop_log.clear();
                c.ev_log.clear();
                c.clone_log.clear();
            });
            let mut chk: Vec<String> = Vec::new();
            let src_len = match w[0] {
                "o_clone" => Some(m.len()),
                "o_clone_from" => Some(other.len()),
                _ => None,
            };
            let r = catch_unwind(AssertUnwindSafe(|| do_clone_op(&mut m, &mut other, &w, &mut chk)));
            disarm();
            arms.clear();
            let mut leak_ok = false;
            match r {
                Ok(o) => {
                    let _ = writeln!(out, "RET {}", o);
                    // Clone::clone runs once per stored key and once per stored value (Copy types are
                    // copied without a call): a collection of non-Copy elements cloned with fewer calls
                    // shares its elements with the source
                    if let Some(n) = src_len {
                        let calls = with_ctx(|c| c.clone_log.len());
                        if std::mem::needs_drop::<K>() || std::any::type_name::<K>().ends_with("Kn") {
                            if calls != 2 * n {
                                chk.push(format!("{} of a map with {} entries ran Clone::clone {} times (a clone that shares an element with its source)", w[0], n, calls));
                            }
                        }
                    }
                }
                Err(p) => {
                    if let Some(h) = p.downcast_ref::<HvPanic>() {
                        leak_ok = h.0 == "drop";
                    if leak_ok {
                        with_ctx(|c| c.drop_panics += 1);
                    }
                        let _ = writeln!(out, "RET unwind {}", h.0);
                    } else {
                        let _ = writeln!(out, "RET libpanic ?");
                    }
                }
            }
            let (evlog, clones, dd, aerr) = with_ctx(|c| {
                (std::mem::take(&mut c.ev_log), std::mem::take(&mut c.clone_log), std::mem::take(&mut c.double_drops), std::mem::take(&mut c.alloc_errors))
            });
            let mut evs = String::new();
            for (kind, x, a, _b) in &evlog {
                match *kind {
                    'A' | 'F' | 'R' => {
                        let _ = write!(evs, " {}:{}:{}", kind, x, a);
                    }
                    'V' => {
                        if let Some(e) = pre.iter().find(|e| e.1 == *x) {
                            let _ = write!(evs, " DT:{}:{}:{}", e.2, e.3, a);
                        }
                    }
                    _ => {}
                }
            }
            let _ = writeln!(out, "EV{}", if evs.is_empty() { " -".to_string() } else { evs });
            let _ = writeln!(out, "POST {}", dump_map(&m));
            let _ = writeln!(out, "POSTO {}", dump_map(&other));
            let _ = writeln!(out, "CLONES {}", clones.len());
            check_red_zones();
            for d in dd {
                chk.push(format!("double drop of object serial {}", d));
            }
            chk.extend(aerr);
            chk.extend(with_ctx(|c| std::mem::take(&mut c.alloc_errors)));
            if K::DROP || V::DROP {
                let mut in_table: std::collections::HashSet<u64> = std::collections::HashSet::new();
                for e in table_serials(&m).iter().chain(table_serials(&other).iter()) {
                    in_table.insert(e.0);
                    in_table.insert(e.1);
                }
                // a clone owns its own objects: no serial may be shared between the two maps
                let a: std::collections::HashSet<u64> = table_serials(&m).iter().flat_map(|e| [e.0, e.1]).collect();
                let b: std::collections::HashSet<u64> = table_serials(&other).iter().flat_map(|e| [e.0, e.1]).collect();
                if a.intersection(&b).next().is_some() {
                    chk.push("the two maps share an element object (clone is not independent)".into());
                }
                let live: Vec<u64> = with_ctx(|c| c.live.keys().copied().collect());
                for s in &live {
                    if !in_table.contains(s) {
                        with_ctx(|c| {
                            c.live.remove(s);
                        });
                        if !leak_ok {
                            chk.push(format!("object serial {} is in neither map and was not dropped (leak)", s));
                        }
                    }
                }
                for s in &in_table {
                    if !live.contains(s) {
                        chk.push(format!("a map holds object serial {} that has already been dropped", s));
                    }
                }
            }
            let _ = writeln!(out, "CHK {}", if chk.is_empty() { "ok".to_string() } else { chk.join(" | ") });
            continue;
        }
        let other_before = dump_map(&other);
        let _ = writeln!(out, "STEP {} {}", step, line);
        let _ = writeln!(out, "ARM {}", if arms.is_empty() { "-".to_string() } else { arms.join(" ; ") });
        let _ = writeln!(out, "PRE {}", dump_map(&m));
        let pre = table_serials(&m);
        with_ctx(|c| {
            c.drop_log.clear();
            c.ev_log.clear();
            c.clone_log.clear();
        });
        let mut chk: Vec<String> = Vec::new();
        let mut held: Held = Vec::new();
        let r = catch_unwind(AssertUnwindSafe(|| {
            if w[0] == "par_eq" {
                // par_eq <threads>: the parallel comparison with the other map must agree with ==
                let pool = rayon::ThreadPoolBuilder::new().num_threads(parse_u64(w[1]) as usize).build().unwrap();
                let (p, q) = pool.install(|| (m.par_eq(&other), other.par_eq(&m)));
                let s = m == other;
                if p != s || q != s {
                    chk.push(format!("par_eq: the parallel comparison returned {} (reversed: {}) but == returns {}", p, q, s));
                }
                Out::Bool(p)
            } else {
                do_op(&mut m, &w, &mut chk, &mut held)
            }
        }));
        disarm();
        arms.clear();
        // events inside the op window
        let (_drops, evlog, dd, aerr) = with_ctx(|c| {
            (
                std::mem::take(&mut c.drop_log),
                std::mem::take(&mut c.ev_log),
                std::mem::take(&mut c.double_drops),
                std::mem::take(&mut c.alloc_errors),
            )
        });
        let mut leak_ok = false;
        let forgot = w[0].starts_with("forget_");
        if forgot {
            leak_ok = true; // the elements still owned by the leaked iterator are leaked, by design
        }
        match r {
            Ok(o) => {
                let _ = writeln!(out, "RET {}", o.text());
            }
            Err(p) => {
                if let Some(h) = p.downcast_ref::<HvPanic>() {
                    leak_ok = h.0 == "drop";
                    if leak_ok {
                        with_ctx(|c| c.drop_panics += 1);
                    }
                    let _ = writeln!(out, "RET unwind {}", h.0);
                } else if let Some(s) = p.downcast_ref::<&str>() {
                    let _ = writeln!(out, "RET libpanic {}", s.replace('\n', " "));
                } else if let Some(s) = p.downcast_ref::<String>() {
                    let _ = writeln!(out, "RET libpanic {}", s.replace('\n', " "));
                } else {
                    let _ = writeln!(out, "RET libpanic ?");
                }
            }
        }
        let mut evs = String::new();
        // allocator traffic and drops of values that were stored in the table when the operation
        // started (value as it was when dropped), in program order
        for (kind, x, a, _b) in &evlog {
            match *kind {
                'A' | 'F' | 'R' => {
                    let _ = write!(evs, " {}:{}:{}", kind, x, a);
                }
                'V' => {
                    if let Some(e) = pre.iter().find(|e| e.1 == *x) {
                        let _ = write!(evs, " DT:{}:{}:{}", e.2, e.3, a);
                    }
                }
                _ => {}
            }
        }
        let _ = writeln!(out, "EV{}", if evs.is_empty() { " -".to_string() } else { evs });
        let _ = writeln!(out, "POST {}", dump_map(&m));
        drop(held);
        check_red_zones();
        let aerr2 = with_ctx(|c| std::mem::take(&mut c.alloc_errors));
        for d in dd {
            chk.push(format!("double drop of object serial {}", d));
        }
        for e in aerr.into_iter().chain(aerr2) {
            chk.push(e);
        }
        // conservation (C03): every tracked object created so far is in the table, or dropped once
        if K::DROP || V::DROP {
            let mut post = table_serials(&m);
            post.extend(table_serials(&other));
            let live: Vec<u64> = with_ctx(|c| c.live.keys().copied().collect());
            let mut in_table: std::collections::HashSet<u64> = std::collections::HashSet::new();
            for e in &post {
                in_table.insert(e.0);
                in_table.insert(e.1);
            }
            for s in &live {
                if !in_table.contains(s) {
                    let what = with_ctx(|c| c.live.get(s).copied());
                    if leak_ok {
                        with_ctx(|c| {
                            c.live.remove(s);
                        });
                        continue;
                    }
                    chk.push(format!("object {:?} (serial {}) is neither in the collection nor dropped (leak)", what, s));
                    with_ctx(|c| {
                        c.live.remove(s);
                    });
                }
            }
            for s in &in_table {
                if !live.contains(s) {
                    chk.push(format!("collection holds object serial {} that has already been dropped", s));
                }
            }
        }
        if forgot {
            // the block owned by a leaked drain / into_iter is leaked with it: forgive exactly the
            // blocks that neither map owns now (at most one), nothing later
            let mut owned: Vec<usize> = Vec::new();
            for d in [m.verif_dump(), other.verif_dump()] {
                if let Some((_, _, off)) = d.alloc {
                    owned.push(d.ctrl_addr - off);
                }
            }
            let stray: Vec<usize> = with_ctx(|c| c.blocks.keys().copied().filter(|p| !owned.contains(p)).collect());
            if stray.len() > 1 {
                chk.push(format!("{} blocks are owned by nobody after leaking one iterator", stray.len()));
            }
            with_ctx(|c| {
                for p in &stray {
                    c.blocks.remove(p);
                }
            });
        }
        if dump_map(&other) != other_before {
            chk.push("an operation on one map changed its clone / the other map".into());
        }
        let _ = writeln!(out, "CHK {}", if chk.is_empty() { "ok".to_string() } else { chk.join(" | ") });
    }
    drop(m);
    drop(other);
    let (live, blocks, dd, aerr) = with_ctx(|c| (c.live.len(), c.blocks.len(), c.double_drops.len(), c.alloc_errors.clone()));
    let drop_panics = with_ctx(|c| c.drop_panics);
    let _ = writeln!(out, "END live={} blocks={} double_drops={} alloc_errors={} drop_panics={}", live, blocks, dd, aerr.len(), drop_panics);
}
