//! Query server for the crate-private pure functions (hook wrappers); one query per line.
use hashbrown::verif as hv;
use std::fmt::Write as _;
use std::io::{BufRead, Write};

fn unhex(s: &str) -> Vec<u8> {
    (0..s.len() / 2).map(|i| u8::from_str_radix(&s[2 * i..2 * i + 2], 16).unwrap()).collect()
}
fn mv(m: hv::MaskView) -> String {
    let mut s = String::from("iter=");
    if m.iter.is_empty() {
        s.push('-');
    }
    for (i, x) in m.iter.iter().enumerate() {
        if i > 0 {
            s.push(',');
        }
        let _ = write!(s, "{}", x);
    }
    let _ = write!(
        s,
        " any={} low={} lz={} tz={}",
        m.any_bit_set as u8,
        m.lowest_set_bit.map(|x| x.to_string()).unwrap_or("-".into()),
        m.leading_zeros,
        m.trailing_zeros
    );
    s
}

pub fn serve() {
    let stdin = std::io::stdin();
    let stdout = std::io::stdout();
    let mut out = std::io::BufWriter::new(stdout.lock());
    let _ = writeln!(out, "gw {}", hv::GROUP_WIDTH);
    for line in stdin.lock().lines() {
        let line = line.unwrap();
        let w: Vec<&str> = line.split_whitespace().collect();
        if w.is_empty() {
            continue;
        }
        let u = |i: usize| w[i].parse::<u64>().unwrap() as usize;
        let r = match w[0] {
            "ctb" => match hv::verif_capacity_to_buckets(u(1), u(2), u(3)) {
                Some(b) => format!("{}", b),
                None => "none".into(),
            },
            "bmtc" => format!("{}", hv::verif_bucket_mask_to_capacity(u(1))),
            // TableLayout::new::<T>() for concrete element types: size_of, align_of, then what the table uses
            "tlnew" => {
                #[repr(align(32))]
                #[allow(dead_code)]
                struct A32([u8; 32]);
                #[repr(align(64))]
                #[allow(dead_code)]
                struct A64z;
                #[repr(align(4096))]
                #[allow(dead_code)]
                struct A4096([u8; 4096]);
                fn tl<T>() -> String {
                    let (s, c) = hashbrown::HashTable::<T>::verif_table_layout();
                    format!("{} {} {} {}", std::mem::size_of::<T>(), std::mem::align_of::<T>(), s, c)
                }
                match u(1) {
                    0 => tl::<()>(),
                    1 => tl::<u8>(),
                    2 => tl::<u16>(),
                    3 => tl::<[u8; 3]>(),
                    4 => tl::<u64>(),
                    5 => tl::<[u8; 16]>(),
                    6 => tl::<[u8; 17]>(),
                    7 => tl::<[u16; 9]>(),
                    8 => tl::<[u32; 5]>(),
                    9 => tl::<[u8; 200]>(),
                    10 => tl::<[u64; 25]>(),
                    11 => tl::<u128>(),
                    12 => tl::<A32>(),
                    13 => tl::<A64z>(),
                    14 => tl::<A4096>(),
                    15 => tl::<(u8, [u8; 30])>(),
                    16 => tl::<[u16; 1000]>(),
                    _ => tl::<(u64, u64, u64)>(),
                }
            }
            "layout" => match hv::verif_calculate_layout_for(u(1), u(2), u(3)) {
                Some((l, a, o)) => format!("{} {} {}", l, a, o),
                None => "none".into(),
            },
            "probe" => {
                let v = hv::verif_probe_positions(w[1].parse::<u64>().unwrap(), u(2), u(3));
                v.iter().map(|x| x.to_string()).collect::<Vec<_>>().join(",")
            }
            "samegroup" => format!("{}", hv::verif_is_in_same_group(u(1), u(2), w[3].parse::<u64>().unwrap(), u(4)) as u8),
            "h1" => format!("{}", hv::verif_h1(w[1].parse::<u64>().unwrap())),
            "tagfull" => format!("{}", hv::verif_tag_full(w[1].parse::<u64>().unwrap())),
            "tagclass" => {
                let (a, b, c) = hv::verif_tag_class(u(1) as u8);
                format!("{} {} {}", a as u8, b as u8, c as u8)
            }
            "grp" => {
                let bytes = unhex(w[2]);
                match w[1] {
                    "match_tag" => mv(hv::verif_match_tag(&bytes, u(3) as u8)),
                    "match_empty" => mv(hv::verif_match_empty(&bytes)),
                    "match_eod" => mv(hv::verif_match_empty_or_deleted(&bytes)),
                    "match_full" => mv(hv::verif_match_full(&bytes)),
                    "convert" => crate::mapdrv::hex(&hv::verif_convert(&bytes)),
                    _ => "?".into(),
                }
            }
            _ => "?".into(),
        };
        let _ = writeln!(out, "{} = {}", line, r);
    }
}
