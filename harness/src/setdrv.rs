//! Script interpreter for two HashSets A and B (HashSet<K, PlanBuild, Ledger>): single-set
//! operations (traced like map operations, element value 0) and the binary set algebra.
use crate::instr::*;
use crate::mapdrv::{apply_directive, disarm, hex, parse_u64};
use hashbrown::HashSet;
use rayon::prelude::*;
use std::fmt::Write as _;
use std::sync::atomic::{AtomicUsize, Ordering};
use std::sync::Mutex;
use std::panic::{catch_unwind, AssertUnwindSafe};

pub type Set<K> = HashSet<K, PlanBuild, Ledger>;

pub fn dump_set<K: KeyT>(m: &Set<K>) -> String {
    let d = m.verif_dump();
    let mut s = String::new();
    if d.bucket_mask > 0xFFFF {
        // too large to dump (only reachable when something asks for an absurd capacity)
        let _ = write!(s, "m={} i={} g={} c=ff s=-", d.bucket_mask, d.items, d.growth_left);
        match d.alloc {
            Some((sz, al, off)) => {
                let _ = write!(s, " a={},{},{}", sz, al, off);
            }
            None => s.push_str(" a=-"),
        }
        let _ = write!(s, " sing=0 salt=0 cap={} BIG", m.capacity());
        return s;
    }
    let _ = write!(s, "m={} i={} g={} c={} s=", d.bucket_mask, d.items, d.growth_left, hex(&d.ctrl));
    let mut first = true;
    if d.bucket_mask != 0 {
        for i in 0..=d.bucket_mask {
            if let Some(k) = m.verif_bucket(i) {
                if !first {
                    s.push(';');
                }
                first = false;
                let _ = write!(s, "{}:{}:{}:0", i, k.id(), k.stamp());
            }
        }
    }
    if first {
        s.push('-');
    }
    match d.alloc {
        Some((sz, al, off)) => {
            let _ = write!(s, " a={},{},{}", sz, al, off);
        }
        None => s.push_str(" a=-"),
    }
    let _ = write!(s, " sing={} salt={} cap={}", d.singleton as u8, m.hasher().salt, m.capacity());
    s
}

fn serials<K: KeyT>(m: &Set<K>) -> Vec<(u64, u64, u64)> {
    let d = m.verif_dump();
    let mut v = Vec::new();
    if d.bucket_mask != 0 {
        for i in 0..=d.bucket_mask {
            if let Some(k) = m.verif_bucket(i) {
                v.push((k.serial(), k.id(), k.stamp()));
            }
        }
    }
    v
}

fn list_text(l: &[(u64, u64)]) -> String {
    if l.is_empty() {
        return "list -".into();
    }
    let mut s = String::from("list ");
    for (i, (k, st)) in l.iter().enumerate() {
        if i > 0 {
            s.push(',');
        }
        let _ = write!(s, "{}:{}:0", k, st);
    }
    s
}

type Held = Vec<Box<dyn std::any::Any>>;

fn single_op<K: KeyT>(m: &mut Set<K>, w: &[&str], chk: &mut Vec<String>, held: &mut Held) -> String {
    let n = |i: usize| parse_u64(w[i]);
    match w[0] {
        "sinsert" => format!("bool {}", m.insert(K::mk(n(1), n(2))) as u8),
        "sreplace" => match m.replace(K::mk(n(1), n(2))) {
            Some(k) => {
                let s = format!("kv {} 0", k.stamp());
                held.push(Box::new(k));
                s
            }
            None => "none".into(),
        },
        "stake" => match m.take(&K::mk(n(1), 999)) {
            Some(k) => {
                let s = format!("kv {} 0", k.stamp());
                held.push(Box::new(k));
                s
            }
            None => "none".into(),
        },
        "sget" => match m.get(&K::mk(n(1), 999)) {
            Some(k) => format!("kv {} 0", k.stamp()),
            None => "none".into(),
        },
        "sgetorinsert" => format!("kv {} 0", m.get_or_insert(K::mk(n(1), n(2))).stamp()),
        "sgetorinsertwith" => {
            let (stamp, fk) = (n(2), n(3));
            let q = K::mk(n(1), 999);
            let r = m.get_or_insert_with(&q, |_| K::mk(fk, stamp));
            format!("kv {} 0", r.stamp())
        }
        "sremove" => format!("bool {}", m.remove(&K::mk(n(1), 999)) as u8),
        "contains" => format!("bool {}", m.contains(&K::mk(n(1), 999)) as u8),
        "sentry_insert" => {
            // HashSet::entry(v).insert() / or_insert(): same observable effect as get_or_insert
            use hashbrown::hash_set::Entry;
            match m.entry(K::mk(n(1), n(2))) {
                Entry::Occupied(_) => "val 0".to_string(),
                Entry::Vacant(e) => {
                    let _o = e.insert();
                    "val 0".to_string()
                }
            }
        }
        "clear" => {
            m.clear();
            "unit".into()
        }
        "reserve" => {
            m.reserve(n(1) as usize);
            "unit".into()
        }
        "shrinktofit" => {
            m.shrink_to_fit();
            "unit".into()
        }
        "shrinkto" => {
            m.shrink_to(n(1) as usize);
            "unit".into()
        }
        "retain" => {
            let keep: Vec<u64> = w[2..].iter().map(|s| parse_u64(s)).collect();
            let before = m.len();
            let mut calls = 0;
            m.retain(|k| {
                calls += 1;
                keep.contains(&k.id())
            });
            if calls != before {
                chk.push(format!("retain called its predicate {} times for {} elements", calls, before));
            }
            "unit".into()
        }
        "iter" => {
            let total = m.len();
            let mut it = m.iter();
            let mut got = Vec::new();
            loop {
                let r = total - got.len().min(total);
                if it.len() != r || it.size_hint() != (r, Some(r)) {
                    chk.push(format!("set iter: len()={} size_hint={:?} but {} remain", it.len(), it.size_hint(), r));
                }
                match it.next() {
                    Some(k) => got.push((k.id(), k.stamp())),
                    None => break,
                }
                if got.len() > total {
                    chk.push("set iter yields more than len() elements".into());
                    break;
                }
            }
            list_text(&got)
        }
        "drain" => {
            let take = n(1) as usize;
            let mut got = Vec::new();
            {
                let mut d = m.drain();
                for _ in 0..take {
                    match d.next() {
                        Some(k) => {
                            got.push((k.id(), k.stamp()));
                            held.push(Box::new(k));
                        }
                        None => break,
                    }
                }
            }
            list_text(&got)
        }
        "extractif" => {
            let take = n(1) as usize;
            let sel: Vec<u64> = w[2..].iter().map(|s| parse_u64(s)).collect();
            let mut got = Vec::new();
            {
                let mut e = m.extract_if(|k| sel.contains(&k.id()));
                for _ in 0..take {
                    match e.next() {
                        Some(k) => {
                            got.push((k.id(), k.stamp()));
                            held.push(Box::new(k));
                        }
                        None => break,
                    }
                }
            }
            list_text(&got)
        }
        // ---------------- rayon (C19) ----------------
        "spar_iter" => {
            let pool = pool_of(n(1));
            let mut got: Vec<(u64, u64)> = pool.install(|| m.par_iter().map(|k| (k.id(), k.stamp())).collect());
            got.sort();
            if got != sorted_owned(m) {
                chk.push("spar_iter: the parallel iterator does not deliver every element exactly once".into());
            }
            list_text(&got)
        }
        "sinto_par_iter" => {
            let pool = pool_of(n(1));
            let want = sorted_owned(m);
            let old = std::mem::replace(m, HashSet::with_hasher_in(PlanBuild::default(), Ledger::fresh()));
            let got: Vec<K> = pool.install(|| old.into_par_iter().collect());
            let mut l: Vec<(u64, u64)> = got.iter().map(|k| (k.id(), k.stamp())).collect();
            l.sort();
            if l != want {
                chk.push("sinto_par_iter: the parallel iterator does not deliver every element exactly once".into());
            }
            held.push(Box::new(got));
            list_text(&l)
        }
        "spar_drain" => {
            // a consumer that accepts at most `take` elements and then short-circuits; whatever it is
            // handed after that is not kept (the consumer drops it)
            let pool = pool_of(n(1));
            let take = n(2) as usize;
            let want = sorted_owned(m);
            let alloc_before = m.verif_dump().alloc;
            let count = AtomicUsize::new(0);
            let got: Mutex<Vec<K>> = Mutex::new(Vec::new());
            let extra: Mutex<Vec<(u64, u64)>> = Mutex::new(Vec::new());
            pool.install(|| {
                let _ = m.par_drain().try_for_each(|k| {
                    let c = count.fetch_add(1, Ordering::SeqCst);
                    if c < take {
                        got.lock().unwrap().push(k);
                    } else {
                        extra.lock().unwrap().push((k.id(), k.stamp()));
                    }
                    if c + 1 >= take {
                        Err(())
                    } else {
                        Ok(())
                    }
                });
            });
            let got = got.into_inner().unwrap();
            let mut l: Vec<(u64, u64)> = got.iter().map(|k| (k.id(), k.stamp())).collect();
            l.sort();
            let mut all = l.clone();
            all.extend(extra.into_inner().unwrap());
            all.sort();
            if !is_sub_multiset(&all, &want) {
                chk.push(format!("spar_drain: the parallel drain delivered {:?}, not a sub-multiset of the stored {:?}", all, want));
            }
            if take >= want.len() && all != want {
                chk.push("spar_drain: the parallel drain was consumed completely but did not deliver every element exactly once".into());
            }
            if l.len() > take {
                chk.push("spar_drain: more elements received than accepted".into());
            }
            if !m.is_empty() || m.len() != 0 || m.iter().next().is_some() {
                chk.push("spar_drain: the set is not empty after the parallel drain".into());
            }
            if m.verif_dump().alloc != alloc_before {
                chk.push("spar_drain: the parallel drain did not keep the allocation".into());
            }
            held.push(Box::new(got));
            list_text(&l)
        }
        "spar_extend" => {
            // ParallelExtend / FromParallelIterator exist for sets with the Global allocator only:
            // the elements move into such a set (same hasher), are extended there, and move back
            let pool = pool_of(n(1));
            let ids: Vec<(u64, u64)> = w[2..]
                .iter()
                .map(|t| {
                    let p: Vec<&str> = t.split(':').collect();
                    (parse_u64(p[0]), parse_u64(p[1]))
                })
                .collect();
            let mut want = sorted_owned(m);
            for (k, st) in &ids {
                if !want.iter().any(|e| e.0 == *k) {
                    want.push((*k, *st));
                }
            }
            want.sort();
            let mut g: HashSet<K, PlanBuild> = HashSet::with_hasher(PlanBuild::default());
            g.extend(m.drain());
            let items: Vec<K> = ids.iter().map(|(k, st)| K::mk(*k, *st)).collect();
            pool.install(|| g.par_extend(items));
            let mut got: Vec<(u64, u64)> = g.iter().map(|k| (k.id(), k.stamp())).collect();
            got.sort();
            if got != want || g.len() != want.len() {
                chk.push(format!("spar_extend: the parallel extend gives {:?}, the sequential extend {:?}", got, want));
            }
            // from_par_iter of the same items against from_iter
            let fresh = || -> Vec<K> { ids.iter().map(|(k, st)| K::mk(*k, *st)).collect() };
            let items = fresh();
            let fp: HashSet<K, PlanBuild> = pool.install(|| HashSet::from_par_iter(items));
            let fs: HashSet<K, PlanBuild> = fresh().into_iter().collect();
            let sorted_g = |x: &HashSet<K, PlanBuild>| {
                let mut v: Vec<(u64, u64)> = x.iter().map(|k| (k.id(), k.stamp())).collect();
                v.sort();
                v
            };
            if sorted_g(&fp) != sorted_g(&fs) {
                chk.push(format!("spar_extend: from_par_iter gives {:?}, the sequential from_iter {:?} (parallel)", sorted_g(&fp), sorted_g(&fs)));
            }
            m.extend(g.drain());
            "unit".into()
        }
        "len" => format!("num {}", m.len()),
        "dropmap" => {
            let old = std::mem::replace(m, HashSet::with_hasher_in(PlanBuild::default(), Ledger::fresh()));
            drop(old);
            "unit".into()
        }
        other => panic!("unknown set op {}", other),
    }
}

fn refs<K: KeyT>(it: impl Iterator<Item = impl std::ops::Deref<Target = K>>) -> Vec<(u64, u64)> {
    it.map(|k| (k.id(), k.stamp())).collect()
}

fn sorted_owned<K: KeyT>(s: &Set<K>) -> Vec<(u64, u64)> {
    let mut v: Vec<(u64, u64)> = s.iter().map(|k| (k.id(), k.stamp())).collect();
    v.sort();
    v
}

fn pool_of(threads: u64) -> rayon::ThreadPool {
    rayon::ThreadPoolBuilder::new().num_threads(threads as usize).build().unwrap()
}

/// `small` (sorted) is contained in `big` (sorted) with multiplicities
fn is_sub_multiset(small: &[(u64, u64)], big: &[(u64, u64)]) -> bool {
    let mut j = 0;
    for e in small {
        while j < big.len() && big[j] < *e {
            j += 1;
        }
        if j >= big.len() || big[j] != *e {
            return false;
        }
        j += 1;
    }
    true
}

/// the binary operations; everything except the four assigning operators only reads both sets
/// (`binary_ro`), so it can also be run on a set paired with ITSELF (script line `self <op>`)
fn binary_op<K: KeyT>(a: &mut Set<K>, b: &Set<K>, w: &[&str], chk: &mut Vec<String>) -> String {
    match w[0] {
        "or_assign" => {
            *a |= b;
            "unit".into()
        }
        "and_assign" => {
            *a &= b;
            "unit".into()
        }
        "xor_assign" => {
            *a ^= b;
            "unit".into()
        }
        "sub_assign" => {
            *a -= b;
            "unit".into()
        }
        _ => binary_ro(&*a, b, w, chk),
    }
}

fn binary_ro<K: KeyT>(a: &Set<K>, b: &Set<K>, w: &[&str], chk: &mut Vec<String>) -> String {
    match w[0] {
        "union" => {
            let v = refs::<K>(a.union(b));
            let f: Vec<(u64, u64)> = a.union(b).fold(Vec::new(), |mut acc, k| {
                acc.push((k.id(), k.stamp()));
                acc
            });
            if f != v {
                chk.push("union: fold differs from next".into());
            }
            list_text(&v)
        }
        "intersection" => {
            let v = refs::<K>(a.intersection(b));
            let f: Vec<(u64, u64)> = a.intersection(b).fold(Vec::new(), |mut acc, k| {
                acc.push((k.id(), k.stamp()));
                acc
            });
            if f != v {
                chk.push("intersection: fold differs from next".into());
            }
            list_text(&v)
        }
        "difference" => {
            // also watch Difference::size_hint at every step
            let mut it = a.difference(b);
            let mut v = Vec::new();
            let total: usize = a.difference(b).count();
            loop {
                let (lo, hi) = it.size_hint();
                let remaining = total - v.len();
                if lo > remaining || hi.map_or(false, |h| h < remaining) {
                    chk.push(format!("difference.size_hint() = ({}, {:?}) but {} elements remain", lo, hi, remaining));
                }
                match it.next() {
                    Some(k) => v.push((k.id(), k.stamp())),
                    None => break,
                }
            }
            list_text(&v)
        }
        "symdiff" => list_text(&refs::<K>(a.symmetric_difference(b))),
        "is_subset" => format!("bool {}", a.is_subset(b) as u8),
        "is_superset" => format!("bool {}", a.is_superset(b) as u8),
        "is_disjoint" => format!("bool {}", a.is_disjoint(b) as u8),
        "eq" => {
            let r = *a == *b;
            if r != (*b == *a) {
                chk.push("== is not symmetric".into());
            }
            format!("bool {}", r as u8)
        }
        // operator forms: a fresh set; compared as a set
        "bitor" => {
            let r: Set<K> = a | b;
            let mut s = String::from("set ");
            s.push_str(&list_text(&sorted_owned(&r))[5..]);
            s
        }
        "bitand" => {
            let r: Set<K> = a & b;
            let mut s = String::from("set ");
            s.push_str(&list_text(&sorted_owned(&r))[5..]);
            s
        }
        "bitxor" => {
            let r: Set<K> = a ^ b;
            let mut s = String::from("set ");
            s.push_str(&list_text(&sorted_owned(&r))[5..]);
            s
        }
        "sub" => {
            let r: Set<K> = a - b;
            let mut s = String::from("set ");
            s.push_str(&list_text(&sorted_owned(&r))[5..]);
            s
        }
        // ---------------- rayon (C19): parallel set algebra against the sequential one ----------------
        "spar_union" | "spar_intersection" | "spar_difference" | "spar_symmetric_difference" => {
            let pool = pool_of(parse_u64(w[1]));
            let (mut par, mut seq): (Vec<(u64, u64)>, Vec<(u64, u64)>) = match w[0] {
                "spar_union" => (pool.install(|| a.par_union(b).map(|k| (k.id(), k.stamp())).collect()), refs::<K>(a.union(b))),
                "spar_intersection" => (pool.install(|| a.par_intersection(b).map(|k| (k.id(), k.stamp())).collect()), refs::<K>(a.intersection(b))),
                "spar_difference" => (pool.install(|| a.par_difference(b).map(|k| (k.id(), k.stamp())).collect()), refs::<K>(a.difference(b))),
                _ => (pool.install(|| a.par_symmetric_difference(b).map(|k| (k.id(), k.stamp())).collect()), refs::<K>(a.symmetric_difference(b))),
            };
            par.sort();
            seq.sort();
            // an element present in both sets may be taken from either one (the sequential and the
            // parallel union / intersection choose differently): compare the elements, and require
            // every delivered object to be stored in one of the sets
            let by_id = w[0] == "spar_union" || w[0] == "spar_intersection";
            let same = if by_id {
                par.iter().map(|e| e.0).collect::<Vec<_>>() == seq.iter().map(|e| e.0).collect::<Vec<_>>()
            } else {
                par == seq
            };
            if !same {
                chk.push(format!("{}: the parallel result {:?} differs from the sequential {:?}", w[0], par, seq));
            }
            let (sa, sb) = (sorted_owned(a), sorted_owned(b));
            if par.iter().any(|e| sa.binary_search(e).is_err() && sb.binary_search(e).is_err()) {
                chk.push(format!("{}: the parallel iterator delivered an object stored in neither set", w[0]));
            }
            list_text(&par)
        }
        "spar_is_subset" | "spar_is_superset" | "spar_is_disjoint" | "spar_eq" => {
            let pool = pool_of(parse_u64(w[1]));
            let (par, seq) = match w[0] {
                "spar_is_subset" => (pool.install(|| a.par_is_subset(b)), a.is_subset(b)),
                "spar_is_superset" => (pool.install(|| a.par_is_superset(b)), a.is_superset(b)),
                "spar_is_disjoint" => (pool.install(|| a.par_is_disjoint(b)), a.is_disjoint(b)),
                _ => (pool.install(|| a.par_eq(b)), *a == *b),
            };
            if par != seq {
                chk.push(format!("{}: the parallel predicate returned {} but the sequential one {}", w[0], par, seq));
            }
            format!("bool {}", par as u8)
        }
        other => panic!("unknown binary set op {}", other),
    }
}

pub fn run_set<K: KeyT>(lines: &[String], out: &mut String) {
    let mut a: Set<K> = HashSet::with_hasher_in(PlanBuild::default(), Ledger::fresh());
    let mut b: Set<K> = HashSet::with_hasher_in(PlanBuild::default(), Ledger::fresh());
    let d = a.verif_dump();
    let _ = d;
    let (tsize, calign) = hashbrown::HashMap::<K, (), PlanBuild, Ledger>::verif_table_layout();
    let _ = writeln!(
        out,
        "CFG coll=set gw={} tsize={} talign={} calign={} needs_drop={}",
        hashbrown::verif::GROUP_WIDTH,
        tsize,
        std::mem::align_of::<(K, ())>(),
        calign,
        K::DROP as u8
    );
    let mut step = 0usize;
    let mut arms: Vec<String> = Vec::new();
    for line in lines {
        let line = line.trim();
        if line.is_empty() || line.starts_with('#') {
            continue;
        }
        let w: Vec<&str> = line.split_whitespace().collect();
        if w[0] == "hash" || w[0] == "hashrule" || w[0] == "eqrule" {
            apply_directive(&w);
            let _ = writeln!(out, "DIR {}", line);
            continue;
        }
        if w[0] == "arm" {
            apply_directive(&w);
            arms.push(line[4..].to_string());
            continue;
        }
        // `B salt n`: the right-hand set gets a differently seeded hasher (both sets hash the same keys
        // differently from now on); only meaningful while B is empty
        if w.len() == 3 && w[0] == "B" && w[1] == "salt" {
            let old = std::mem::replace(&mut b, HashSet::with_hasher_in(PlanBuild { salt: parse_u64(w[2]) }, Ledger::fresh()));
            drop(old);
            continue;
        }
        step += 1;
        with_ctx(|c| {
            c.drop_log.clear();
            c.ev_log.clear();
        });
        let mut chk: Vec<String> = Vec::new();
        let mut held: Held = Vec::new();
        let single = w[0] == "A" || w[0] == "B";
        if single {
            let tgt = w[0];
            let _ = writeln!(out, "TGT {}", tgt);
            let _ = writeln!(out, "STEP {} {}", step, w[1..].join(" "));
            let _ = writeln!(out, "ARM {}", if arms.is_empty() { "-".to_string() } else { arms.join(" ; ") });
            let m = if tgt == "A" { &mut a } else { &mut b };
            let _ = writeln!(out, "PRE {}", dump_set(m));
            let pre = serials(m);
            let r = catch_unwind(AssertUnwindSafe(|| single_op(m, &w[1..], &mut chk, &mut held)));
            disarm();
            arms.clear();
            finish_step(out, r, &pre, &mut chk, tgt);
            let m = if tgt == "A" { &a } else { &b };
            let _ = writeln!(out, "POST {}", dump_set(m));
        } else if w[0] == "self" {
            // a set paired with itself (the same object on both sides): read-only operations only
            let _ = writeln!(out, "STEP2 {} {}", step, w[1..].join(" "));
            let _ = writeln!(out, "ARM {}", if arms.is_empty() { "-".to_string() } else { arms.join(" ; ") });
            let _ = writeln!(out, "PREA {}", dump_set(&a));
            let _ = writeln!(out, "PREB {}", dump_set(&a));
            let pre = serials(&a);
            let r = catch_unwind(AssertUnwindSafe(|| binary_ro(&a, &a, &w[1..], &mut chk)));
            disarm();
            arms.clear();
            finish_step(out, r, &pre, &mut chk, "A");
            let _ = writeln!(out, "POST {}", dump_set(&a));
            let _ = writeln!(out, "POSTB {}", dump_set(&a));
        } else {
            let _ = writeln!(out, "STEP2 {} {}", step, line);
            let _ = writeln!(out, "ARM {}", if arms.is_empty() { "-".to_string() } else { arms.join(" ; ") });
            let _ = writeln!(out, "PREA {}", dump_set(&a));
            let _ = writeln!(out, "PREB {}", dump_set(&b));
            let pre = serials(&a);
            let r = catch_unwind(AssertUnwindSafe(|| binary_op(&mut a, &b, &w, &mut chk)));
            disarm();
            arms.clear();
            finish_step(out, r, &pre, &mut chk, "A");
            let _ = writeln!(out, "POST {}", dump_set(&a));
            let _ = writeln!(out, "POSTB {}", dump_set(&b));
        }
        drop(held);
        check_red_zones();
        let (dd, aerr) = with_ctx(|c| (std::mem::take(&mut c.double_drops), std::mem::take(&mut c.alloc_errors)));
        for d in dd {
            chk.push(format!("double drop of object serial {}", d));
        }
        chk.extend(aerr);
        if K::DROP {
            let mut in_sets: std::collections::HashSet<u64> = std::collections::HashSet::new();
            for e in serials(&a).into_iter().chain(serials(&b)) {
                in_sets.insert(e.0);
            }
            let live: Vec<u64> = with_ctx(|c| c.live.keys().copied().collect());
            for s in &live {
                if !in_sets.contains(s) {
                    chk.push(format!("object serial {} is neither in a set nor dropped (leak)", s));
                    with_ctx(|c| {
                        c.live.remove(s);
                    });
                }
            }
            for s in &in_sets {
                if !live.contains(s) {
                    chk.push(format!("a set holds object serial {} that has already been dropped", s));
                }
            }
        }
        let _ = writeln!(out, "CHK {}", if chk.is_empty() { "ok".to_string() } else { chk.join(" | ") });
    }
    drop(a);
    drop(b);
    let (live, blocks, dd, aerr) = with_ctx(|c| (c.live.len(), c.blocks.len(), c.double_drops.len(), c.alloc_errors.len()));
    let _ = writeln!(out, "END live={} blocks={} double_drops={} alloc_errors={}", live, blocks, dd, aerr);
}

fn finish_step(out: &mut String, r: std::thread::Result<String>, pre: &[(u64, u64, u64)], _chk: &mut Vec<String>, tgt: &str) {
    let _ = tgt;
    match r {
        Ok(s) => {
            let _ = writeln!(out, "RET {}", s);
        }
        Err(p) => {
            if let Some(h) = p.downcast_ref::<HvPanic>() {
                let _ = writeln!(out, "RET unwind {}", h.0);
            } else if let Some(s) = p.downcast_ref::<&str>() {
                let _ = writeln!(out, "RET libpanic {}", s.replace('\n', " "));
            } else if let Some(s) = p.downcast_ref::<String>() {
                let _ = writeln!(out, "RET libpanic {}", s.replace('\n', " "));
            } else {
                let _ = writeln!(out, "RET libpanic ?");
            }
        }
    }
    let evlog = with_ctx(|c| std::mem::take(&mut c.ev_log));
    let mut evs = String::new();
    for (kind, x, a, _b) in &evlog {
        match *kind {
            'A' | 'F' | 'R' => {
                let _ = write!(evs, " {}:{}:{}", kind, x, a);
            }
            'K' => {
                // a key stored in the target set when the operation started was dropped
                if let Some(e) = pre.iter().find(|e| e.0 == *x) {
                    let _ = write!(evs, " DT:{}:{}:0", e.1, e.2);
                }
            }
            _ => {}
        }
    }
    let _ = writeln!(out, "EV{}", if evs.is_empty() { " -".to_string() } else { evs });
}
