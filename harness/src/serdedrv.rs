//! Minimal in-memory serde data format for the C20 checks: a map is a sequence of (u64, u64)
//! pairs, a set a sequence of u64; the Deserializer side is scripted (claimed size hint, input
//! pairs with duplicates, error injected at a position).
use crate::instr::*;
use serde::de::{self, DeserializeSeed, IntoDeserializer, MapAccess, SeqAccess, Visitor};
use serde::ser::{self, Impossible, SerializeMap, SerializeSeq};
use serde::{Deserialize, Deserializer, Serialize, Serializer};
use std::fmt;

#[derive(Debug)]
pub struct Err(pub String);
impl fmt::Display for Err {
    fn fmt(&self, f: &mut fmt::Formatter<'_>) -> fmt::Result {
        f.write_str(&self.0)
    }
}
impl std::error::Error for Err {}
impl ser::Error for Err {
    fn custom<T: fmt::Display>(m: T) -> Self {
        Err(m.to_string())
    }
}
impl de::Error for Err {
    fn custom<T: fmt::Display>(m: T) -> Self {
        Err(m.to_string())
    }
}

// keys and values travel as one u64 each: key = id << 24 | stamp, value = val
pub fn pack_key(id: u64, stamp: u64) -> u64 {
    (id << 24) | (stamp & 0xFF_FFFF)
}
impl Serialize for Kd {
    fn serialize<S: Serializer>(&self, s: S) -> Result<S::Ok, S::Error> {
        s.serialize_u64(pack_key(self.id, self.stamp))
    }
}
impl<'de> Deserialize<'de> for Kd {
    fn deserialize<D: Deserializer<'de>>(d: D) -> Result<Self, D::Error> {
        let x = u64::deserialize(d)?;
        Ok(Kd::mk(x >> 24, x & 0xFF_FFFF))
    }
}
impl Serialize for Vd {
    fn serialize<S: Serializer>(&self, s: S) -> Result<S::Ok, S::Error> {
        s.serialize_u64(self.val)
    }
}
impl<'de> Deserialize<'de> for Vd {
    fn deserialize<D: Deserializer<'de>>(d: D) -> Result<Self, D::Error> {
        Ok(Vd::mk(u64::deserialize(d)?))
    }
}

// ---------------------------------------------------------------- serializer
pub enum Tokens {
    Map(Vec<(u64, u64)>),
    Seq(Vec<u64>),
}
pub struct Ser;
pub struct U64Ser;
pub struct MapSer {
    items: Vec<(u64, u64)>,
    key: Option<u64>,
}
pub struct SeqSer {
    items: Vec<u64>,
}

macro_rules! unsupported {
    ($($name:ident($($t:ty),*) -> $ret:ty;)*) => {
        $(fn $name(self $(, _: $t)*) -> Result<$ret, Err> { Result::Err(Err("unsupported".into())) })*
    };
}

impl Serializer for U64Ser {
    type Ok = u64;
    type Error = Err;
    type SerializeSeq = Impossible<u64, Err>;
    type SerializeTuple = Impossible<u64, Err>;
    type SerializeTupleStruct = Impossible<u64, Err>;
    type SerializeTupleVariant = Impossible<u64, Err>;
    type SerializeMap = Impossible<u64, Err>;
    type SerializeStruct = Impossible<u64, Err>;
    type SerializeStructVariant = Impossible<u64, Err>;
    fn serialize_u64(self, v: u64) -> Result<u64, Err> {
        Ok(v)
    }
    fn serialize_unit(self) -> Result<u64, Err> {
        Ok(0)
    }
    unsupported! {
        serialize_bool(bool) -> u64; serialize_i8(i8) -> u64; serialize_i16(i16) -> u64; serialize_i32(i32) -> u64;
        serialize_i64(i64) -> u64; serialize_u8(u8) -> u64; serialize_u16(u16) -> u64; serialize_u32(u32) -> u64;
        serialize_f32(f32) -> u64; serialize_f64(f64) -> u64; serialize_char(char) -> u64; serialize_str(&str) -> u64;
        serialize_bytes(&[u8]) -> u64; serialize_none() -> u64; serialize_unit_struct(&'static str) -> u64;
        serialize_unit_variant(&'static str, u32, &'static str) -> u64;
        serialize_seq(Option<usize>) -> Self::SerializeSeq; serialize_tuple(usize) -> Self::SerializeTuple;
        serialize_tuple_struct(&'static str, usize) -> Self::SerializeTupleStruct;
        serialize_tuple_variant(&'static str, u32, &'static str, usize) -> Self::SerializeTupleVariant;
        serialize_map(Option<usize>) -> Self::SerializeMap; serialize_struct(&'static str, usize) -> Self::SerializeStruct;
        serialize_struct_variant(&'static str, u32, &'static str, usize) -> Self::SerializeStructVariant;
    }
    fn serialize_some<T: ?Sized + Serialize>(self, _: &T) -> Result<u64, Err> {
        Result::Err(Err("unsupported".into()))
    }
    fn serialize_newtype_struct<T: ?Sized + Serialize>(self, _: &'static str, v: &T) -> Result<u64, Err> {
        v.serialize(self)
    }
    fn serialize_newtype_variant<T: ?Sized + Serialize>(self, _: &'static str, _: u32, _: &'static str, _: &T) -> Result<u64, Err> {
        Result::Err(Err("unsupported".into()))
    }
}

impl Serializer for Ser {
    type Ok = Tokens;
    type Error = Err;
    type SerializeSeq = SeqSer;
    type SerializeTuple = Impossible<Tokens, Err>;
    type SerializeTupleStruct = Impossible<Tokens, Err>;
    type SerializeTupleVariant = Impossible<Tokens, Err>;
    type SerializeMap = MapSer;
    type SerializeStruct = Impossible<Tokens, Err>;
    type SerializeStructVariant = Impossible<Tokens, Err>;
    fn serialize_seq(self, _len: Option<usize>) -> Result<SeqSer, Err> {
        Ok(SeqSer { items: Vec::new() })
    }
    fn serialize_map(self, _len: Option<usize>) -> Result<MapSer, Err> {
        Ok(MapSer { items: Vec::new(), key: None })
    }
    unsupported! {
        serialize_bool(bool) -> Tokens; serialize_i8(i8) -> Tokens; serialize_i16(i16) -> Tokens; serialize_i32(i32) -> Tokens;
        serialize_i64(i64) -> Tokens; serialize_u8(u8) -> Tokens; serialize_u16(u16) -> Tokens; serialize_u32(u32) -> Tokens;
        serialize_u64(u64) -> Tokens;
        serialize_f32(f32) -> Tokens; serialize_f64(f64) -> Tokens; serialize_char(char) -> Tokens; serialize_str(&str) -> Tokens;
        serialize_bytes(&[u8]) -> Tokens; serialize_none() -> Tokens; serialize_unit() -> Tokens; serialize_unit_struct(&'static str) -> Tokens;
        serialize_unit_variant(&'static str, u32, &'static str) -> Tokens;
        serialize_tuple(usize) -> Self::SerializeTuple;
        serialize_tuple_struct(&'static str, usize) -> Self::SerializeTupleStruct;
        serialize_tuple_variant(&'static str, u32, &'static str, usize) -> Self::SerializeTupleVariant;
        serialize_struct(&'static str, usize) -> Self::SerializeStruct;
        serialize_struct_variant(&'static str, u32, &'static str, usize) -> Self::SerializeStructVariant;
    }
    fn serialize_some<T: ?Sized + Serialize>(self, _: &T) -> Result<Tokens, Err> {
        Result::Err(Err("unsupported".into()))
    }
    fn serialize_newtype_struct<T: ?Sized + Serialize>(self, _: &'static str, _: &T) -> Result<Tokens, Err> {
        Result::Err(Err("unsupported".into()))
    }
    fn serialize_newtype_variant<T: ?Sized + Serialize>(self, _: &'static str, _: u32, _: &'static str, _: &T) -> Result<Tokens, Err> {
        Result::Err(Err("unsupported".into()))
    }
}
impl SerializeMap for MapSer {
    type Ok = Tokens;
    type Error = Err;
    fn serialize_key<T: ?Sized + Serialize>(&mut self, key: &T) -> Result<(), Err> {
        self.key = Some(key.serialize(U64Ser)?);
        Ok(())
    }
    fn serialize_value<T: ?Sized + Serialize>(&mut self, value: &T) -> Result<(), Err> {
        let v = value.serialize(U64Ser)?;
        self.items.push((self.key.take().unwrap(), v));
        Ok(())
    }
    fn end(self) -> Result<Tokens, Err> {
        Ok(Tokens::Map(self.items))
    }
}
impl SerializeSeq for SeqSer {
    type Ok = Tokens;
    type Error = Err;
    fn serialize_element<T: ?Sized + Serialize>(&mut self, value: &T) -> Result<(), Err> {
        self.items.push(value.serialize(U64Ser)?);
        Ok(())
    }
    fn end(self) -> Result<Tokens, Err> {
        Ok(Tokens::Seq(self.items))
    }
}

// ---------------------------------------------------------------- scripted deserializer
pub struct ScriptDe {
    pub pairs: Vec<(u64, u64)>,
    pub hint: Option<usize>,
    pub err_at: Option<usize>,
}
struct Access {
    pairs: std::vec::IntoIter<(u64, u64)>,
    hint: Option<usize>,
    err_at: Option<usize>,
    pos: usize,
    pending_val: Option<u64>,
}
impl<'de> MapAccess<'de> for Access {
    type Error = Err;
    fn next_key_seed<K: DeserializeSeed<'de>>(&mut self, seed: K) -> Result<Option<K::Value>, Err> {
        if self.err_at == Some(self.pos) {
            return Result::Err(Err(format!("injected error at element {}", self.pos)));
        }
        match self.pairs.next() {
            Some((k, v)) => {
                self.pos += 1;
                self.pending_val = Some(v);
                seed.deserialize(k.into_deserializer()).map(Some)
            }
            None => Ok(None),
        }
    }
    fn next_value_seed<V: DeserializeSeed<'de>>(&mut self, seed: V) -> Result<V::Value, Err> {
        seed.deserialize(self.pending_val.take().unwrap().into_deserializer())
    }
    fn size_hint(&self) -> Option<usize> {
        self.hint
    }
}
impl<'de> SeqAccess<'de> for Access {
    type Error = Err;
    fn next_element_seed<S: DeserializeSeed<'de>>(&mut self, seed: S) -> Result<Option<S::Value>, Err> {
        if self.err_at == Some(self.pos) {
            return Result::Err(Err(format!("injected error at element {}", self.pos)));
        }
        match self.pairs.next() {
            Some((k, _)) => {
                self.pos += 1;
                seed.deserialize(k.into_deserializer()).map(Some)
            }
            None => Ok(None),
        }
    }
    fn size_hint(&self) -> Option<usize> {
        self.hint
    }
}
impl<'de> Deserializer<'de> for ScriptDe {
    type Error = Err;
    fn deserialize_any<V: Visitor<'de>>(self, _v: V) -> Result<V::Value, Err> {
        Result::Err(Err("unsupported".into()))
    }
    fn deserialize_map<V: Visitor<'de>>(self, v: V) -> Result<V::Value, Err> {
        v.visit_map(Access { pairs: self.pairs.into_iter(), hint: self.hint, err_at: self.err_at, pos: 0, pending_val: None })
    }
    fn deserialize_seq<V: Visitor<'de>>(self, v: V) -> Result<V::Value, Err> {
        v.visit_seq(Access { pairs: self.pairs.into_iter(), hint: self.hint, err_at: self.err_at, pos: 0, pending_val: None })
    }
    serde::forward_to_deserialize_any! {
        bool i8 i16 i32 i64 u8 u16 u32 u64 f32 f64 char str string bytes byte_buf option unit unit_struct
        newtype_struct tuple tuple_struct struct enum identifier ignored_any
    }
}

impl Serialize for Kp {
    fn serialize<S: Serializer>(&self, s: S) -> Result<S::Ok, S::Error> {
        s.serialize_u64(pack_key(self.id, self.stamp))
    }
}
impl<'de> Deserialize<'de> for Kp {
    fn deserialize<D: Deserializer<'de>>(d: D) -> Result<Self, D::Error> {
        let x = u64::deserialize(d)?;
        Ok(Kp::mk(x >> 24, x & 0xFF_FFFF))
    }
}
impl Serialize for Vp {
    fn serialize<S: Serializer>(&self, s: S) -> Result<S::Ok, S::Error> {
        s.serialize_u64(self.0)
    }
}
impl<'de> Deserialize<'de> for Vp {
    fn deserialize<D: Deserializer<'de>>(d: D) -> Result<Self, D::Error> {
        Ok(Vp(u64::deserialize(d)?))
    }
}

impl Serialize for Kn {
    fn serialize<S: Serializer>(&self, s: S) -> Result<S::Ok, S::Error> {
        s.serialize_u64(pack_key(self.id, self.stamp))
    }
}
impl<'de> Deserialize<'de> for Kn {
    fn deserialize<D: Deserializer<'de>>(d: D) -> Result<Self, D::Error> {
        let x = u64::deserialize(d)?;
        Ok(Kn::mk(x >> 24, x & 0xFF_FFFF))
    }
}
impl Serialize for Vn {
    fn serialize<S: Serializer>(&self, s: S) -> Result<S::Ok, S::Error> {
        s.serialize_u64(self.0)
    }
}
impl<'de> Deserialize<'de> for Vn {
    fn deserialize<D: Deserializer<'de>>(d: D) -> Result<Self, D::Error> {
        Ok(Vn(u64::deserialize(d)?))
    }
}

// ---------------------------------------------------------------- zero-sized / tiny element probe (C20)
#[derive(PartialEq, Eq, Hash, Debug, Clone, Copy)]
pub struct Z0;
impl<'de> Deserialize<'de> for Z0 {
    fn deserialize<D: Deserializer<'de>>(d: D) -> Result<Self, D::Error> {
        let _ = u64::deserialize(d)?;
        Ok(Z0)
    }
}
#[derive(PartialEq, Eq, Hash, Debug, Clone, Copy)]
pub struct B1(pub u8);
impl<'de> Deserialize<'de> for B1 {
    fn deserialize<D: Deserializer<'de>>(d: D) -> Result<Self, D::Error> {
        Ok(B1(u64::deserialize(d)? as u8))
    }
}

/// `cautious` caps the pre-allocation at 4096 elements: a table for 4096 elements has 8192 buckets
/// and capacity 7168.  Anything beyond that was sized by the claimed length.
const CAP_BOUND: usize = 7168;

fn probe_one<T, F: Fn(ScriptDe) -> Result<(usize, usize), Err>>(what: &str, hint: Option<usize>, n: usize, f: F, bad: &mut usize, cases: &mut usize)
where
    T: Sized,
{
    *cases += 1;
    let pairs: Vec<(u64, u64)> = (0..n as u64).map(|i| (i, i)).collect();
    let r = std::panic::catch_unwind(std::panic::AssertUnwindSafe(|| f(ScriptDe { pairs, hint, err_at: None })));
    match r {
        Ok(Ok((cap, alloc))) => {
            let bound_bytes = 8192 * std::mem::size_of::<T>().max(1) + 8192 + 64 + 64;
            if cap > CAP_BOUND || alloc > bound_bytes {
                *bad += 1;
                println!("SERDEZST {} with {} elements claiming {:?}: capacity {} / {} bytes reserved (bound: capacity {}, {} bytes)", what, n, hint, cap, alloc, CAP_BOUND, bound_bytes);
            }
        }
        Ok(Result::Err(e)) => {
            *bad += 1;
            println!("SERDEZST {} with {} elements claiming {:?}: unexpected error {}", what, n, hint, e);
        }
        Result::Err(p) => {
            *bad += 1;
            let msg = p.downcast_ref::<&str>().map(|s| s.to_string()).or(p.downcast_ref::<String>().cloned()).unwrap_or("?".into());
            println!("SERDEZST {} with {} elements claiming {:?}: panicked ({})", what, n, hint, msg);
        }
    }
}

pub fn zst_probe() {
    use hashbrown::{HashMap, HashSet};
    type S = PlanBuild;
    let hints: Vec<Option<usize>> = vec![None, Some(0), Some(1), Some(4096), Some(4097), Some(1_000_000), Some(1 << 24), Some(1 << 34),
                                         Some(isize::MAX as usize), Some(usize::MAX)];
    let (mut bad, mut cases) = (0usize, 0usize);
    for h in &hints {
        for n in [0usize, 1, 3] {
            probe_one::<Z0, _>("HashSet<zero-sized>::deserialize", *h, n, |d| {
                let s: HashSet<Z0, S, Ledger> = HashSet::deserialize(d)?;
                Ok((s.capacity(), s.allocation_size()))
            }, &mut bad, &mut cases);
            probe_one::<(Z0, Z0), _>("HashMap<zero-sized, zero-sized>::deserialize", *h, n, |d| {
                let s: HashMap<Z0, Z0, S, Ledger> = HashMap::deserialize(d)?;
                Ok((s.capacity(), s.allocation_size()))
            }, &mut bad, &mut cases);
            probe_one::<Z0, _>("HashSet<zero-sized>::deserialize_in_place", *h, n, |d| {
                let mut s: HashSet<Z0, S, Ledger> = HashSet::default();
                Deserialize::deserialize_in_place(d, &mut s)?;
                Ok((s.capacity(), s.allocation_size()))
            }, &mut bad, &mut cases);
            probe_one::<B1, _>("HashSet<1-byte>::deserialize", *h, n, |d| {
                let s: HashSet<B1, S, Ledger> = HashSet::deserialize(d)?;
                Ok((s.capacity(), s.allocation_size()))
            }, &mut bad, &mut cases);
            probe_one::<(B1, Z0), _>("HashMap<1-byte, zero-sized>::deserialize", *h, n, |d| {
                let s: HashMap<B1, Z0, S, Ledger> = HashMap::deserialize(d)?;
                Ok((s.capacity(), s.allocation_size()))
            }, &mut bad, &mut cases);
            probe_one::<B1, _>("HashSet<1-byte>::deserialize_in_place", *h, n, |d| {
                let mut s: HashSet<B1, S, Ledger> = HashSet::default();
                Deserialize::deserialize_in_place(d, &mut s)?;
                Ok((s.capacity(), s.allocation_size()))
            }, &mut bad, &mut cases);
        }
    }
    println!("SERDEZSTSTAT cases={} bad={}", cases, bad);
}
