//! Script interpreter for HashTable<T, Ledger> (explicit-hash API) over several element layouts.
use crate::instr::*;
use crate::mapdrv::{apply_directive, disarm, hex, parse_u64};
use hashbrown::hash_table::Entry;
use hashbrown::HashTable;
use rayon::prelude::*;
use std::fmt::Write as _;
use std::sync::atomic::{AtomicUsize, Ordering};
use std::sync::Mutex;
use std::panic::{catch_unwind, AssertUnwindSafe};

pub trait ElemT: Clone + Send + Sync + 'static {
    const DROP: bool;
    /// the element has a value field (`set_val` is not a no-op)
    const HAS_VAL: bool = true;
    /// a zero-sized element type WITH drop glue whose instances are counted (created / cloned - dropped)
    const ZST_COUNTED: bool = false;
    fn mk(id: u64, stamp: u64, val: u64) -> Self;
    fn id(&self) -> u64;
    fn stamp(&self) -> u64;
    fn val(&self) -> u64;
    fn set_val(&mut self, v: u64);
    fn serial(&self) -> u64 {
        0
    }
}

/// 32 bytes, with drop glue (tracked in the registry).
pub struct Td {
    id: u64,
    stamp: u64,
    val: u64,
    serial: u64,
}
impl ElemT for Td {
    const DROP: bool = true;
    fn mk(id: u64, stamp: u64, val: u64) -> Self {
        let serial = with_ctx(|c| {
            c.next_serial += 1;
            let s = c.next_serial;
            c.live.insert(s, ('T', id, stamp));
            s
        });
        Td { id, stamp, val, serial }
    }
    fn id(&self) -> u64 { chk_align(self, "Td"); self.id }
    fn stamp(&self) -> u64 { self.stamp }
    fn val(&self) -> u64 { self.val }
    fn set_val(&mut self, v: u64) { chk_align(self, "Td"); self.val = v }
    fn serial(&self) -> u64 { self.serial }
}
/// a clone is a new tracked object with the same identity, stamp and value
impl Clone for Td {
    fn clone(&self) -> Td { <Td as ElemT>::mk(self.id, self.stamp, self.val) }
}
impl Drop for Td {
    fn drop(&mut self) {
        let (s, id, val) = (self.serial, self.id, self.val);
        let panic_now = with_ctx(|c| {
            if c.live.remove(&s).is_none() {
                c.double_drops.push(s);
            }
            c.drop_log.push(('T', s, id, val));
            c.ev_log.push(('T', s, val, 0));
            match c.drop_panic_nth {
                Some(0) => {
                    c.drop_panic_nth = None;
                    true
                }
                Some(n) => {
                    c.drop_panic_nth = Some(n - 1);
                    false
                }
                None => false,
            }
        });
        if panic_now && !std::thread::panicking() {
            std::panic::panic_any(HvPanic("drop"));
        }
    }
}

macro_rules! plain_elem {
    ($name:ident, $($attr:meta),* ; $($extra:ident : $ety:ty = $einit:expr),*) => {
        $(#[$attr])*
        #[derive(Clone, Copy)]
        pub struct $name { id: u64, stamp: u64, val: u64, $($extra: $ety),* }
        impl ElemT for $name {
            const DROP: bool = false;
            fn mk(id: u64, stamp: u64, val: u64) -> Self { $name { id, stamp, val, $($extra: $einit),* } }
            fn id(&self) -> u64 { chk_align(self, stringify!($name)); self.id }
            fn stamp(&self) -> u64 { self.stamp }
            fn val(&self) -> u64 { self.val }
            fn set_val(&mut self, v: u64) { chk_align(self, stringify!($name)); self.val = v }
        }
    };
}
plain_elem!(Tp, ; );
plain_elem!(T200, ; pad: [u8; 176] = [0x5A; 176]);
plain_elem!(Ta64, repr(align(64)) ; );

/// 1-byte and 2-byte elements: the id is the whole element.
#[derive(Clone, Copy)]
pub struct T1(u8);
impl ElemT for T1 {
    const DROP: bool = false;
    const HAS_VAL: bool = false;
    fn mk(id: u64, _s: u64, _v: u64) -> Self { T1(id as u8) }
    fn id(&self) -> u64 { self.0 as u64 }
    fn stamp(&self) -> u64 { 0 }
    fn val(&self) -> u64 { 0 }
    fn set_val(&mut self, _v: u64) {}
}
#[derive(Clone, Copy)]
pub struct T2(u16);
impl ElemT for T2 {
    const DROP: bool = false;
    const HAS_VAL: bool = false;
    fn mk(id: u64, _s: u64, _v: u64) -> Self { T2(id as u16) }
    fn id(&self) -> u64 { chk_align(self, "T2"); self.0 as u64 }
    fn stamp(&self) -> u64 { 0 }
    fn val(&self) -> u64 { 0 }
    fn set_val(&mut self, _v: u64) { chk_align(self, "T2") }
}
/// element sizes that are no multiple of 4 (the data part of a small table then needs padding up to
/// the control-byte alignment): 3 bytes (align 1), 6 bytes (align 2), 12 bytes (align 4)
#[derive(Clone, Copy)]
pub struct T3([u8; 3]);
impl ElemT for T3 {
    const DROP: bool = false;
    const HAS_VAL: bool = false;
    fn mk(id: u64, _s: u64, _v: u64) -> Self { T3([id as u8, (id >> 8) as u8, 0]) }
    fn id(&self) -> u64 { self.0[0] as u64 | (self.0[1] as u64) << 8 }
    fn stamp(&self) -> u64 { 0 }
    fn val(&self) -> u64 { 0 }
    fn set_val(&mut self, _v: u64) {}
}
#[derive(Clone, Copy)]
pub struct T6([u16; 3]);
impl ElemT for T6 {
    const DROP: bool = false;
    const HAS_VAL: bool = true;
    fn mk(id: u64, s: u64, v: u64) -> Self { T6([id as u16, s as u16, v as u16]) }
    fn id(&self) -> u64 { chk_align(self, "T6"); self.0[0] as u64 }
    fn stamp(&self) -> u64 { self.0[1] as u64 }
    fn val(&self) -> u64 { self.0[2] as u64 }
    fn set_val(&mut self, v: u64) { chk_align(self, "T6"); self.0[2] = v as u16 }
}
#[derive(Clone, Copy)]
pub struct T12([u32; 3]);
impl ElemT for T12 {
    const DROP: bool = false;
    const HAS_VAL: bool = true;
    fn mk(id: u64, s: u64, v: u64) -> Self { T12([id as u32, s as u32, v as u32]) }
    fn id(&self) -> u64 { chk_align(self, "T12"); self.0[0] as u64 }
    fn stamp(&self) -> u64 { self.0[1] as u64 }
    fn val(&self) -> u64 { self.0[2] as u64 }
    fn set_val(&mut self, v: u64) { chk_align(self, "T12"); self.0[2] = v as u32 }
}
/// elements LARGER than a group with a small alignment: 17 bytes (align 1), 18 bytes (align 2) -- the
/// element area of a 4- or 8-bucket table is then no multiple of the group width
#[derive(Clone, Copy)]
pub struct T17([u8; 17]);
impl ElemT for T17 {
    const DROP: bool = false;
    const HAS_VAL: bool = true;
    fn mk(id: u64, s: u64, v: u64) -> Self {
        let mut b = [0u8; 17];
        b[0] = id as u8; b[1] = (id >> 8) as u8; b[2] = s as u8; b[3] = (s >> 8) as u8; b[15] = v as u8; b[16] = (v >> 8) as u8;
        T17(b)
    }
    fn id(&self) -> u64 { self.0[0] as u64 | (self.0[1] as u64) << 8 }
    fn stamp(&self) -> u64 { self.0[2] as u64 | (self.0[3] as u64) << 8 }
    fn val(&self) -> u64 { self.0[15] as u64 | (self.0[16] as u64) << 8 }
    fn set_val(&mut self, v: u64) { self.0[15] = v as u8; self.0[16] = (v >> 8) as u8 }
}
#[derive(Clone, Copy)]
pub struct T18([u16; 9]);
impl ElemT for T18 {
    const DROP: bool = false;
    const HAS_VAL: bool = true;
    fn mk(id: u64, s: u64, v: u64) -> Self { let mut b = [0u16; 9]; b[0] = id as u16; b[1] = s as u16; b[8] = v as u16; T18(b) }
    fn id(&self) -> u64 { chk_align(self, "T18"); self.0[0] as u64 }
    fn stamp(&self) -> u64 { self.0[1] as u64 }
    fn val(&self) -> u64 { self.0[8] as u64 }
    fn set_val(&mut self, v: u64) { chk_align(self, "T18"); self.0[8] = v as u16 }
}
/// zero-sized element
#[derive(Clone, Copy)]
pub struct Tz;
impl ElemT for Tz {
    const DROP: bool = false;
    const HAS_VAL: bool = false;
    fn mk(_id: u64, _s: u64, _v: u64) -> Self { Tz }
    fn id(&self) -> u64 { 0 }
    fn stamp(&self) -> u64 { 0 }
    fn val(&self) -> u64 { 0 }
    fn set_val(&mut self, _v: u64) {}
}
/// zero-sized element WITH drop glue and an observable Clone: a token.  Instances cannot carry a
/// serial number, so they are COUNTED: after every step the number alive must equal len().
pub struct Tzd;
impl ElemT for Tzd {
    const DROP: bool = true;
    const HAS_VAL: bool = false;
    const ZST_COUNTED: bool = true;
    fn mk(_id: u64, _s: u64, _v: u64) -> Self { with_ctx(|c| c.zst_live += 1); Tzd }
    fn id(&self) -> u64 { 0 }
    fn stamp(&self) -> u64 { 0 }
    fn val(&self) -> u64 { 0 }
    fn set_val(&mut self, _v: u64) {}
}
impl Clone for Tzd {
    fn clone(&self) -> Tzd { with_ctx(|c| c.zst_live += 1); Tzd }
}
impl Drop for Tzd {
    fn drop(&mut self) {
        with_ctx(|c| {
            c.zst_live -= 1;
            if c.zst_live < 0 {
                c.double_drops.push(0);
                c.zst_live = 0;
            }
        });
    }
}
/// zero-sized, over-aligned element: every reference the library hands out must still be a
/// multiple of 64 (Bucket::as_ptr returns a dangling ALIGNED pointer for zero-sized T)
#[derive(Clone, Copy)]
#[repr(align(64))]
pub struct Tz64;
impl ElemT for Tz64 {
    const DROP: bool = false;
    const HAS_VAL: bool = false;
    fn mk(_id: u64, _s: u64, _v: u64) -> Self { Tz64 }
    fn id(&self) -> u64 { chk_align(self, "Tz64"); 0 }
    fn stamp(&self) -> u64 { 0 }
    fn val(&self) -> u64 { 0 }
    fn set_val(&mut self, _v: u64) { chk_align(self, "Tz64") }
}

pub type Tab<T> = HashTable<T, Ledger>;

pub fn dump_tab<T: ElemT>(m: &Tab<T>) -> String {
    let d = m.verif_dump();
    let mut s = String::new();
    if d.bucket_mask > 0xFFFF {
        // too large to dump (only reachable when something asks for an absurd capacity)
        let _ = write!(s, "m={} i={} g={} c=ff s=-", d.bucket_mask, d.items, d.growth_left);
        match d.alloc {
            Some((sz, al, off)) => {
                let _ = write!(s, " a={},{},{}", sz, al, off);
            }
            None => s.push_str(" a=-"),
        }
        let _ = write!(s, " sing=0 salt=0 cap={} BIG", m.capacity());
        return s;
    }
    let _ = write!(s, "m={} i={} g={} c={} s=", d.bucket_mask, d.items, d.growth_left, hex(&d.ctrl));
    let mut first = true;
    let (tsize, calign) = Tab::<T>::verif_table_layout();
    let mut flags = String::new();
    if d.bucket_mask != 0 {
        for i in 0..=d.bucket_mask {
            if let Some(e) = m.verif_bucket(i) {
                if !first {
                    s.push(';');
                }
                first = false;
                let _ = write!(s, "{}:{}:{}:{}", i, e.id(), e.stamp(), e.val());
            }
            // element slots must be aligned and inside the block (C02 / C17)
            if tsize > 0 {
                let addr = m.verif_bucket_addr(i);
                if addr % std::mem::align_of::<T>() != 0 {
                    flags = " MISALIGNED_SLOT".into();
                }
                if let Some((sz, _al, off)) = d.alloc {
                    let base = d.ctrl_addr - off;
                    if addr < base || addr + tsize > base + sz || addr + tsize > d.ctrl_addr {
                        flags = " SLOT_OUT_OF_BLOCK".into();
                    }
                }
            }
        }
    }
    if first {
        s.push('-');
    }
    match d.alloc {
        Some((sz, al, off)) => {
            let _ = write!(s, " a={},{},{}", sz, al, off);
        }
        None => s.push_str(" a=-"),
    }
    let _ = write!(s, " sing={} cap={}", d.singleton as u8, m.capacity());
    // address tie (Model/Addr.v): first and last element slot relative to the block start; for a
    // zero-sized T the (absolute) dangling address Bucket::as_ptr returns
    if let (true, Some((_sz, _al, off))) = (d.bucket_mask != 0, d.alloc) {
        if tsize > 0 {
            let base = d.ctrl_addr - off;
            let _ = write!(s, " ad={},{}", m.verif_bucket_addr(0) as i128 - base as i128, m.verif_bucket_addr(d.bucket_mask) as i128 - base as i128);
        } else {
            let _ = write!(s, " ad={},{}", m.verif_bucket_addr(0), m.verif_bucket_addr(d.bucket_mask));
        }
    }
    if d.bucket_mask != 0 && d.ctrl_addr % calign != 0 {
        s.push_str(" MISALIGNED_CTRL");
    }
    s.push_str(&flags);
    s
}

fn serials<T: ElemT>(m: &Tab<T>) -> Vec<(u64, u64, u64)> {
    let d = m.verif_dump();
    let mut v = Vec::new();
    if d.bucket_mask != 0 {
        for i in 0..=d.bucket_mask {
            if let Some(e) = m.verif_bucket(i) {
                v.push((e.serial(), e.id(), e.stamp()));
            }
        }
    }
    v
}

#[derive(Clone, Copy)]
enum Pred {
    Id(u64),
    ValMod(u64, u64),
}
fn parse_pred(w: &[&str], i: &mut usize) -> Pred {
    let p = match w[*i] {
        "id" => {
            let r = Pred::Id(parse_u64(w[*i + 1]));
            *i += 2;
            r
        }
        "valmod" => {
            let r = Pred::ValMod(parse_u64(w[*i + 1]), parse_u64(w[*i + 2]));
            *i += 3;
            r
        }
        x => panic!("bad pred {}", x),
    };
    p
}
fn holds<T: ElemT>(p: Pred, e: &T) -> bool {
    let (panic_now, rule, n) = with_ctx(|c| {
        c.eq_calls += 1;
        let p = match c.eq_panic_nth {
            Some(0) => {
                c.eq_panic_nth = None;
                true
            }
            Some(k) => {
                c.eq_panic_nth = Some(k - 1);
                false
            }
            None => false,
        };
        (p, c.eq_rule, c.eq_calls)
    });
    if panic_now {
        std::panic::panic_any(HvPanic("eq"));
    }
    if rule == 3 {
        return mix64(e.id() ^ (n << 32)) & 1 == 1;
    }
    match p {
        Pred::Id(k) => e.id() == k,
        Pred::ValMod(m, r) => e.val() % m == r,
    }
}
fn et<T: ElemT>(e: &T) -> String {
    format!("{}:{}:{}", e.id(), e.stamp(), e.val())
}
fn hasher<T: ElemT>(e: &T) -> u64 {
    plan_hash(e.id())
}

type Held = Vec<Box<dyn std::any::Any>>;

fn pred_tick() {
    let p = with_ctx(|c| match c.pred_panic_nth {
        Some(0) => {
            c.pred_panic_nth = None;
            true
        }
        Some(n) => {
            c.pred_panic_nth = Some(n - 1);
            false
        }
        None => false,
    });
    if p {
        std::panic::panic_any(HvPanic("pred"));
    }
}

fn pool_of(threads: u64) -> rayon::ThreadPool {
    rayon::ThreadPoolBuilder::new().num_threads(threads as usize).build().unwrap()
}

fn sorted_elems<T: ElemT>(m: &Tab<T>) -> Vec<(u64, u64, u64)> {
    let mut v: Vec<(u64, u64, u64)> = m.iter().map(|e| (e.id(), e.stamp(), e.val())).collect();
    v.sort();
    v
}

fn list3(l: &[(u64, u64, u64)]) -> String {
    if l.is_empty() {
        return "list -".into();
    }
    format!("list {}", l.iter().map(|(k, s, v)| format!("{}:{}:{}", k, s, v)).collect::<Vec<_>>().join(","))
}

/// `small` (sorted) is contained in `big` (sorted) with multiplicities
fn is_sub_multiset(small: &[(u64, u64, u64)], big: &[(u64, u64, u64)]) -> bool {
    let mut j = 0;
    for e in small {
        while j < big.len() && big[j] < *e {
            j += 1;
        }
        if j >= big.len() || big[j] != *e {
            return false;
        }
        j += 1;
    }
    true
}

fn do_op<T: ElemT>(m: &mut Tab<T>, w: &[&str], chk: &mut Vec<String>, held: &mut Held) -> String {
    let n = |i: usize| parse_u64(w[i]);
    match w[0] {
        "twithcap" => {
            *m = HashTable::with_capacity_in(n(1) as usize, Ledger::fresh());
            "unit".into()
        }
        "tfind" => {
            let mut i = 2;
            let p = parse_pred(w, &mut i);
            match m.find(plan_hash(n(1)), |e| holds(p, e)) {
                Some(e) => format!("elem {}", et(e)),
                None => "none".into(),
            }
        }
        "tfindmut" => {
            let mut i = 2;
            let p = parse_pred(w, &mut i);
            let nv = n(i);
            match m.find_mut(plan_hash(n(1)), |e| holds(p, e)) {
                Some(e) => {
                    let s = format!("elem {}", et(e));
                    e.set_val(nv);
                    s
                }
                None => "none".into(),
            }
        }
        "tfindentryremove" => {
            let mut i = 2;
            let p = parse_pred(w, &mut i);
            match m.find_entry(plan_hash(n(1)), |e| holds(p, e)) {
                Ok(occ) => {
                    let (e, _vacant) = occ.remove();
                    let s = format!("elem {}", et(&e));
                    held.push(Box::new(e));
                    s
                }
                Err(_) => "none".into(),
            }
        }
        "tremovereinsert" => {
            let mut i = 2;
            let p = parse_pred(w, &mut i);
            let (stamp, v) = (n(i), n(i + 1));
            match m.find_entry(plan_hash(n(1)), |e| holds(p, e)) {
                Ok(occ) => {
                    let (e, vacant) = occ.remove();
                    let s = format!("elem {}", et(&e));
                    vacant.insert(T::mk(e.id(), stamp, v));
                    held.push(Box::new(e));
                    s
                }
                Err(_) => "none".into(),
            }
        }
        "tentryinsert" => {
            let k = n(1);
            let e = m.entry(plan_hash(k), |e| holds(Pred::Id(k), e), hasher::<T>);
            let occ = matches!(e, Entry::Occupied(_));
            e.insert(T::mk(k, n(2), n(3)));
            format!("bool {}", occ as u8)
        }
        "tentryorinsert" => {
            let k = n(1);
            let o = m.entry(plan_hash(k), |e| holds(Pred::Id(k), e), hasher::<T>).or_insert(T::mk(k, n(2), n(3)));
            format!("elem {}", et(o.get()))
        }
        "tentrydrop" => {
            let k = n(1);
            let e = m.entry(plan_hash(k), |e| holds(Pred::Id(k), e), hasher::<T>);
            format!("bool {}", matches!(e, Entry::Occupied(_)) as u8)
        }
        "tinsertunique" => {
            let k = n(1);
            m.insert_unique(plan_hash(k), T::mk(k, n(2), n(3)), hasher::<T>);
            "unit".into()
        }
        "tretain" => {
            let bump = n(1);
            let keep: Vec<u64> = w[2..].iter().map(|s| parse_u64(s)).collect();
            let before = m.len();
            let mut calls = 0;
            m.retain(|e| {
                pred_tick();
                calls += 1;
                let nv = e.val().wrapping_add(bump);
                e.set_val(nv);
                keep.contains(&e.id())
            });
            if calls != before {
                chk.push(format!("retain called its predicate {} times for {} elements", calls, before));
            }
            "unit".into()
        }
        "textractif" => {
            let take = n(1) as usize;
            let sel: Vec<u64> = w[2..].iter().map(|s| parse_u64(s)).collect();
            let mut got = Vec::new();
            {
                let mut it = m.extract_if(|e| {
                    pred_tick();
                    sel.contains(&e.id())
                });
                for _ in 0..take {
                    match it.next() {
                        Some(e) => {
                            got.push(et(&e));
                            held.push(Box::new(e));
                        }
                        None => break,
                    }
                }
            }
            format!("list {}", if got.is_empty() { "-".to_string() } else { got.join(",") })
        }
        "tdrain" => {
            let take = n(1) as usize;
            let mut got = Vec::new();
            {
                let total = m.len();
                let mut d = m.drain();
                for j in 0..take {
                    if d.len() != total - j.min(total) {
                        chk.push(format!("drain.len() = {} but {} remain", d.len(), total - j.min(total)));
                    }
                    match d.next() {
                        Some(e) => {
                            got.push(et(&e));
                            held.push(Box::new(e));
                        }
                        None => break,
                    }
                }
            }
            format!("list {}", if got.is_empty() { "-".to_string() } else { got.join(",") })
        }
        // the table is replaced by its clone, the original is dropped afterwards
        "tclone" => {
            let c = m.clone();
            let old = std::mem::replace(m, c);
            drop(old);
            "unit".into()
        }
        "tclear" => {
            m.clear();
            "unit".into()
        }
        "treserve" => {
            m.reserve(n(1) as usize, hasher::<T>);
            "unit".into()
        }
        "ttryreserve" => match m.try_reserve(n(1) as usize, hasher::<T>) {
            Ok(()) => "try ok".into(),
            Err(hashbrown::TryReserveError::CapacityOverflow) => "try overflow".into(),
            Err(hashbrown::TryReserveError::AllocError { layout }) => format!("try allocerr {} {}", layout.size(), layout.align()),
        },
        "tshrinkto" => {
            m.shrink_to(n(1) as usize, hasher::<T>);
            "unit".into()
        }
        "tshrinktofit" => {
            m.shrink_to_fit(hasher::<T>);
            "unit".into()
        }
        "tgetmanymut" => {
            // tgetmanymut <add> <N> then N x (hk pred...)
            let add = n(1);
            let cnt = n(2) as usize;
            let mut i = 3;
            let mut reqs: Vec<(u64, Pred)> = Vec::new();
            for _ in 0..cnt {
                let hk = n(i);
                i += 1;
                let p = parse_pred(w, &mut i);
                reqs.push((hk, p));
            }
            let hs: Vec<u64> = reqs.iter().map(|(hk, _)| plan_hash(*hk)).collect();
            let preds: Vec<Pred> = reqs.iter().map(|(_, p)| *p).collect();
            fn fin<T: ElemT, const N: usize>(r: [Option<&mut T>; N], add: u64, chk: &mut Vec<String>) -> String {
                let mut out = Vec::new();
                let mut addrs: Vec<usize> = Vec::new();
                for o in r {
                    match o {
                        Some(e) => {
                            let a = e as *mut T as usize;
                            if std::mem::size_of::<T>() > 0 && addrs.contains(&a) {
                                chk.push("get_many_mut returned two mutable references to the same entry".into());
                            }
                            addrs.push(a);
                            let nv = e.val().wrapping_add(add);
                            e.set_val(nv);
                            out.push(et(e));
                        }
                        None => out.push("none".into()),
                    }
                }
                format!("opts {}", if out.is_empty() { "-".to_string() } else { out.join(",") })
            }
            match cnt {
                0 => fin::<T, 0>(m.get_many_mut([], |i, e| holds(preds[i], e)), add, chk),
                1 => fin::<T, 1>(m.get_many_mut([hs[0]], |i, e| holds(preds[i], e)), add, chk),
                2 => fin::<T, 2>(m.get_many_mut([hs[0], hs[1]], |i, e| holds(preds[i], e)), add, chk),
                3 => fin::<T, 3>(m.get_many_mut([hs[0], hs[1], hs[2]], |i, e| holds(preds[i], e)), add, chk),
                _ => fin::<T, 4>(m.get_many_mut([hs[0], hs[1], hs[2], hs[3]], |i, e| holds(preds[i], e)), add, chk),
            }
        }
        "titerhash" => {
            let h = plan_hash(n(1));
            // every reference handed out must point to a slot that holds a live element, each slot at
            // most once, and there cannot be more of them than len() (C02 / C05 / C09)
            if std::mem::size_of::<T>() > 0 {
                let d = m.verif_dump();
                let live: Vec<usize> = (0..=d.bucket_mask).filter(|&i| d.bucket_mask != 0 && m.verif_bucket(i).is_some()).map(|i| m.verif_bucket_addr(i)).collect();
                let mut seen: Vec<usize> = Vec::new();
                // addresses only (no read through a possibly dangling reference), and a bounded walk
                for e in m.iter_hash(h).take(4 * (d.bucket_mask + 2)) {
                    let a = e as *const T as usize;
                    if !live.contains(&a) {
                        chk.push("iter_hash handed out a reference to a slot that holds no live element (red zone of the ownership discipline)".into());
                        return "list ?".into();
                    }
                    if seen.contains(&a) {
                        chk.push("iter_hash handed out two references to one slot".into());
                        return "list ?".into();
                    }
                    seen.push(a);
                }
            }
            let v: Vec<String> = m.iter_hash(h).map(|e| et(e)).collect();
            let v2: Vec<String> = m.iter_hash_mut(h).map(|e| et(e)).collect();
            if v != v2 {
                chk.push("iter_hash and iter_hash_mut disagree".into());
            }
            format!("list {}", if v.is_empty() { "-".to_string() } else { v.join(",") })
        }
        "titer" => {
            let total = m.len();
            let mut it = m.iter();
            let mut got = Vec::new();
            loop {
                let r = total - got.len().min(total);
                if it.len() != r || it.size_hint() != (r, Some(r)) {
                    chk.push(format!("table iter: len()={} size_hint={:?} but {} remain", it.len(), it.size_hint(), r));
                }
                match it.next() {
                    Some(e) => got.push(et(e)),
                    None => break,
                }
                if got.len() > total {
                    chk.push("table iter yields more than len() elements".into());
                    break;
                }
            }
            let im: Vec<String> = m.iter_mut().map(|e| et(e)).collect();
            if im != got {
                chk.push("iter_mut disagrees with iter".into());
            }
            format!("list {}", if got.is_empty() { "-".to_string() } else { got.join(",") })
        }
        // ---------------- rayon (C19) ----------------
        "tpar_iter" => {
            let pool = pool_of(n(1));
            let mut got: Vec<(u64, u64, u64)> = pool.install(|| m.par_iter().map(|e| (e.id(), e.stamp(), e.val())).collect());
            got.sort();
            if got != sorted_elems(m) {
                chk.push("tpar_iter: the parallel iterator does not deliver every element exactly once".into());
            }
            list3(&got)
        }
        "tpar_iter_mut" => {
            let pool = pool_of(n(1));
            let add = n(2);
            let mut want = sorted_elems(m);
            let visits = AtomicUsize::new(0);
            let seen: Mutex<Vec<(u64, u64, u64)>> = Mutex::new(Vec::new());
            pool.install(|| {
                m.par_iter_mut().for_each(|e| {
                    visits.fetch_add(1, Ordering::SeqCst);
                    seen.lock().unwrap().push((e.id(), e.stamp(), e.val()));
                    let nv = e.val().wrapping_add(add);
                    e.set_val(nv);
                })
            });
            let mut seen = seen.into_inner().unwrap();
            seen.sort();
            if visits.load(Ordering::SeqCst) != m.len() || seen != want {
                chk.push(format!("tpar_iter_mut: the parallel iterator visited {} elements of {} / not every element exactly once", visits.load(Ordering::SeqCst), m.len()));
            }
            // what the sequential iter_mut would have left behind
            if T::HAS_VAL {
                for e in want.iter_mut() {
                    e.2 = e.2.wrapping_add(add);
                }
                want.sort();
            }
            if sorted_elems(m) != want {
                chk.push("tpar_iter_mut: the contents after the parallel iter_mut differ from the sequential iter_mut".into());
            }
            "unit".into()
        }
        "tinto_par_iter" => {
            let pool = pool_of(n(1));
            let want = sorted_elems(m);
            let old = std::mem::replace(m, HashTable::new_in(Ledger::fresh()));
            let got: Vec<T> = pool.install(|| old.into_par_iter().collect());
            let mut l: Vec<(u64, u64, u64)> = got.iter().map(|e| (e.id(), e.stamp(), e.val())).collect();
            l.sort();
            if l != want {
                chk.push("tinto_par_iter: the parallel iterator does not deliver every element exactly once".into());
            }
            held.push(Box::new(got));
            list3(&l)
        }
        "tpar_drain" => {
            // a consumer that accepts at most `take` elements and then short-circuits; whatever it is
            // handed after that is not kept (the consumer drops it)
            let pool = pool_of(n(1));
            let take = n(2) as usize;
            let want = sorted_elems(m);
            let alloc_before = m.verif_dump().alloc;
            let count = AtomicUsize::new(0);
            let got: Mutex<Vec<T>> = Mutex::new(Vec::new());
            let extra: Mutex<Vec<(u64, u64, u64)>> = Mutex::new(Vec::new());
            pool.install(|| {
                let _ = m.par_drain().try_for_each(|e| {
                    let c = count.fetch_add(1, Ordering::SeqCst);
                    if c < take {
                        got.lock().unwrap().push(e);
                    } else {
                        extra.lock().unwrap().push((e.id(), e.stamp(), e.val()));
                    }
                    if c + 1 >= take {
                        Err(())
                    } else {
                        Ok(())
                    }
                });
            });
            let got = got.into_inner().unwrap();
            let mut l: Vec<(u64, u64, u64)> = got.iter().map(|e| (e.id(), e.stamp(), e.val())).collect();
            l.sort();
            let mut all = l.clone();
            all.extend(extra.into_inner().unwrap());
            all.sort();
            if !is_sub_multiset(&all, &want) {
                chk.push(format!("tpar_drain: the parallel drain delivered {:?}, not a sub-multiset of the stored {:?}", all, want));
            }
            if take >= want.len() && all != want {
                chk.push("tpar_drain: the parallel drain was consumed completely but did not deliver every element exactly once".into());
            }
            if l.len() > take {
                chk.push("tpar_drain: more elements received than accepted".into());
            }
            if !m.is_empty() || m.len() != 0 || m.iter().next().is_some() {
                chk.push("tpar_drain: the table is not empty after the parallel drain".into());
            }
            if m.verif_dump().alloc != alloc_before {
                chk.push("tpar_drain: the parallel drain did not keep the allocation".into());
            }
            held.push(Box::new(got));
            list3(&l)
        }
        "tintoiter" => {
            // owning iterator: take n with next() (len / size_hint exact at every step), drop the rest
            let take = n(1) as usize;
            let total = m.len();
            let old = std::mem::replace(m, HashTable::new_in(Ledger::fresh()));
            let mut it = old.into_iter();
            let mut got: Vec<T> = Vec::new();
            for j in 0..take {
                let r = total - j.min(total);
                if it.len() != r || it.size_hint() != (r, Some(r)) {
                    chk.push(format!("into_iter: len()={} size_hint={:?} but {} remain", it.len(), it.size_hint(), r));
                }
                match it.next() {
                    Some(e) => got.push(e),
                    None => break,
                }
            }
            let l: Vec<(u64, u64, u64)> = got.iter().map(|e| (e.id(), e.stamp(), e.val())).collect();
            if take % 2 == 1 {
                let c = it.fold(0usize, |a, _| a + 1);
                if c + got.len() != total {
                    chk.push(format!("into_iter: next() x {} + fold visits {} of {} elements", got.len(), c + got.len(), total));
                }
            } else {
                drop(it);
            }
            held.push(Box::new(got));
            list3(&l)
        }
        "tlen" => format!("num {}", m.len()),
        "tcapacity" => format!("num {}", m.capacity()),
        "tallocsize" => format!("num {}", m.allocation_size()),
        "tdrop" => {
            let old = std::mem::replace(m, HashTable::new_in(Ledger::fresh()));
            drop(old);
            "unit".into()
        }
        other => panic!("unknown table op {}", other),
    }
}

pub fn run_table<T: ElemT>(lines: &[String], out: &mut String) {
    let mut m: Tab<T> = HashTable::new_in(Ledger::fresh());
    let (tsize, calign) = Tab::<T>::verif_table_layout();
    let _ = writeln!(
        out,
        "CFG coll=table gw={} tsize={} talign={} calign={} needs_drop={}",
        hashbrown::verif::GROUP_WIDTH,
        tsize,
        std::mem::align_of::<T>(),
        calign,
        T::DROP as u8
    );
    let mut step = 0usize;
    let mut arms: Vec<String> = Vec::new();
    for line in lines {
        let line = line.trim();
        if line.is_empty() || line.starts_with('#') {
            continue;
        }
        let w: Vec<&str> = line.split_whitespace().collect();
        if w[0] == "hash" || w[0] == "hashrule" || w[0] == "eqrule" {
            apply_directive(&w);
            let _ = writeln!(out, "DIR {}", line);
            continue;
        }
        if w[0] == "arm" {
            apply_directive(&w);
            arms.push(line[4..].to_string());
            continue;
        }
        step += 1;
        let _ = writeln!(out, "STEP {} {}", step, line);
        let _ = writeln!(out, "ARM {}", if arms.is_empty() { "-".to_string() } else { arms.join(" ; ") });
        let _ = writeln!(out, "PRE {}", dump_tab(&m));
        let pre = serials(&m);
        with_ctx(|c| {
            c.drop_log.clear();
            c.ev_log.clear();
        });
        let mut chk: Vec<String> = Vec::new();
        let mut held: Held = Vec::new();
        let r = catch_unwind(AssertUnwindSafe(|| do_op(&mut m, &w, &mut chk, &mut held)));
        disarm();
        arms.clear();
        let mut leak_ok = false;
        match r {
            Ok(s) => {
                let _ = writeln!(out, "RET {}", s);
            }
            Err(p) => {
                if let Some(h) = p.downcast_ref::<HvPanic>() {
                    leak_ok = h.0 == "drop";
                    if leak_ok {
                        with_ctx(|c| c.drop_panics += 1);
                    }
                    let _ = writeln!(out, "RET unwind {}", h.0);
                } else if let Some(s) = p.downcast_ref::<&str>() {
                    let _ = writeln!(out, "RET libpanic {}", s.replace('\n', " "));
                } else if let Some(s) = p.downcast_ref::<String>() {
                    let _ = writeln!(out, "RET libpanic {}", s.replace('\n', " "));
                } else {
                    let _ = writeln!(out, "RET libpanic ?");
                }
            }
        }
        let evlog = with_ctx(|c| std::mem::take(&mut c.ev_log));
        let mut evs = String::new();
        for (kind, x, a, _b) in &evlog {
            match *kind {
                'A' | 'F' | 'R' => {
                    let _ = write!(evs, " {}:{}:{}", kind, x, a);
                }
                'T' => {
                    if let Some(e) = pre.iter().find(|e| e.0 == *x) {
                        let _ = write!(evs, " DT:{}:{}:{}", e.1, e.2, a);
                    }
                }
                _ => {}
            }
        }
        let _ = writeln!(out, "EV{}", if evs.is_empty() { " -".to_string() } else { evs });
        let _ = writeln!(out, "POST {}", dump_tab(&m));
        drop(held);
        check_red_zones();
        let (dd, aerr) = with_ctx(|c| (std::mem::take(&mut c.double_drops), std::mem::take(&mut c.alloc_errors)));
        for d in dd {
            chk.push(format!("double drop of object serial {}", d));
        }
        chk.extend(aerr);
        chk.extend(with_ctx(|c| std::mem::take(&mut c.misaligned_refs)));
        if T::ZST_COUNTED {
            let alive = with_ctx(|c| c.zst_live);
            if alive != m.len() as i64 && !leak_ok {
                chk.push(format!("{} zero-sized elements with drop glue are alive but the table holds {} (each must be stored, or dropped exactly once: leak / never dropped or double drop)", alive, m.len()));
                with_ctx(|c| c.zst_live = m.len() as i64);
            }
        } else if T::DROP {
            let post = serials(&m);
            let live: Vec<u64> = with_ctx(|c| c.live.keys().copied().collect());
            let in_table: std::collections::HashSet<u64> = post.iter().map(|e| e.0).collect();
            for s in &live {
                if !in_table.contains(s) {
                    with_ctx(|c| {
                        c.live.remove(s);
                    });
                    if !leak_ok {
                        chk.push(format!("object serial {} is neither in the table nor dropped (leak)", s));
                    }
                }
            }
            for s in &in_table {
                if !live.contains(s) {
                    chk.push(format!("the table holds object serial {} that has already been dropped", s));
                }
            }
        }
        let _ = writeln!(out, "CHK {}", if chk.is_empty() { "ok".to_string() } else { chk.join(" | ") });
    }
    drop(m);
    let (live, blocks, dd, aerr) = with_ctx(|c| (c.live.len() + c.zst_live.max(0) as usize, c.blocks.len(), c.double_drops.len(), c.alloc_errors.len()));
    let drop_panics = with_ctx(|c| c.drop_panics);
    let _ = writeln!(out, "END live={} blocks={} double_drops={} alloc_errors={} drop_panics={}", live, blocks, dd, aerr, drop_panics);
}
