mod arith;
mod instr;
mod mapdrv;
mod serdedrv;
mod setdrv;
mod tabledrv;

use instr::*;

fn main() {
    let args: Vec<String> = std::env::args().collect();
    if args.len() < 2 {
        eprintln!("usage: hbx arith | hbx run <script> [plain|drop]");
        std::process::exit(2);
    }
    // injected panics are part of the experiment: keep stderr quiet
    std::panic::set_hook(Box::new(|_| {}));
    match args[1].as_str() {
        "arith" => arith::serve(),
        "zst" => {
            // HashTable<()> holding two distinct entries (inserted under different hashes):
            // get_many_mut on both must return two results (C15)
            let mut t: hashbrown::HashTable<(), Ledger> = hashbrown::HashTable::new_in(Ledger);
            t.insert_unique(1, (), |_| 1);
            t.insert_unique(2, (), |_| 2);
            let r = std::panic::catch_unwind(std::panic::AssertUnwindSafe(|| {
                let got = t.get_many_mut([1, 2], |_, _| true);
                got.iter().filter(|o| o.is_some()).count()
            }));
            match r {
                Ok(n) => println!("ZST get_many_mut on 2 distinct entries of a table of {} zero-sized elements: {} results", t.len(), n),
                Err(p) => {
                    let msg = p.downcast_ref::<&str>().map(|s| s.to_string()).or(p.downcast_ref::<String>().cloned()).unwrap_or("?".into());
                    println!("ZST get_many_mut on 2 distinct entries of a table of {} zero-sized elements: panicked ({})", t.len(), msg)
                }
            }
        }
        "run" => {
            let text = std::fs::read_to_string(&args[2]).expect("script");
            // a file may hold several scripts separated by lines `=== <name>`
            let mut scripts: Vec<(String, Vec<String>)> = Vec::new();
            for l in text.lines() {
                if let Some(name) = l.strip_prefix("=== ") {
                    scripts.push((name.to_string(), Vec::new()));
                } else {
                    if scripts.is_empty() {
                        scripts.push(("script".into(), Vec::new()));
                    }
                    scripts.last_mut().unwrap().1.push(l.to_string());
                }
            }
            let mut out = String::new();
            for (name, lines) in scripts {
                reset_ctx();
                let kind = lines
                    .iter()
                    .find_map(|l| l.strip_prefix("kind ").map(|s| s.trim().to_string()))
                    .unwrap_or_else(|| args.get(3).cloned().unwrap_or("map-drop".into()));
                let body: Vec<String> = lines.into_iter().filter(|l| !l.starts_with("kind ")).collect();
                out.push_str(&format!("SCRIPT {} {}\n", name, kind));
                match kind.as_str() {
                    "map-drop" => mapdrv::run_map::<Kd, Vd>(&body, &mut out),
                    "map-plain" => mapdrv::run_map::<Kp, Vp>(&body, &mut out),
                    "set-drop" => setdrv::run_set::<Kd>(&body, &mut out),
                    "set-plain" => setdrv::run_set::<Kp>(&body, &mut out),
                    "table-drop" => tabledrv::run_table::<tabledrv::Td>(&body, &mut out),
                    "table-plain" => tabledrv::run_table::<tabledrv::Tp>(&body, &mut out),
                    "table-200" => tabledrv::run_table::<tabledrv::T200>(&body, &mut out),
                    "table-a64" => tabledrv::run_table::<tabledrv::Ta64>(&body, &mut out),
                    "table-1" => tabledrv::run_table::<tabledrv::T1>(&body, &mut out),
                    "table-2" => tabledrv::run_table::<tabledrv::T2>(&body, &mut out),
                    "table-zst" => tabledrv::run_table::<tabledrv::Tz>(&body, &mut out),
                    k => panic!("unknown kind {}", k),
                }
            }
            print!("{}", out);
        }
        _ => std::process::exit(2),
    }
}
