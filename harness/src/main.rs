fn main() { println!("{}", hashbrown::verif::GROUP_WIDTH); }
