mod arith;
mod instr;
mod mapdrv;
mod serdedrv;
mod setdrv;
mod tabledrv;

use instr::*;

fn main() {
    let args: Vec<String> = std::env::args().collect();
    if args.len() < 2 {
        eprintln!("usage: hbx arith | hbx run <script> [plain|drop]");
        std::process::exit(2);
    }
    // injected panics are part of the experiment: keep stderr quiet
    std::panic::set_hook(Box::new(|_| {}));
    match args[1].as_str() {
        "arith" => arith::serve(),
        "pareq" => {
            // C19: par_eq must agree with == also for values whose PartialEq is not reflexive (NaN), on the SAME
            // map object, on a clone and on an independently built equal map, for several pool sizes
            use rayon::prelude::*;
            let mut bad = 0usize;
            let mut cases = 0usize;
            for n in [0u64, 1, 5, 40] {
                for with_nan in [false, true] {
                    let mut m: hashbrown::HashMap<u64, f64> = hashbrown::HashMap::new();
                    for k in 0..n {
                        m.insert(k, k as f64);
                    }
                    if with_nan && n > 0 {
                        m.insert(n / 2, f64::NAN);
                    }
                    let c = m.clone();
                    let mut other: hashbrown::HashMap<u64, f64> = hashbrown::HashMap::with_capacity(200);
                    for (k, v) in m.iter() {
                        other.insert(*k, *v);
                    }
                    for threads in [1usize, 2, 8] {
                        let pool = rayon::ThreadPoolBuilder::new().num_threads(threads).build().unwrap();
                        for (what, a, b) in [("the same object", &m, &m), ("a clone", &m, &c), ("an equal map built separately", &m, &other), ("clone vs original", &c, &m)] {
                            cases += 1;
                            let seq = a == b;
                            let par = pool.install(|| a.par_eq(b));
                            if seq != par {
                                bad += 1;
                                println!("PAREQ par_eq = {} but == is {} for a map of {} entries{} compared with {} ({} threads)", par, seq, a.len(), if with_nan { " holding a NaN value" } else { "" }, what, threads);
                            }
                        }
                    }
                }
            }
            let _ = ParallelIterator::count((0..1).into_par_iter());
            println!("PAREQSTAT cases={} bad={}", cases, bad);
        }
        "zst" => {
            // C15 for zero-sized elements.  HashTable<()> with n entries inserted under the hashes
            // 1..=n (distinct tags): a request (hash h, closure true) resolves to the entry
            // inserted under h.  For every tuple of up to 3 requests: the call must panic exactly
            // when two requests name the same PRESENT hash, otherwise return Some for present and
            // None for absent hashes, in request order.
            let mut bad = 0usize;
            let mut cases = 0usize;
            for n in [1u64, 2, 3, 7, 20] {
                // capacity up front: a zero-sized element cannot be re-hashed to its own hash
                let mut t: hashbrown::HashTable<(), Ledger> = hashbrown::HashTable::with_capacity_in(32, Ledger::fresh());
                for h in 1..=n {
                    t.insert_unique(h << 57 | h, (), |_| unreachable!());
                }
                let hs: Vec<u64> = (0..=n.min(4) + 1).collect(); // 0 and n+1.. are absent
                let full = |h: u64| h << 57 | h;
                let present = |h: u64| h >= 1 && h <= n;
                let mut tuples: Vec<Vec<u64>> = vec![vec![]];
                for a in &hs {
                    tuples.push(vec![*a]);
                    for b in &hs {
                        tuples.push(vec![*a, *b]);
                        for c in &hs {
                            tuples.push(vec![*a, *b, *c]);
                        }
                    }
                }
                for tu in tuples {
                    cases += 1;
                    let alias = (0..tu.len()).any(|i| (0..i).any(|j| tu[i] == tu[j] && present(tu[i])));
                    let r = std::panic::catch_unwind(std::panic::AssertUnwindSafe(|| -> Vec<bool> {
                        match tu.len() {
                            0 => t.get_many_mut::<0>([], |_, _| true).iter().map(|o| o.is_some()).collect(),
                            1 => t.get_many_mut([full(tu[0])], |_, _| true).iter().map(|o| o.is_some()).collect(),
                            2 => t.get_many_mut([full(tu[0]), full(tu[1])], |_, _| true).iter().map(|o| o.is_some()).collect(),
                            _ => t.get_many_mut([full(tu[0]), full(tu[1]), full(tu[2])], |_, _| true).iter().map(|o| o.is_some()).collect(),
                        }
                    }));
                    let want: Vec<bool> = tu.iter().map(|h| present(*h)).collect();
                    match r {
                        Ok(got) => {
                            if alias {
                                bad += 1;
                                println!("ZST get_many_mut on {:?} in a table of {} zero-sized elements: two requests name the same entry but the call returned (two mutable references to one entry)", tu, n);
                            } else if got != want {
                                bad += 1;
                                println!("ZST get_many_mut on {:?} in a table of {} zero-sized elements: results {:?}, expected {:?}", tu, n, got, want);
                            }
                        }
                        Err(p) => {
                            if !alias {
                                bad += 1;
                                let msg = p.downcast_ref::<&str>().map(|s| s.to_string()).or(p.downcast_ref::<String>().cloned()).unwrap_or("?".into());
                                let distinct = tu.iter().filter(|h| present(**h)).count();
                                println!("ZST get_many_mut on {} distinct entries {:?} of a table of {} zero-sized elements: panicked ({})", distinct, tu, n, msg);
                            }
                        }
                    }
                }
            }
            println!("ZSTSTAT cases={} bad={}", cases, bad);
        }
        "serdezst" => {
            // C20 for zero-sized and one-byte element types (the scripted element kinds start at 16 bytes):
            // whatever length the input claims, the room reserved before the first element is read is
            // bounded by a small constant, and nothing panics
            serdedrv::zst_probe();
        }
        "run" => {
            let text = std::fs::read_to_string(&args[2]).expect("script");
            // a file may hold several scripts separated by lines `=== <name>`
            let mut scripts: Vec<(String, Vec<String>)> = Vec::new();
            for l in text.lines() {
                if let Some(name) = l.strip_prefix("=== ") {
                    scripts.push((name.to_string(), Vec::new()));
                } else {
                    if scripts.is_empty() {
                        scripts.push(("script".into(), Vec::new()));
                    }
                    scripts.last_mut().unwrap().1.push(l.to_string());
                }
            }
            let mut out = String::new();
            for (name, lines) in scripts {
                reset_ctx();
                let kind = lines
                    .iter()
                    .find_map(|l| l.strip_prefix("kind ").map(|s| s.trim().to_string()))
                    .unwrap_or_else(|| args.get(3).cloned().unwrap_or("map-drop".into()));
                let body: Vec<String> = lines.into_iter().filter(|l| !l.starts_with("kind ")).collect();
                // the SCRIPT line goes out (flushed) before the script runs, and each script's trace as soon
                // as it is complete: if the process dies, the script it died in is known and the traces of
                // the scripts before it are not lost
                {
                    use std::io::Write as _;
                    print!("SCRIPT {} {}\n", name, kind);
                    let _ = std::io::stdout().flush();
                }
                match kind.as_str() {
                    "map-drop" => mapdrv::run_map::<Kd, Vd>(&body, &mut out),
                    "map-plain" => mapdrv::run_map::<Kp, Vp>(&body, &mut out),
                    "map-nc" => mapdrv::run_map::<Kn, Vn>(&body, &mut out),
                    "set-drop" => setdrv::run_set::<Kd>(&body, &mut out),
                    "set-plain" => setdrv::run_set::<Kp>(&body, &mut out),
                    "table-drop" => tabledrv::run_table::<tabledrv::Td>(&body, &mut out),
                    "table-plain" => tabledrv::run_table::<tabledrv::Tp>(&body, &mut out),
                    "table-200" => tabledrv::run_table::<tabledrv::T200>(&body, &mut out),
                    "table-a64" => tabledrv::run_table::<tabledrv::Ta64>(&body, &mut out),
                    "table-1" => tabledrv::run_table::<tabledrv::T1>(&body, &mut out),
                    "table-2" => tabledrv::run_table::<tabledrv::T2>(&body, &mut out),
                    "table-3" => tabledrv::run_table::<tabledrv::T3>(&body, &mut out),
                    "table-6" => tabledrv::run_table::<tabledrv::T6>(&body, &mut out),
                    "table-12" => tabledrv::run_table::<tabledrv::T12>(&body, &mut out),
                    "table-17" => tabledrv::run_table::<tabledrv::T17>(&body, &mut out),
                    "table-18" => tabledrv::run_table::<tabledrv::T18>(&body, &mut out),
                    "table-zst" => tabledrv::run_table::<tabledrv::Tz>(&body, &mut out),
                    "table-zst64" => tabledrv::run_table::<tabledrv::Tz64>(&body, &mut out),
                    "table-zstd" => tabledrv::run_table::<tabledrv::Tzd>(&body, &mut out),
                    k => panic!("unknown kind {}", k),
                }
                {
                    use std::io::Write as _;
                    print!("{}", out);
                    let _ = std::io::stdout().flush();
                    out.clear();
                }
            }
        }
        _ => std::process::exit(2),
    }
}
