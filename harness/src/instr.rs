//! Instrumented key / value / element types, the scripted BuildHasher and the ledger allocator.
use allocator_api2::alloc::{AllocError, Allocator, Global, Layout};
use std::collections::HashMap as StdMap;
use std::hash::{BuildHasher, Hash, Hasher};
use std::ptr::NonNull;
use std::sync::Mutex;

/// Payload of every panic the harness injects; anything else that unwinds is a library panic.
pub struct HvPanic(pub &'static str);

#[derive(Default)]
pub struct Ctx {
    // ---- object registry
    pub next_serial: u64,
    pub live: StdMap<u64, (char, u64, u64)>, // serial -> (kind K/V/T, a, b)
    pub double_drops: Vec<u64>,
    pub drop_log: Vec<(char, u64, u64, u64)>, // (kind, serial, a, b) in order, current window
    pub clone_log: Vec<(u64, u64)>,           // (from serial, new serial)
    // ---- hash plan
    pub hashes: StdMap<u64, u64>,
    pub hash_rule: u8, // 0 = mix, 1 = const 0, 2 = const max, 3 = call dependent, 4 = call dependent (near), 5 = call dependent (window)
    pub hash_window: (u64, u64), // rule 5: a fresh position in base .. base+width on every call, tag 0
    pub hash_calls: u64,
    pub hash_panic_key: Option<u64>,   // hashing this key id panics (while armed)
    pub hash_panic_nth: Option<u64>,   // the n-th hash call from now panics
    pub eq_calls: u64,
    pub eq_panic_nth: Option<u64>,
    pub eq_rule: u8, // 0 lawful, 3 = call dependent pseudo random
    pub clone_panic_nth: Option<u64>,
    pub drop_panic_nth: Option<u64>,
    pub pred_panic_nth: Option<u64>,
    pub hasher_clone_panics: bool,
    pub into_panics: bool,             // K::from(&k) (the Into conversion of entry_ref) panics
    pub zst_live: i64,                 // zero-sized tokens with drop glue currently alive (created/cloned - dropped)
    pub drop_panics: u64,
    pub forgotten: u64,
    // ---- allocator ledger
    pub blocks: StdMap<usize, (usize, usize)>, // user ptr -> (size, align)
    pub block_fam: StdMap<usize, u32>,         // user ptr -> family of the allocator instance that handed it out
    pub next_fam: u32,
    pub ev_log: Vec<(char, u64, u64, u64)>,    // ordered window log: ('A'|'F'|'R', size, align, 0) and ('K'|'V'|'T', serial, a, b) drops
    pub refuse_nth: Option<u64>,               // the n-th allocation request from now is refused
    pub alloc_errors: Vec<String>,
    // ---- references handed out by the library that are not aligned for their type (C02)
    pub misaligned_refs: Vec<String>,
}

/// Every reference to an instrumented object that the harness receives from the library goes through
/// here (the accessor methods call it): a reference must be aligned for its type, also for zero-sized types.
#[inline]
pub fn chk_align<T>(r: &T, what: &'static str) {
    let a = r as *const T as usize;
    if a % std::mem::align_of::<T>() != 0 {
        with_ctx(|c| {
            if c.misaligned_refs.len() < 4 {
                c.misaligned_refs.push(format!("misaligned reference {:#x} to a {} (size {}, align {})", a, what, std::mem::size_of::<T>(), std::mem::align_of::<T>()));
            }
        });
    }
}

pub static CTX: Mutex<Option<Ctx>> = Mutex::new(None);

pub fn with_ctx<R>(f: impl FnOnce(&mut Ctx) -> R) -> R {
    let mut g = match CTX.lock() {
        Ok(g) => g,
        Err(p) => p.into_inner(),
    };
    if g.is_none() {
        *g = Some(Ctx::default());
    }
    f(g.as_mut().unwrap())
}

pub fn reset_ctx() {
    let mut g = match CTX.lock() {
        Ok(g) => g,
        Err(p) => p.into_inner(),
    };
    *g = Some(Ctx::default());
}

fn countdown(c: &mut Option<u64>) -> bool {
    match c {
        Some(0) => {
            *c = None;
            true
        }
        Some(n) => {
            *n -= 1;
            false
        }
        None => false,
    }
}

fn new_serial(kind: char, a: u64, b: u64) -> u64 {
    with_ctx(|c| {
        c.next_serial += 1;
        let s = c.next_serial;
        c.live.insert(s, (kind, a, b));
        s
    })
}

fn drop_serial(kind: char, s: u64, a: u64, b: u64) {
    let panic_now = with_ctx(|c| {
        if c.live.remove(&s).is_none() {
            c.double_drops.push(s);
        }
        c.drop_log.push((kind, s, a, b));
        c.ev_log.push((kind, s, a, b));
        countdown(&mut c.drop_panic_nth)
    });
    if panic_now && !std::thread::panicking() {
        std::panic::panic_any(HvPanic("drop"));
    }
}

pub fn mix64(mut x: u64) -> u64 {
    x = x.wrapping_add(0x9E37_79B9_7F4A_7C15);
    x = (x ^ (x >> 30)).wrapping_mul(0xBF58_476D_1CE4_E5B9);
    x = (x ^ (x >> 27)).wrapping_mul(0x94D0_49BB_1331_11EB);
    x ^ (x >> 31)
}

// ------------------------------------------------------------------------------------------
// keys and values
// ------------------------------------------------------------------------------------------
pub trait KeyT: Hash + Eq + Clone + Send + Sync + serde::Serialize + serde::de::DeserializeOwned + for<'a> From<&'a Self> + 'static {
    const DROP: bool;
    fn mk(id: u64, stamp: u64) -> Self;
    fn id(&self) -> u64;
    fn stamp(&self) -> u64;
    fn serial(&self) -> u64;
}
pub trait ValT: Clone + PartialEq + Send + Sync + serde::Serialize + serde::de::DeserializeOwned + 'static {
    const DROP: bool;
    fn mk(v: u64) -> Self;
    fn val(&self) -> u64;
    fn set(&mut self, v: u64);
    fn serial(&self) -> u64;
}

fn key_hash<H: Hasher>(id: u64, state: &mut H) {
    state.write_u64(id);
}
fn key_eq(a: u64, b: u64) -> bool {
    let (panic_now, rule, n) = with_ctx(|c| {
        c.eq_calls += 1;
        (countdown(&mut c.eq_panic_nth), c.eq_rule, c.eq_calls)
    });
    if panic_now {
        std::panic::panic_any(HvPanic("eq"));
    }
    if rule == 3 {
        return mix64(a ^ (b << 20) ^ (n << 40)) & 1 == 1;
    }
    a == b
}

/// A *borrowed form* of a key (C01: "a lookup through any equivalent borrowed form of a key finds the
/// same entry"): hashes like the key and is `Equivalent` to it, but is a different type.
pub struct KQ(pub u64);
impl Hash for KQ {
    fn hash<H: Hasher>(&self, state: &mut H) { key_hash(self.0, state) }
}
impl<K: KeyT> hashbrown::Equivalent<K> for KQ {
    fn equivalent(&self, k: &K) -> bool { key_eq(self.0, k.id()) }
}

/// Key with drop glue (tracked).
pub struct Kd {
    pub id: u64,
    pub stamp: u64,
    pub serial: u64,
}
impl KeyT for Kd {
    const DROP: bool = true;
    fn mk(id: u64, stamp: u64) -> Self {
        Kd { id, stamp, serial: new_serial('K', id, stamp) }
    }
    fn id(&self) -> u64 { self.id }
    fn stamp(&self) -> u64 { self.stamp }
    fn serial(&self) -> u64 { self.serial }
}
impl Hash for Kd {
    fn hash<H: Hasher>(&self, state: &mut H) { key_hash(self.id, state) }
}
impl PartialEq for Kd {
    fn eq(&self, o: &Self) -> bool { key_eq(self.id, o.id) }
}
impl Eq for Kd {}
impl Clone for Kd {
    fn clone(&self) -> Self {
        let p = with_ctx(|c| countdown(&mut c.clone_panic_nth));
        if p {
            std::panic::panic_any(HvPanic("clone"));
        }
        let k = Kd::mk(self.id, self.stamp);
        with_ctx(|c| c.clone_log.push((self.serial, k.serial)));
        k
    }
}
impl Drop for Kd {
    fn drop(&mut self) { drop_serial('K', self.serial, self.id, self.stamp) }
}
/// `entry_ref(&k)` builds the stored key with `K::from(&k)`: a new tracked object with the same
/// id and stamp.
pub fn into_tick() {
    if with_ctx(|c| c.into_panics) {
        std::panic::panic_any(HvPanic("into"));
    }
}
impl From<&Kd> for Kd {
    fn from(k: &Kd) -> Kd { into_tick(); Kd::mk(k.id, k.stamp) }
}
impl From<&Kp> for Kp {
    fn from(k: &Kp) -> Kp { into_tick(); *k }
}

/// Value with drop glue (tracked).
pub struct Vd {
    pub val: u64,
    pub serial: u64,
}
impl ValT for Vd {
    const DROP: bool = true;
    fn mk(v: u64) -> Self { Vd { val: v, serial: new_serial('V', v, 0) } }
    fn val(&self) -> u64 { self.val }
    fn set(&mut self, v: u64) { self.val = v }
    fn serial(&self) -> u64 { self.serial }
}
impl PartialEq for Vd {
    fn eq(&self, o: &Self) -> bool { self.val == o.val }
}
impl Clone for Vd {
    fn clone(&self) -> Self {
        let p = with_ctx(|c| countdown(&mut c.clone_panic_nth));
        if p {
            std::panic::panic_any(HvPanic("clone"));
        }
        let v = Vd::mk(self.val);
        with_ctx(|c| c.clone_log.push((self.serial, v.serial)));
        v
    }
}
impl Drop for Vd {
    fn drop(&mut self) { drop_serial('V', self.serial, self.val, 0) }
}

/// Plain `Copy` key / value: no drop glue (exercises the `!needs_drop` paths).
#[derive(Clone, Copy)]
pub struct Kp {
    pub id: u64,
    pub stamp: u64,
}
impl KeyT for Kp {
    const DROP: bool = false;
    fn mk(id: u64, stamp: u64) -> Self { Kp { id, stamp } }
    fn id(&self) -> u64 { self.id }
    fn stamp(&self) -> u64 { self.stamp }
    fn serial(&self) -> u64 { 0 }
}
impl Hash for Kp {
    fn hash<H: Hasher>(&self, state: &mut H) { key_hash(self.id, state) }
}
impl PartialEq for Kp {
    fn eq(&self, o: &Self) -> bool { key_eq(self.id, o.id) }
}
impl Eq for Kp {}
#[derive(Clone, Copy, PartialEq)]
pub struct Vp(pub u64);
impl ValT for Vp {
    const DROP: bool = false;
    fn mk(v: u64) -> Self { Vp(v) }
    fn val(&self) -> u64 { self.0 }
    fn set(&mut self, v: u64) { self.0 = v }
    fn serial(&self) -> u64 { 0 }
}

/// Key / value WITHOUT drop glue that are NOT `Copy` and whose `Clone` is hand-written and observable
/// (it is logged, and it honours the armed Clone panic): `clone()` / `clone_from()` of a collection must
/// call it once per stored key and once per stored value -- a bitwise copy is not a clone.
pub struct Kn {
    pub id: u64,
    pub stamp: u64,
}
impl KeyT for Kn {
    const DROP: bool = false;
    fn mk(id: u64, stamp: u64) -> Self { Kn { id, stamp } }
    fn id(&self) -> u64 { self.id }
    fn stamp(&self) -> u64 { self.stamp }
    fn serial(&self) -> u64 { 0 }
}
impl Hash for Kn {
    fn hash<H: Hasher>(&self, state: &mut H) { key_hash(self.id, state) }
}
impl PartialEq for Kn {
    fn eq(&self, o: &Self) -> bool { key_eq(self.id, o.id) }
}
impl Eq for Kn {}
impl Clone for Kn {
    fn clone(&self) -> Self {
        let p = with_ctx(|c| countdown(&mut c.clone_panic_nth));
        if p {
            std::panic::panic_any(HvPanic("clone"));
        }
        with_ctx(|c| c.clone_log.push((0, 0)));
        Kn { id: self.id, stamp: self.stamp }
    }
}
impl From<&Kn> for Kn {
    fn from(k: &Kn) -> Kn { into_tick(); Kn { id: k.id, stamp: k.stamp } }
}
#[derive(PartialEq)]
pub struct Vn(pub u64);
impl ValT for Vn {
    const DROP: bool = false;
    fn mk(v: u64) -> Self { Vn(v) }
    fn val(&self) -> u64 { self.0 }
    fn set(&mut self, v: u64) { self.0 = v }
    fn serial(&self) -> u64 { 0 }
}
impl Clone for Vn {
    fn clone(&self) -> Self {
        let p = with_ctx(|c| countdown(&mut c.clone_panic_nth));
        if p {
            std::panic::panic_any(HvPanic("clone"));
        }
        with_ctx(|c| c.clone_log.push((0, 0)));
        Vn(self.0)
    }
}

// ------------------------------------------------------------------------------------------
// hasher
// ------------------------------------------------------------------------------------------
pub fn plan_hash(id: u64) -> u64 {
    let (h, panic_now) = with_ctx(|c| {
        c.hash_calls += 1;
        let mut p = countdown(&mut c.hash_panic_nth);
        if c.hash_panic_key == Some(id) {
            p = true;
        }
        let h = match c.hash_rule {
            1 => 0,
            2 => u64::MAX,
            3 => mix64(id ^ c.hash_calls.wrapping_mul(0x1234_5678_9ABC_DEF1)),
            // a different answer on every call, but always tag 0 and one of 8 neighbouring
            // positions: lookups under a "wrong" hash still find stored elements
            4 => mix64(id ^ c.hash_calls.wrapping_mul(0x1234_5678_9ABC_DEF1)) & 7,
            // a different answer on every call inside a chosen window of positions (tag 0): elements
            // re-hashed in place are sent to the same few buckets a new key was just offered
            5 => c.hash_window.0 + mix64(id ^ c.hash_calls.wrapping_mul(0x1234_5678_9ABC_DEF1)) % c.hash_window.1.max(1),
            _ => match c.hashes.get(&id) {
                Some(h) => *h,
                None => mix64(id),
            },
        };
        (h, p)
    });
    if panic_now {
        std::panic::panic_any(HvPanic("hash"));
    }
    h
}

/// BuildHasher following the scripted plan; a non-zero salt gives a differently seeded hasher
/// (hash = mix64(plan(id) ^ salt)).
#[derive(Default)]
pub struct PlanBuild {
    pub salt: u64,
}
impl Clone for PlanBuild {
    fn clone(&self) -> Self {
        if with_ctx(|c| c.hasher_clone_panics) {
            std::panic::panic_any(HvPanic("hasher-clone"));
        }
        PlanBuild { salt: self.salt }
    }
}
pub struct PlanHasher(u64, u64);
impl BuildHasher for PlanBuild {
    type Hasher = PlanHasher;
    fn build_hasher(&self) -> PlanHasher { PlanHasher(0, self.salt) }
}
impl Hasher for PlanHasher {
    fn write(&mut self, bytes: &[u8]) {
        for b in bytes {
            self.0 = (self.0 << 8) | (*b as u64);
        }
    }
    fn write_u64(&mut self, i: u64) { self.0 = i }
    fn finish(&self) -> u64 {
        let h = plan_hash(self.0);
        if self.1 != 0 { mix64(h ^ self.1) } else { h }
    }
}

// ------------------------------------------------------------------------------------------
// allocator
// ------------------------------------------------------------------------------------------
const RZ: usize = 64; // red zone on each side (and >= any alignment we use is handled below)
const RZ_BYTE: u8 = 0xA5;

/// Every separately constructed allocator handle is its own allocator INSTANCE (a fresh family
/// number); clones of a handle belong to the same family (the Allocator contract lets a clone
/// release what the original handed out).  A block must be released through the family it came from.
#[derive(Clone, Copy)]
pub struct Ledger(pub u32);
impl Ledger {
    pub fn fresh() -> Ledger {
        Ledger(with_ctx(|c| { c.next_fam += 1; c.next_fam }))
    }
}
impl Default for Ledger {
    fn default() -> Ledger { Ledger::fresh() }
}

fn outer_layout(l: Layout) -> (Layout, usize) {
    let pad = RZ.max(l.align());
    (Layout::from_size_align(l.size() + 2 * pad, l.align()).unwrap(), pad)
}

unsafe impl Allocator for Ledger {
    fn allocate(&self, layout: Layout) -> Result<NonNull<[u8]>, AllocError> {
        let refuse = with_ctx(|c| {
            if layout.size() == 0 || !layout.align().is_power_of_two() || layout.size() > isize::MAX as usize - (layout.align() - 1) {
                c.alloc_errors.push(format!("invalid layout requested: size={} align={}", layout.size(), layout.align()));
            }
            // only tables allocate through this allocator: their block must be aligned for an aligned group scan
            if layout.align() < hashbrown::verif::GROUP_WIDTH {
                c.alloc_errors.push(format!("invalid layout requested: size={} align={} is below the group width {}", layout.size(), layout.align(), hashbrown::verif::GROUP_WIDTH));
            }
            // requests the machine cannot serve are refused here, deterministically and on the
            // record, instead of depending on what the system allocator answers
            countdown(&mut c.refuse_nth) || layout.size() > (1usize << 36)
        });
        if refuse {
            with_ctx(|c| c.ev_log.push(('R', layout.size() as u64, layout.align() as u64, 0)));
            return Err(AllocError);
        }
        let (ol, pad) = outer_layout(layout);
        let raw = match Global.allocate(ol) {
            Ok(r) => r,
            Err(e) => {
                with_ctx(|c| c.ev_log.push(('R', layout.size() as u64, layout.align() as u64, 0)));
                return Err(e);
            }
        };
        let base = raw.as_ptr() as *mut u8;
        unsafe {
            std::ptr::write_bytes(base, RZ_BYTE, pad);
            std::ptr::write_bytes(base.add(pad), 0xEE, layout.size()); // poison fresh memory
            std::ptr::write_bytes(base.add(pad + layout.size()), RZ_BYTE, pad);
        }
        let user = unsafe { base.add(pad) };
        with_ctx(|c| {
            c.blocks.insert(user as usize, (layout.size(), layout.align()));
            c.block_fam.insert(user as usize, self.0);
            c.ev_log.push(('A', layout.size() as u64, layout.align() as u64, 0));
        });
        Ok(NonNull::slice_from_raw_parts(NonNull::new(user).unwrap(), layout.size()))
    }
    unsafe fn deallocate(&self, ptr: NonNull<u8>, layout: Layout) {
        let user = ptr.as_ptr();
        let known = with_ctx(|c| {
            let k = c.blocks.remove(&(user as usize));
            if let Some(f) = c.block_fam.remove(&(user as usize)) {
                if f != self.0 {
                    c.alloc_errors.push(format!("block size={} align={} released through a different allocator instance than the one it was obtained from (obtained from #{}, released through #{})", layout.size(), layout.align(), f, self.0));
                }
            }
            match k {
                None => c.alloc_errors.push(format!("free of unknown block size={} align={}", layout.size(), layout.align())),
                Some((s, a)) if s != layout.size() || a != layout.align() => c.alloc_errors.push(format!(
                    "free with wrong layout: allocated ({},{}) freed ({},{})", s, a, layout.size(), layout.align())),
                _ => {}
            }
            c.ev_log.push(('F', layout.size() as u64, layout.align() as u64, 0));
            k
        });
        if let Some((s, a)) = known {
            let l = Layout::from_size_align(s, a).unwrap();
            let (ol, pad) = outer_layout(l);
            let base = user.sub(pad);
            let mut bad = false;
            for i in 0..pad {
                if *base.add(i) != RZ_BYTE || *base.add(pad + s + i) != RZ_BYTE {
                    bad = true;
                }
            }
            if bad {
                with_ctx(|c| c.alloc_errors.push(format!("red zone overwritten around block size={} align={}", s, a)));
            }
            std::ptr::write_bytes(user, 0xDD, s);
            Global.deallocate(NonNull::new(base).unwrap(), ol);
        }
    }
}

/// Check the red zones of all live blocks (called after every operation).
pub fn check_red_zones() {
    with_ctx(|c| {
        let blocks: Vec<(usize, (usize, usize))> = c.blocks.iter().map(|(p, l)| (*p, *l)).collect();
        for (p, (s, a)) in blocks {
            let pad = RZ.max(a);
            let user = p as *const u8;
            let mut bad = false;
            unsafe {
                let base = user.sub(pad);
                for i in 0..pad {
                    if *base.add(i) != RZ_BYTE || *base.add(pad + s + i) != RZ_BYTE {
                        bad = true;
                    }
                }
            }
            if bad {
                c.alloc_errors.push(format!("red zone overwritten around live block size={} align={}", s, a));
            }
        }
    })
}
