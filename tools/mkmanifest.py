#!/usr/bin/env python3
"""mkmanifest.py -- writes /verif/MANIFEST.json from the table below (kept in one place so the
manifest stays valid and current while properties are being added)."""
import json, os, subprocess

ROOT = os.path.dirname(os.path.dirname(os.path.abspath(__file__)))

COMMON_NOTE = ("Trusted: Coq 8.16.1 kernel; the translator rs2v (validated differentially); Base/RsPrelude.v and Base/Sse2.v; "
               "extraction (ExtrOcamlBasic only) and the OCaml driver; the Rust harness and the cfg-guarded hooks; "
               "the hand-written model Model/*.v, tied to the code by step-wise bit-exact state comparison. "
               "Print Assumptions of every property theorem: closed under the global context (no axioms).")

CLAIMS = {
    "C17": dict(
        text="Coq theorems (Properties/C17.v) over the definitions generated from raw/mod.rs on every run: capacity_to_buckets, bucket_mask_to_capacity, calculate_layout_for and the probe sequence are characterised for all 64-bit inputs and all table sizes up to 2^62 (no sampling bound); the translator is validated by a differential sweep of the real functions (hook wrappers, both group widths) against the extracted definitions on the property's boundary grids.",
        note=COMMON_NOTE, technique="machine-checked proof in Coq over source-generated definitions"),
    "C18": dict(
        text="Coq theorems (Properties/C18.v): both scanner back-ends, assembled from the definitions generated from control/group/{generic,sse2}.rs and control/bitmask.rs, satisfy the byte-by-byte contract BackendSpec on every group of valid control bytes and every tag (the portable match_tag with exactly the documented false positive; SSE2 exact); every table theorem is stated for an arbitrary BackendSpec back-end. Tie: differential sweep of the real primitives of both builds against the extracted definitions and the byte-wise definitions; the same generated histories are run on both builds and compared step by step.",
        note=COMMON_NOTE + " Partial: the six SSE2 intrinsics are modelled by their documented byte-wise semantics.",
        technique="machine-checked proof in Coq (word-level bit tricks = byte-wise definitions) + differential validation"),
    "C07": dict(
        text="Coq theorems (Properties/C07.v): the iterator pipelines of set.rs (union, intersection, difference, symmetric_difference, is_subset/superset/disjoint, ==, Difference::size_hint), modelled over the two sets' iteration-order lists with the strategy-choosing comparisons generated from set.rs, compute exactly the mathematical set operations with each element once, for all pairs of duplicate-free lists. Tie: for generated pairs of sets with different histories the implementation's exact output sequence must equal the extracted pipeline applied to the dumped iteration orders; assigning operators and single-set operations are checked bit-exactly against model_step; results are also judged against mathematical sets computed from the abstract contents.",
        note=COMMON_NOTE + " `contains` inside the pipelines is the membership test; its correctness on the real table is C01's subject.",
        technique="machine-checked proof in Coq (list-level refinement) + bit-exact correspondence"),
}

CLAIMS["C09"] = dict(
    text="Coq theorems (Properties/C09.v): for EVERY table satisfying the counter/shape invariant SafeWF (any occupancy and tombstone pattern, any size from the static singleton through tables smaller than, equal to and larger than a scan group, both scanners) the model of RawIter yields exactly the FULL buckets, each once, in order, then None forever; after n steps the length report is exactly the remaining count and fold visits exactly the rest; default iterators are empty. Tie: generated map/set/table histories with an iterator operation every fourth step; the visited sequence, len() and size_hint() at every step, fold-vs-next and clone-continues-equally are compared with the extracted model and checked in the harness.",
    note=COMMON_NOTE + " That every reachable table satisfies SafeWF is the subject of C02/C05 (Proofs/RawOpsSafe.v etc.). Clone independence of an iterator is a harness-level check (the model iterator is a value).",
    technique="machine-checked proof in Coq (invariant + exact iteration) + bit-exact correspondence")
CLAIMS["C16"] = dict(
    text="Coq theorems (Properties/C16.v) over the declarations GENERATED from the sources (every public struct/enum with its fields, every unsafe impl Send/Sync with its bounds): for every public type and EVERY assignment of Send/Sync to its parameters (finite enumeration inside Coq = all instantiations), being Send/Sync implies the required Send/Sync of every parameter the type gives shared / exclusive / owning access to (AccessTable), and every parameter with exclusive access is invariant. Tie: the calculus' predictions are compared with rustc on ~1800 (quick) / ~14000 (thorough) generated probe programs; borrow and variance probes must be rejected by rustc.",
    note=COMMON_NOTE + " Partial: Model/Marker.v is a model (not a verified implementation) of rustc's auto-trait and variance rules; the borrow-lifetime clause of the property is decided by rustc on probe programs only; Spec/AccessTable.v is a hand-written specification.",
    technique="machine-checked proof in Coq by finite enumeration over source-generated declarations + rustc probe validation")
CLAIMS["C19"] = dict(
    text="Coq theorems (Properties/C19.v): for every SafeWF table and EVERY list of split-or-consume decisions (every binary split tree of any depth) the leaves of the model of RawIterRange::split concatenate, left to right, to exactly the sequential iteration -- pairwise disjoint, every stored element once, no out-of-bounds or unaligned group load; and for every choice of per-leaf stop positions of a short-circuiting consumer each element is delivered exactly once or dropped exactly once. Tie: the real split is driven along caller-chosen trees through a hook and every leaf compared with the extracted model; par_iter / par_iter_mut / into_par_iter / par_drain (early-stopping consumers) / par_extend run on pools of 1..64 threads and are judged as multisets with drop accounting.",
    note=COMMON_NOTE + " Partial: thread interleavings, rayon's contract that each producer is folded exactly once, and data-race freedom are runtime facts outside the model.",
    technique="machine-checked proof in Coq (induction over split trees) + bit-exact correspondence of the split function")
CLAIMS["C20"] = dict(
    text="Coq theorems (Properties/C20.v): for every claimed size hint the pre-allocation (expression generated from serde.rs) is at most 4096 elements hence at most 8192 buckets; inserting any input sequence yields last-value-per-key with unique keys; feeding the entries of any map with unique keys in any order rebuilds it. Tie: deserialisation from scripted inputs (duplicates, hints 0..usize::MAX or absent, an error at every position) is compared bit for bit with the extracted model (with_capacity(cautious(hint)) + inserts; partial map dropped on error), round trips of maps with arbitrary histories, set visitors incl. deserialize_in_place; leak / double-drop accounting on the error paths.",
    note=COMMON_NOTE + " serde's own data-model plumbing and concrete formats are outside the model (an in-memory format is used). That the table realises the reference map is C01's subject.",
    technique="machine-checked proof in Coq + bit-exact correspondence")

REASON_PENDING = "check under construction in this round (model/theorems exist or are being written; not yet registered)"

def main():
    props = [json.loads(l) for l in open(os.path.join(ROOT, "properties.jsonl"))]
    hooks = subprocess.run(["git", "-C", "/repo", "log", "--format=%h %s"], stdout=subprocess.PIPE).stdout.decode().strip().split("\n")
    hook_commits = [l.split()[0] for l in hooks if "verif hooks" in l]
    m = {
        "version": 1,
        "setup_cmd": "./hv setup",
        "hooks": {
            "guard": "hashbrown_verif",
            "enable": "RUSTFLAGS=\"--cfg hashbrown_verif\" (add --cfg miri to select the portable scanner); the harness crate /verif/harness depends on /repo by path",
            "baseline_off_cmd": "cd /repo && cargo test --workspace --no-fail-fast --offline",
            "source_commits": hook_commits,
            "add_only": True,
        },
        "engines": [{
            "name": "hv", "path": "/verif/hv", "serves_properties": sorted(CLAIMS),
            "kind_free_text": "Coq 8.16 proofs over a model tied to /repo by a Rust->Gallina translator (Gen.v, regenerated on every run) and a step-wise bit-exact correspondence check (extracted OCaml model vs instrumented Rust harness)",
        }],
        "checks": [],
        "notes": "See DESIGN.md. `fix:` commits in /repo are listed in known_findings.txt.",
        "not_applicable": [],
    }
    for p in props:
        pid = p["id"]
        if pid in CLAIMS:
            c = CLAIMS[pid]
            m["checks"].append({
                "property_id": pid,
                "quick_cmd": f"./hv check {pid} --tier quick",
                "thorough_cmd": f"./hv check {pid} --tier thorough",
                "evidence_file": f"/verif/evidence/{pid}.json",
                "replay_cmd_template": "./hv replay {path}",
                "engine": "hv",
                "level_claimed": {"category": "proof", "text": c["text"], "design_ref": f"DESIGN.md section 6 / {pid}"},
                "level_note": c["note"],
                "technique": c["technique"],
            })
        else:
            m["not_applicable"].append({"property_id": pid, "reason": REASON_PENDING})
    json.dump(m, open(os.path.join(ROOT, "MANIFEST.json"), "w"), indent=1)
    print("claimed:", sorted(CLAIMS))

if __name__ == "__main__":
    main()
