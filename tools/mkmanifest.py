#!/usr/bin/env python3
"""mkmanifest.py -- writes /verif/MANIFEST.json from the table below (kept in one place so the
manifest stays valid and current while properties are being added)."""
import json, os, subprocess

ROOT = os.path.dirname(os.path.dirname(os.path.abspath(__file__)))

COMMON_NOTE = ("Trusted: Coq 8.16.1 kernel; the translator rs2v (validated differentially); Base/RsPrelude.v and Base/Sse2.v; "
               "extraction (ExtrOcamlBasic only) and the OCaml driver; the Rust harness and the cfg-guarded hooks; "
               "the hand-written model Model/*.v, tied to the code by step-wise bit-exact state comparison. "
               "Print Assumptions of every property theorem: closed under the global context (no axioms).")

CLAIMS = {
    "C17": dict(
        text="Coq theorems (Properties/C17.v) over the definitions generated from raw/mod.rs on every run: capacity_to_buckets, bucket_mask_to_capacity, calculate_layout_for and the probe sequence are characterised for all 64-bit inputs and all table sizes up to 2^62 (no sampling bound); the translator is validated by a differential sweep of the real functions (hook wrappers, both group widths) against the extracted definitions on the property's boundary grids.",
        note=COMMON_NOTE, technique="machine-checked proof in Coq over source-generated definitions"),
    "C18": dict(
        text="Coq theorems (Properties/C18.v): both scanner back-ends, assembled from the definitions generated from control/group/{generic,sse2}.rs and control/bitmask.rs, satisfy the byte-by-byte contract BackendSpec on every group of valid control bytes and every tag (the portable match_tag with exactly the documented false positive; SSE2 exact); every table theorem is stated for an arbitrary BackendSpec back-end. Tie: differential sweep of the real primitives of both builds against the extracted definitions and the byte-wise definitions; the same generated histories are run on both builds and compared step by step.",
        note=COMMON_NOTE + " Partial: the six SSE2 intrinsics are modelled by their documented byte-wise semantics.",
        technique="machine-checked proof in Coq (word-level bit tricks = byte-wise definitions) + differential validation"),
    "C07": dict(
        text="Coq theorems (Properties/C07.v): the iterator pipelines of set.rs (union, intersection, difference, symmetric_difference, is_subset/superset/disjoint, ==, Difference::size_hint), modelled over the two sets' iteration-order lists with the strategy-choosing comparisons generated from set.rs, compute exactly the mathematical set operations with each element once, for all pairs of duplicate-free lists. Tie: for generated pairs of sets with different histories the implementation's exact output sequence must equal the extracted pipeline applied to the dumped iteration orders; assigning operators and single-set operations are checked bit-exactly against model_step; results are also judged against mathematical sets computed from the abstract contents.",
        note=COMMON_NOTE + " `contains` inside the pipelines is the membership test; its correctness on the real table is C01's subject.",
        technique="machine-checked proof in Coq (list-level refinement) + bit-exact correspondence"),
}

CLAIMS["C09"] = dict(
    text="Coq theorems (Properties/C09.v): for EVERY table satisfying the counter/shape invariant SafeWF (any occupancy and tombstone pattern, any size from the static singleton through tables smaller than, equal to and larger than a scan group, both scanners) the model of RawIter yields exactly the FULL buckets, each once, in order, then None forever; after n steps the length report is exactly the remaining count and fold visits exactly the rest; default iterators are empty. Tie: generated map/set/table histories with an iterator operation every fourth step; the visited sequence, len() and size_hint() at every step, fold-vs-next and clone-continues-equally are compared with the extracted model and checked in the harness.",
    note=COMMON_NOTE + " That every reachable table satisfies SafeWF is the subject of C02/C05 (Proofs/RawOpsSafe.v etc.). Clone independence of an iterator is a harness-level check (the model iterator is a value).",
    technique="machine-checked proof in Coq (invariant + exact iteration) + bit-exact correspondence")
CLAIMS["C16"] = dict(
    text="Coq theorems (Properties/C16.v) over the declarations GENERATED from the sources (every public struct/enum with its fields, every unsafe impl Send/Sync with its bounds): for every public type and EVERY assignment of Send/Sync to its parameters (finite enumeration inside Coq = all instantiations), being Send/Sync implies the required Send/Sync of every parameter the type gives shared / exclusive / owning access to (AccessTable), and every parameter with exclusive access is invariant. Tie: the calculus' predictions are compared with rustc on ~1800 (quick) / ~14000 (thorough) generated probe programs; borrow and variance probes must be rejected by rustc.",
    note=COMMON_NOTE + " Partial: Model/Marker.v is a model (not a verified implementation) of rustc's auto-trait and variance rules; the borrow clause is proved at the level of the generated method DECLARATIONS (C16b: receiver kinds and lifetime binding); that rustc's borrow checker then enforces them for every caller is rustc's contract, sampled by probe programs; Spec/AccessTable.v is a hand-written specification; tools/sigx.py (declarations and method signatures) is in the trusted base.",
    technique="machine-checked proof in Coq by finite enumeration over source-generated declarations + rustc probe validation")
CLAIMS["C19"] = dict(
    text="Coq theorems (Properties/C19.v): for every SafeWF table and EVERY list of split-or-consume decisions (every binary split tree of any depth) the leaves of the model of RawIterRange::split concatenate, left to right, to exactly the sequential iteration -- pairwise disjoint, every stored element once, no out-of-bounds or unaligned group load; and for every choice of per-leaf stop positions of a short-circuiting consumer each element is delivered exactly once or dropped exactly once. Tie: the real split is driven along caller-chosen trees through a hook and every leaf compared with the extracted model; par_iter / par_iter_mut / into_par_iter / par_drain (early-stopping consumers) / par_extend run on pools of 1..64 threads and are judged as multisets with drop accounting.",
    note=COMMON_NOTE + " Partial: thread interleavings, rayon's contract that each producer is folded exactly once, and data-race freedom are runtime facts outside the model.",
    technique="machine-checked proof in Coq (induction over split trees) + bit-exact correspondence of the split function")
CLAIMS["C20"] = dict(
    text="Coq theorems (Properties/C20.v): for every claimed size hint the pre-allocation (expression generated from serde.rs) is at most 4096 elements hence at most 8192 buckets; inserting any input sequence yields last-value-per-key with unique keys; feeding the entries of any map with unique keys in any order rebuilds it. Tie: deserialisation from scripted inputs (duplicates, hints 0..usize::MAX or absent, an error at every position) is compared bit for bit with the extracted model (with_capacity(cautious(hint)) + inserts; partial map dropped on error), round trips of maps with arbitrary histories, set visitors incl. deserialize_in_place; leak / double-drop accounting on the error paths.",
    note=COMMON_NOTE + " serde's own data-model plumbing and concrete formats are outside the model (an in-memory format is used). That the table realises the reference map is C01's subject.",
    technique="machine-checked proof in Coq + bit-exact correspondence")

TIE = (" Tie: generated operation histories run on the real collections through the cfg-guarded dump hooks; after EVERY step the implementation's "
       "own pre-state is injected into the extracted model step and post-state, return value and drop/allocator events are compared bit for bit "
       "(level C), every dumped state is checked with the extracted wf_check (level B), results are judged by the reference acceptor (level A).")
CLAIMS["C01"] = dict(
    text="Coq theorems (Properties/C01.v): every step of the model of HashMap/HashSet (insert, get*, remove*, entry family, retain, extract_if, drain, extend, reserve/shrink, clear, iteration) on ANY state satisfying the full invariant WF (any tombstone pattern, any size, any total hasher incl. constant and tag-colliding ones, both scanners) returns exactly what the association-list reference AssocSpec returns and leaves the abstraction relation AbsRel intact (map_step_refines); lifted to every history by induction (run_refines_map / run_refines_set); insert keeps the first-inserted key object." + TIE,
    note=COMMON_NOTE + " OpSetInsert on a table holding map values with a differing stamp is excluded by the theorem's op_pre (a model artifact: sets and maps share one model; see DESIGN.md). HashTable is C06's subject.",
    technique="machine-checked proof in Coq (refinement to an abstract map, induction over histories) + bit-exact correspondence")
CLAIMS["C02"] = dict(
    text="Coq theorems (Properties/C02.v): the model's unsafe primitives are CHECKED (a read of an uninitialised or out-of-range bucket, a control-byte index outside the block, a write to the static singleton, a probe that does not terminate, a free with a foreign layout all evaluate to Fail); map_step_safe proves for every operation, every SafeWF state owning its block (TOwn) and EVERY hasher -- lawful or not, panicking or not -- that no such Fail occurs (only capacity overflow / refused allocation remain) and SafeWF + TOwn hold afterwards; by induction for every history (run_safe, run_var_safe: hasher changing at every step); len is exact." + TIE + " The harness allocator adds red zones, poisoning, layout and alignment checks for element sizes 0,1,2,24,32,200 and alignment 64; iterators/drains/entries leaked with mem::forget.",
    note=COMMON_NOTE + " PARTIAL: Coq cannot exhibit undefined behaviour of compiled Rust (aliasing/provenance rules, validity of reads, the SSE2 intrinsics); what is proved is the index / initialisation / ownership discipline of the model, tied bit-exactly to the code.",
    technique="machine-checked proof in Coq (invariant by induction, checked primitives never fire) + bit-exact correspondence + instrumented allocator")
CLAIMS["C03"] = dict(
    text="Coq theorems (Properties/C03.v) on the RawTable model with explicit events: remove moves the element out exactly once; clear and drop run each stored element's destructor exactly once in bucket order; drop returns the block exactly once with the layout it was requested with (alloc/free pairing, singleton owns nothing); reserve/rehash/resize only move elements (multiset preserved), request at most one block and free the old one with its own layout; shrink never drops." + TIE + " Every key and value object carries a serial number in a registry: after every step each object is stored, held by the caller, or dropped exactly once; leaks and double drops at END.",
    note=COMMON_NOTE + " PARTIAL: the accounting of K and V objects that are passed in but not stored (duplicate key of insert on a present key, default of or_insert on an occupied entry) is outside the model's event vocabulary and decided by the harness registry only.",
    technique="machine-checked proof in Coq (event-level ownership accounting) + bit-exact event correspondence + object registry")
CLAIMS["C04"] = dict(
    text="Coq theorem (Properties/C04.v): for every operation, every SafeWF state and every hasher that may panic at ANY call (option-valued hasher, arbitrary per step), the model step returns a state satisfying SafeWF and owning its block, whether it completed or unwound (map_step_safe; the shape of the rehash_in_place unwind guard is read from the source: rehash_guard_unconditional); a hasher panic during resize leaves the table EQUAL to the pre-state and frees the new block; during an in-place rehash (element types with and without drop glue) or reserve every element of the pre-state is still present or was dropped exactly once and len() is adjusted; a destructor panic inside clear still empties the table, dropping a prefix once (Clone panics: C11_clone / C11_clone_from); Properties/C04u.v: after an unwound in-place rehash, reserve or try_reserve the FULL invariant WF holds (every remaining element carries the tag of its hash and is reachable by lookup, only successfully re-hashed elements remain, no tombstone is left), and at OPERATION level for all 45 HashMap/HashSet operations with a partial hasher: whenever an operation unwinds (at the key's hash, inside its reserve / rehash / resize, or part-way through extend) WF and block ownership hold afterwards (map_step_unwind_WF)." + TIE + " A third to a half of the operations are preceded by a fault arming (k-th Hash / Eq / Drop / Clone / predicate call panics, allocator refuses); after catch_unwind the dump must satisfy the full wf_check, contents must be explainable from pre-state and arguments, registry: no double drop, leaks only after destructor panics. Found and fixed: F1 (rehash guard skipped for no-drop types), F3 (clone_from hasher Clone panic) -- replays kept as corpus.",
    note=COMMON_NOTE + " PARTIAL: the theorems cover panics of the hasher, of destructors and of Clone; Eq / predicate / extend-iterator panics are decided by the correspondence and wf_check on generated histories, not by a theorem.",
    technique="machine-checked proof in Coq (invariant preserved on unwinding paths) + fault-injection correspondence")
CLAIMS["C05"] = dict(
    text="Coq theorems (Properties/C05.v): with an ARBITRARY hasher that may answer differently at every call (and panic), every operation of every history keeps SafeWF and block ownership, never reaches a checked-primitive failure, terminates (fuel never exhausted), and len() equals the number of elements iteration yields (run_var_safe, run_len_exact)." + TIE + " Histories with call-dependent Hash and/or Eq implementations (results depend on a call counter); judged for safety: SafeWF, len = iteration count, each stored object yielded once, registry and allocator checks.",
    note=COMMON_NOTE + " Inconsistent Hash is fully quantified in the operation-level theorems; inconsistent Eq is quantified at the level of the two raw search functions every operation uses (Properties/C05e.v: RawTable::find and find_or_find_insert_slot terminate, stay in bounds and keep the table valid for an ARBITRARY equality predicate chosen anew at every call) and exercised at operation level by the harness (the operation-level model fixes key equality).",
    technique="machine-checked proof in Coq (invariant independent of Hash laws) + correspondence with lawless Hash/Eq")
CLAIMS["C08"] = dict(
    text="Coq theorems (Properties/C08.v): capacity >= len on every SafeWF table; with_capacity(n) and reserve(n) guarantee n further insertions fit; an insertion while growth_left > 0 performs no allocator event and keeps the bucket count (no_alloc_while_room); shrink_to(m) keeps all elements, never grows the block, and yields the bucket count of a fresh with_capacity(max(len, m)) or frees everything; clear keeps the allocation. Arithmetic (capacity_to_buckets etc.) is generated from raw/mod.rs on every run." + TIE + " Capacity oracles (K-FAIL) evaluate these contracts on the implementation's own dumps after every step for element sizes 0..200.",
    note=COMMON_NOTE, technique="machine-checked proof in Coq over source-generated arithmetic + bit-exact correspondence + capacity oracles")
CLAIMS["C10"] = dict(
    text="Coq theorems (Properties/C10.v): for every WF state, every predicate given as an arbitrary key set, every mutation through &mut and every early-drop point n, retain / extract_if / drain on the model (iterating with a RawIter WHILE erasing, as the code does) produce exactly the reference result: survivors = selected set with values bumped once, yielded elements are exactly the removed ones, unvisited elements stay, drain leaves an empty valid map keeping its allocation (map_step_refines_covered)." + TIE,
    note=COMMON_NOTE, technique="machine-checked proof in Coq (refinement) + bit-exact correspondence")
CLAIMS["C11"] = dict(
    text="Coq theorems (Properties/C11.v): RawTable::clone of ANY SafeWF table yields a valid table owning a fresh block with identical control bytes/counters whose every bucket holds the clone of the source's bucket (a panicking Clone frees the fresh block, nothing else); clone_from into a target in ANY valid state (empty, smaller, equal, larger, tombstones) drops every old element once, replaces the block exactly when the bucket counts differ, and yields the clone (on a panic: an empty valid table); == on iteration-order lists is exactly 'same keys with equal values', symmetric, and invariant under permutation of either side (hence layout/capacity/history/hasher-independent); a clone compares equal to its source." + TIE + " Two-map scripts: clone, clone_from into every target class, swap, ==, differently salted hashers; fresh serial numbers (no shared object), the other map's dump unchanged by later steps.",
    note=COMMON_NOTE + " Independence of the two Rust tables (no shared buckets) is a harness-level check: model tables are values.",
    technique="machine-checked proof in Coq + bit-exact correspondence + object registry")
CLAIMS["C12"] = dict(
    text="Coq theorems (Properties/C12.v): try_reserve on any SafeWF table with any request (0 .. 2^64-1) and any allocator answer returns Ok with room for the request, or CapacityOverflow exactly when the arithmetic generated from raw/mod.rs overflows / exceeds isize::MAX, or AllocError carrying the layout that was refused; on every error the table is returned UNCHANGED (t' = t, no events)." + TIE + " Requests at the overflow boundaries for element sizes 0,1,24,200 with a refusing allocator; R-FAIL oracle compares the error kind and layout with the extracted arithmetic.",
    note=COMMON_NOTE, technique="machine-checked proof in Coq over source-generated arithmetic + bit-exact correspondence")
CLAIMS["C13"] = dict(
    text="Coq theorems (Properties/C13.v): for EVERY insert/remove history whose live size never exceeds L (no reserve), starting from an empty table, the table is valid and its bucket count is at most max(16, 5(L+1)) (Bounded: a table of half the size could not hold 2(L+1) elements; allocation_size bounded accordingly), for an arbitrary hasher -- tombstones are reclaimed by rehash_in_place instead of growing (churn_bounded); every operation terminates (fuel never exhausted, map_step_safe)." + TIE + " Churn scripts (300-600 steps, live sizes 1..50, all hash plans) with the G-FAIL oracle: bucket count / allocation_size never exceed the proved bound.",
    note=COMMON_NOTE + " Running time (amortised O(1)) is not modelled; termination and space are.",
    technique="machine-checked proof in Coq (invariant over histories) + correspondence with bound oracle")
CLAIMS["C14"] = dict(
    text="Coq theorems (Properties/C14.v): the entry API of the model (entry().or_insert / insert / remove / and_modify().or_insert / dropping an entry unused) returns and leaves exactly what the reference map does, on every WF state and hasher (instances of map_step_refines); a vacant entry dropped unused leaves the contents unchanged (it may only have reserved); Properties/C14r.v: RawTable::replace_bucket_with (the primitive of replace_entry_with / and_replace_entry_with on Entry and RawEntryMut), modelled line by line, is EXACTLY an in-place overwrite when the closure returns Some (all control bytes incl. the mirror, items and growth_left unchanged although the bucket is erased and re-marked in between) and EXACTLY remove when it returns None, and never fails." + TIE,
    note=COMMON_NOTE + " rustc_entry, raw_entry_mut / raw_entry and entry_ref have no model operation of their own: the driver composes them from the proved steps (rustc_entry = reserve(1) on a vacant key ; entry operation) and compares bit for bit.",
    technique="machine-checked proof in Coq (refinement) + bit-exact correspondence")

CLAIMS["C06"] = dict(
    text="Coq theorems (Properties/C06.v): every step of the model of HashTable (find, find_mut, find_entry+remove, remove followed by re-insertion through the VacantEntry, entry insert / or_insert, insert_unique, retain, extract_if, drain, clear, reserve, shrink, get_many_mut, iter, iter_hash, len ...) on ANY WF state, for ANY total assignment of 64-bit hashes to elements (collisions in position bits, tag bits or both; duplicate elements) is accepted by the multiset reference MultisetSpec: a lookup misses only if no stored element of that hash satisfies the closure, hits return stored elements, removed elements are gone, len counts duplicates, iter_hash(h) yields a sub-multiset (nothing twice) and leaves no element of hash h un-yielded; lifted to every history by induction (trun_refines_from); safety (SafeWF/TOwn) for arbitrary unlawful closures and hashes (table_step_safe)." + TIE + " Element sizes 0,1,2,24,32,200, alignment 64.",
    note=COMMON_NOTE + " Side conditions (top_pre), both shown necessary by vm_compute counterexamples in Proofs/TableStepRefine.v: the closure of remove-and-reinsert must only accept elements of the queried hash (caller error otherwise: re-inserting under a foreign hash); values are u64.",
    technique="machine-checked proof in Coq (refinement to a multiset, induction over histories) + bit-exact correspondence")
CLAIMS["C15"] = dict(
    text="Coq theorems (Properties/C15.v) on the model of RawTable::get_many_mut (get_many_mut_pointers + pairwise duplicate check; HashMap::get_many_mut / get_many_key_value_mut and HashTable::get_many_mut all go through it): for ANY SafeWF table, ANY number of requests and ARBITRARY closures (incl. unlawful ones matching several entries) a returning call hands out pairwise distinct buckets (NoDup), result k is None exactly when request k found nothing and otherwise the stored element of its own bucket, the write lands in exactly that bucket and nothing else changes; the call panics EXACTLY when two requests resolve to the same bucket, leaving the table unchanged." + TIE + " The harness compares the addresses of the returned &mut references; a dedicated probe covers zero-sized elements (found and fixed: F2, spurious 'duplicate keys found' for distinct zero-sized entries).",
    note=COMMON_NOTE + " PARTIAL: that two distinct Rust references do not alias is modelled as distinct bucket indices; the pointer-level argument (Bucket::ptr distinct per bucket, also for zero-sized T) is checked by the harness on addresses, not proved.",
    technique="machine-checked proof in Coq + bit-exact correspondence + address comparison in the harness")

# ---- companions added later (Properties/Cxx<letter>.v are part of the property's cone) ----
CLAIMS["C03"]["text"] += (" Properties/C03o.v (Model/OwnIter.v): the OWNING iterators as step-wise objects -- into_iter / drain created, advanced n times, then dropped, "
    "leaked (mem::forget) or unwound by a panicking fold / for_each consumer: the yielded elements are the first n occupants in bucket order, every other occupant is dropped exactly once "
    "in bucket order, the block is released exactly once (into_iter) or kept (drain: the table afterwards is clear_no_drop of the original), a leaked Drain leaves the valid empty singleton, "
    "a leaked IntoIter drops and frees nothing; the step-wise drain equals the one-shot model used by C10; level C compares these runs (yielded list, destructor and release events in order, collection afterwards) with the implementation.")
CLAIMS["C03"]["note"] = CLAIMS["C03"]["note"].replace("PARTIAL:", "PARTIAL (narrowed by C03o):")
CLAIMS["C02"]["text"] += (" Properties/C02o (in C03o.v): after a Drain has been leaked the collection is the valid empty singleton (SafeWF, owns no block, nothing dropped or freed later on its behalf); a leaked IntoIter drops nothing.")
CLAIMS["C04"]["text"] += (" Properties/C04p.v (Model/PanicOps.v): a panicking Eq inside find / find_or_find_insert_slot propagates without reaching any checked precondition and leaves the table exactly as the preceding reserve left it; "
    "a panicking retain closure leaves a valid table (SafeWF and WF) whose contents are: elements visited before the panic and kept (value updated), minus those rejected (each dropped once, in order), plus the panicking element and all unvisited ones untouched; "
    "a panicking extract_if closure leaves a valid table holding everything not yielded, the culprit included. Level C runs these models against the implementation with the k-th closure call panicking.")
CLAIMS["C04"]["text"] += (" Properties/C04q.v (Model/PanicOps2.v): the iterator handed to HashMap::extend panicking after ANY number p of pairs leaves a well-formed map representing exactly the pre-state plus the first p pairs inserted in order (no old element lost, each old key object kept); "
    "a panicking Into conversion (K::from(&q)) in the entry_ref API unwinds exactly when the key is absent and leaves the table IDENTICAL to the pre-state, and is never run on a present key. A panicking closure handed to replace_entry_with / and_replace_entry_with (HashMap entries and raw_entry_mut, through RawTable::replace_bucket_with) leaves a well-formed map without that key, the removed element released exactly once, and never runs on an absent key; a panicking and_modify closure leaves the table identical. Level C runs these models against the implementation (harness operation `extendp`, arms `intopanic` / `predpanic_nth` on the entry operations), level A demands exactly those contents.")
CLAIMS["C04"]["note"] = COMMON_NOTE + " PARTIAL: the theorems cover panics of the hasher, of destructors, of Clone, of Eq (at the level of the two search functions every operation uses), of the retain / extract_if closures, of the extend iterator, of the Into conversion of entry_ref and of the closures handed to replace_entry_with / and_replace_entry_with / and_modify; panics of or_insert_with-style default closures (which run before anything is touched) and of Drop inside the owning iterators' consumers are decided by the fault-injection correspondence, the registry and wf_check on generated histories."
CLAIMS["C07"]["text"] += (" Properties/C07a.v (Proofs/SetOpsFacts.v): the ASSIGNING operators |=, &=, ^=, -= as the loops of set.rs over the TABLE model (every iteration a HashSet operation with real probing, tombstones, growth): from any well-formed left table and any right-hand element list the result is a well-formed table representing exactly the mathematical union / intersection / symmetric difference / difference, element objects included (set2_spec: which stored object survives, which right-hand object is cloned in); collect() of a duplicate-free pipeline output (what |, &, ^, - do) yields a well-formed table holding exactly those elements.")
CLAIMS["C16"]["text"] += (" Properties/C16b.v (Model/Borrow.v, Proofs/BorrowFacts.v): the BORROW clause over the public method signatures, which tools/sigx.py now also regenerates from the source on every check (229 inherent `pub fn`s of the exported types: receiver kind, lifetimes of impl / fn / inputs / return type, what the return type contains): whatever can write or move out through a borrow (`&mut`, or a handle type with a lifetime to which the access table gives Exclusive / Owning / unique read-only access) is only obtainable from `&mut self` or by consuming another handle; every borrowing result has a receiver or borrowed argument to borrow from; every named lifetime of a return type is bound by the impl block or an input. A one-token slip (`&mut self` -> `&self`, an unconstrained `<'x>`) makes the theorem fail and the check reports the offending declaration as the replay.")
CLAIMS["C20"]["text"] += (" Properties/C20a.v (Proofs/SerdeTableFacts.v): the visitors on the TABLE model: with_capacity(cautious(hint)) followed by real inserts yields, for every hint, input and hash function, a well-formed table representing `build items`; an input error after ANY number of elements leaves a valid partial map whose drop releases each element built so far exactly once and its block exactly once with the requested layout (the error path of the property).")
CLAIMS["C08"]["text"] += (" Properties/C08.v also states the last clause of the property: after shrink_to(m) the table has at most the bucket count (and at most the allocation size) of a fresh with_capacity(max(len, m)) (Proofs/ShrinkBound.v).")
CLAIMS["C14"]["text"] += (" Properties/C14e.v (Model/Entry2.v): RawTable::insert_no_grow, HashMap::rustc_entry with its actions, raw_entry_mut().from_key / from_key_hashed_nocheck with their actions and raw_entry().from_key are transcribed as their own model code and PROVED equal, as values (table, output, event list), to the HashMap::entry composition -- rustc_entry(k) = the entry operation when k is present, reserve(1) followed by the entry operation when it is absent (also at growth_left = 0), insert_no_grow = RawTable::insert whenever its precondition holds -- hence they refine the reference map; level C runs this code-shaped model against the implementation.")
CLAIMS["C14"]["note"] = COMMON_NOTE + " entry_ref differs from entry only in how the stored key object is built (From<&Q>) and is compared as the entry operation; raw_entry().from_key equals get_key_value except that it hashes on an empty map (side condition shown necessary by Entry2Facts.raw_get_counterexample)."
CLAIMS["C18"]["text"] += (" Properties/C18o.v (Proofs/SpecDeterminism.v): the first sentence of the property as a theorem -- two runs of one history from HashMap::new() on the two scanners (indeed on any two back-ends satisfying BackendSpec, with different element layouts, total hash functions and allocator behaviour) agree on every return value (yielded lists up to order), on len() and on the contents, for every history whose operations have order-free results; for partly consumed drains / extract_if the yielded lists are sub-multisets of equal contents; capacity / allocation_size / try_reserve verdicts are layout-level and not claimed equal.")

REASON_PENDING = "check under construction in this round (model/theorems exist or are being written; not yet registered)"

def main():
    props = [json.loads(l) for l in open(os.path.join(ROOT, "properties.jsonl"))]
    hooks = subprocess.run(["git", "-C", "/repo", "log", "--format=%h %s"], stdout=subprocess.PIPE).stdout.decode().strip().split("\n")
    hook_commits = [l.split()[0] for l in hooks if "verif hooks" in l]
    m = {
        "version": 1,
        "setup_cmd": "./hv setup",
        "hooks": {
            "guard": "hashbrown_verif",
            "enable": "RUSTFLAGS=\"--cfg hashbrown_verif\" (add --cfg miri to select the portable scanner); the harness crate /verif/harness depends on /repo by path",
            "baseline_off_cmd": "cd /repo && cargo test --workspace --no-fail-fast --offline",
            "source_commits": hook_commits,
            "add_only": True,
        },
        "engines": [{
            "name": "hv", "path": "/verif/hv", "serves_properties": sorted(CLAIMS),
            "kind_free_text": "Coq 8.16 proofs over a model tied to /repo by a Rust->Gallina translator (Gen.v, regenerated on every run) and a step-wise bit-exact correspondence check (extracted OCaml model vs instrumented Rust harness)",
        }],
        "checks": [],
        "notes": "See DESIGN.md. `fix:` commits in /repo are listed in known_findings.txt.",
        "not_applicable": [],
    }
    for p in props:
        pid = p["id"]
        if pid in CLAIMS:
            c = CLAIMS[pid]
            m["checks"].append({
                "property_id": pid,
                "quick_cmd": f"./hv check {pid} --tier quick",
                "thorough_cmd": f"./hv check {pid} --tier thorough",
                "evidence_file": f"/verif/evidence/{pid}.json",
                "replay_cmd_template": "./hv replay {path}",
                "engine": "hv",
                "level_claimed": {"category": "proof", "text": c["text"], "design_ref": f"DESIGN.md section 6 / {pid}"},
                "level_note": c["note"],
                "technique": c["technique"],
            })
        else:
            m["not_applicable"].append({"property_id": pid, "reason": REASON_PENDING})
    json.dump(m, open(os.path.join(ROOT, "MANIFEST.json"), "w"), indent=1)
    print("claimed:", sorted(CLAIMS))

if __name__ == "__main__":
    main()
