#!/usr/bin/env python3
"""mkmanifest.py -- writes /verif/MANIFEST.json from the table below (kept in one place so the
manifest stays valid and current while properties are being added)."""
import json, os, subprocess

ROOT = os.path.dirname(os.path.dirname(os.path.abspath(__file__)))

COMMON_NOTE = ("Trusted: Coq 8.16.1 kernel; the translator rs2v (validated differentially); Base/RsPrelude.v and Base/Sse2.v; "
               "extraction (ExtrOcamlBasic only) and the OCaml driver; the Rust harness and the cfg-guarded hooks; "
               "the hand-written model Model/*.v, tied to the code by step-wise bit-exact state comparison. "
               "Print Assumptions of every property theorem: closed under the global context (no axioms).")

CLAIMS = {
    "C17": dict(
        text="Coq theorems (Properties/C17.v) over the definitions generated from raw/mod.rs on every run: capacity_to_buckets, bucket_mask_to_capacity, calculate_layout_for and the probe sequence are characterised for all 64-bit inputs and all table sizes up to 2^62 (no sampling bound); the translator is validated by a differential sweep of the real functions (hook wrappers, both group widths) against the extracted definitions on the property's boundary grids.",
        note=COMMON_NOTE, technique="machine-checked proof in Coq over source-generated definitions"),
    "C18": dict(
        text="Coq theorems (Properties/C18.v): both scanner back-ends, assembled from the definitions generated from control/group/{generic,sse2}.rs and control/bitmask.rs, satisfy the byte-by-byte contract BackendSpec on every group of valid control bytes and every tag (the portable match_tag with exactly the documented false positive; SSE2 exact); every table theorem is stated for an arbitrary BackendSpec back-end. Tie: differential sweep of the real primitives of both builds against the extracted definitions and the byte-wise definitions; the same generated histories are run on both builds and compared step by step.",
        note=COMMON_NOTE + " Partial: the six SSE2 intrinsics are modelled by their documented byte-wise semantics.",
        technique="machine-checked proof in Coq (word-level bit tricks = byte-wise definitions) + differential validation"),
    "C07": dict(
        text="Coq theorems (Properties/C07.v): the iterator pipelines of set.rs (union, intersection, difference, symmetric_difference, is_subset/superset/disjoint, ==, Difference::size_hint), modelled over the two sets' iteration-order lists with the strategy-choosing comparisons generated from set.rs, compute exactly the mathematical set operations with each element once, for all pairs of duplicate-free lists. Tie: for generated pairs of sets with different histories the implementation's exact output sequence must equal the extracted pipeline applied to the dumped iteration orders; assigning operators and single-set operations are checked bit-exactly against model_step; results are also judged against mathematical sets computed from the abstract contents.",
        note=COMMON_NOTE + " `contains` inside the pipelines is the membership test; its correctness on the real table is C01's subject.",
        technique="machine-checked proof in Coq (list-level refinement) + bit-exact correspondence"),
}

REASON_PENDING = "check under construction in this round (model/theorems exist or are being written; not yet registered)"

def main():
    props = [json.loads(l) for l in open(os.path.join(ROOT, "properties.jsonl"))]
    hooks = subprocess.run(["git", "-C", "/repo", "log", "--format=%h %s"], stdout=subprocess.PIPE).stdout.decode().strip().split("\n")
    hook_commits = [l.split()[0] for l in hooks if "verif hooks" in l]
    m = {
        "version": 1,
        "setup_cmd": "./hv setup",
        "hooks": {
            "guard": "hashbrown_verif",
            "enable": "RUSTFLAGS=\"--cfg hashbrown_verif\" (add --cfg miri to select the portable scanner); the harness crate /verif/harness depends on /repo by path",
            "baseline_off_cmd": "cd /repo && cargo test --workspace --no-fail-fast --offline",
            "source_commits": hook_commits,
            "add_only": True,
        },
        "engines": [{
            "name": "hv", "path": "/verif/hv", "serves_properties": sorted(CLAIMS),
            "kind_free_text": "Coq 8.16 proofs over a model tied to /repo by a Rust->Gallina translator (Gen.v, regenerated on every run) and a step-wise bit-exact correspondence check (extracted OCaml model vs instrumented Rust harness)",
        }],
        "checks": [],
        "notes": "See DESIGN.md. `fix:` commits in /repo are listed in known_findings.txt.",
        "not_applicable": [],
    }
    for p in props:
        pid = p["id"]
        if pid in CLAIMS:
            c = CLAIMS[pid]
            m["checks"].append({
                "property_id": pid,
                "quick_cmd": f"./hv check {pid} --tier quick",
                "thorough_cmd": f"./hv check {pid} --tier thorough",
                "evidence_file": f"/verif/evidence/{pid}.json",
                "replay_cmd_template": "./hv replay {path}",
                "engine": "hv",
                "level_claimed": {"category": "proof", "text": c["text"], "design_ref": f"DESIGN.md section 6 / {pid}"},
                "level_note": c["note"],
                "technique": c["technique"],
            })
        else:
            m["not_applicable"].append({"property_id": pid, "reason": REASON_PENDING})
    json.dump(m, open(os.path.join(ROOT, "MANIFEST.json"), "w"), indent=1)
    print("claimed:", sorted(CLAIMS))

if __name__ == "__main__":
    main()
