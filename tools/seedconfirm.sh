#!/bin/bash
# seedconfirm.sh <dir with patch.diff demo.rs meta.json> <scratch worktree of /repo>
# confirms a seeded change: (a) patch applies, (b) demo passes without it, (c) demo fails with it,
# (d) the existing test suite passes with it.  Prints one line per step; exit 0 iff all hold.
set -u
D=$1; W=$2
cd "$W" || exit 2
git checkout -q -- . ; git clean -fdq -e target
FEAT=$(python3 -c "import json,sys;print(json.load(open('$D/meta.json')).get('features','') or '')" 2>/dev/null)
FA=""; [ -n "$FEAT" ] && FA="--features $FEAT"
# a demo that needs the portable scanner: meta.json "rustflags" (e.g. --cfg miri); the dev-dependencies
# then need RUSTC_BOOTSTRAP=1 on the stable toolchain; the suite itself runs with the default flags
RF=$(python3 -c "import json,sys;r=json.load(open('$D/meta.json')).get('rustflags','') or '';print('--cfg miri' if '--cfg miri' in r else (r if r.startswith('-') and len(r.split())<=4 else ''))" 2>/dev/null)
demo() { if [ -n "$RF" ]; then RUSTC_BOOTSTRAP=1 RUSTFLAGS="$RF" CARGO_TARGET_DIR=target-portable "$@"; else "$@"; fi; }
cp "$D/demo.rs" tests/seed_demo.rs
if CARGO_NET_OFFLINE=true demo timeout 900 cargo test --offline $FA --test seed_demo >/tmp/seedconfirm.$$.log 2>&1; then echo "demo-without-patch: pass"; A=0; else echo "demo-without-patch: FAIL"; tail -5 /tmp/seedconfirm.$$.log; A=1; fi
if git apply "$D/patch.diff"; then echo "patch: applies"; else echo "patch: DOES NOT APPLY"; exit 1; fi
if CARGO_NET_OFFLINE=true demo timeout 900 cargo test --offline $FA --test seed_demo >/tmp/seedconfirm.$$.log 2>&1; then echo "demo-with-patch: PASS (not demonstrated)"; B=1; else echo "demo-with-patch: fails (as claimed)"; grep -E "panicked|assert|SIG|signal" /tmp/seedconfirm.$$.log | head -3; B=0; fi
rm -f tests/seed_demo.rs
if CARGO_NET_OFFLINE=true timeout 1800 cargo test --offline $FA >/tmp/seedconfirm.$$.log 2>&1; then echo "suite-with-patch: passes"; C=0; else echo "suite-with-patch: FAILS"; grep -E "^test .*FAILED|failed" /tmp/seedconfirm.$$.log | head -5; C=1; fi
git checkout -q -- . ; git clean -fdq -e target
rm -f /tmp/seedconfirm.$$.log
exit $((A+B+C))
