#!/usr/bin/env python3
"""seedtable.py -- regenerates DESIGN.md section 13.6 from /verif/seeded/*/meta.json
(and, when present, the cross matrix in seeded/MATRIX.json)."""
import json, glob, os, re
ROOT = os.path.dirname(os.path.dirname(os.path.abspath(__file__)))
rows = []
matrix = {}
mp = os.path.join(ROOT, "seeded", "MATRIX.json")
if os.path.exists(mp):
    matrix = json.load(open(mp))
for d in sorted(glob.glob(os.path.join(ROOT, "seeded", "C??_m?"))):
    tag = os.path.basename(d)
    m = json.load(open(os.path.join(d, "meta.json")))
    prop = tag[:3]
    own = m.get("checks", {}).get(prop, "?")
    kind = "replay" if "with replay" in own else ("no-failing-input-found" if "no-failing" in own else own[:20])
    first = ""
    mm = re.search(r"first: # property C\d\d: (\S+)", own)
    if mm:
        first = mm.group(1)
    hist = m.get("check_history")
    h = "caught by the first run" if not hist else ("MISSED at first -> strengthened" if "NOT reported" in hist[0] else ("no-failing-input at first -> concrete after strengthening" if "no-failing-input-found" in hist[0] else "operation added, then caught"))
    others = ""
    if tag in matrix:
        others = " ".join((p if v == "R" else f"({p})") for p, v in sorted(matrix[tag].items()) if v != "-" and p != prop)
    what = (m.get("name") or "")[:60]
    files = ",".join(os.path.basename(f) for f in m.get("files", []))[:40]
    rows.append(f"| {tag} | {what} ({files}) | {kind} {first} | {h} | {others} |")
txt = ("One hundred and sixty changes were produced by fresh sub-agents that saw only the property text and a scratch worktree (eight rounds: m1, m2 two per property, "
       "then m3 ... m8 one per property each with a different area of the code suggested from the property text; `seeded/<id>/patch.diff`, `demo.rs`, `meta.json`). "
       "Every one was confirmed by me in the agent's worktree: the demo passes without "
       "the patch and fails with it, and the unedited test suite passes with it (C02_m1 and C06_m1 fail one randomly-seeded test in some "
       "runs; the C18 changes are invisible to the default build and need the portable scanner). Each was then applied to a copy of `/repo` "
       "(`tools/mutcheck.sh`) and the check of its own property was run. First runs -- rounds 1-2 (40): 21 reported with a concrete replay, 6 only as "
       "`no-failing-input-found`, 11 NOT reported, 2 lacked the operation; round 3 (20): 12 with replay, 2 no-failing-input, 6 NOT reported; round 4 (20): 11 with replay, "
       "9 NOT reported (several agents re-invented changes of earlier rounds against a *different* property, whose own check had never exercised that code); "
       "round 5 (20): 13 with replay, 1 no-failing-input (C17_m5), 6 NOT reported (C02_m5 a relevance predicate; C03_m5 allocator identity; C05_m5, C07_m5, C10_m5, C11_m5 generator gaps); "
       "round 6 (20; many re-inventions of earlier changes): 14 with replay, 6 NOT reported -- C04_m6, C09_m6 and C13_m6 repeat changes that earlier generator states DID catch: "
       "their detection had depended on where random scripts happened to put an element, and unrelated generator edits had shifted the random stream; they are now caught by deterministic script "
       "families and were re-run under three seeds; C06_m6 (HashTable clone), C10_m6 (drain of an empty table with tombstones) and C14_m6 (raw entry from_hash / rename) needed new operations; "
       "round 7 (20; every agent was told to change code that NO earlier round had touched -- the list of functions touched so far was computed from the stored patches): 13 with replay, 1 no-failing-input (C07_m7: the two sets always shared hasher state), "
       "6 NOT reported (C03_m7, C11_m7: no zero-sized element type with drop glue / observable Clone; C04_m7: no callback faults on HashTable operations; C08_m7: shrink_to_fit on a table whose capacity() had fallen to len(); "
       "C10_m7: extract_if on a sparse table with a two-group collision chain; C19_m7: par_eq on the same map object with a non-reflexive value); "
       "round 8 (20; again only code that no earlier round had touched): 16 with replay, 1 no-failing-input (C08_m8: the capacity oracles judged the spare room from the dumped growth_left, not from what capacity() itself answers), "
       "3 NOT reported (C02_m8: an over-aligned zero-sized element met a removal only by a random choice of element kind; C03_m8: a destructor that panics while a Drain drops its remainder -- C03 armed no destructor panics; "
       "C16_m8: `fn rustc_iter(&self) -> Iter<'a, K, V>` on `Drain<'a>` satisfies the three signature rules U, B, L -- closed by a fourth rule (S) with its own theorem in C16b); re-running all twenty under seeds 2 and 3 showed that C11_m8 (clone_from between maps of equal capacity() and different bucket counts) had been caught by luck only -- closed by the deterministic `make_clone_from_capacity_script`. "
       "Every miss was traced to a gap in the *generators / operations / element kinds / relevance predicates* (never to a proof) and closed; see each `meta.json` "
       "(`check_history`). The rounds also exposed three false alarms of my own (13.5). Final state: all 160 are reported by the check of their own property with a concrete, shrunk replay "
       "(`seeded/MATRIX.json`: every check against every seed of rounds 1-2, quick tier). Column `also` lists the other "
       "properties' checks that report the same change (with a replay, or -- in parentheses -- as no-failing-input-found because the "
       "generated definitions or the bit-exact tie they share broke).\n\n"
       "| seed | change | own check reports | history | also reported by |\n|---|---|---|---|---|\n" + "\n".join(rows) + "\n")
p = os.path.join(ROOT, "DESIGN.md")
s = open(p).read()
if "SEEDED_TABLE_PLACEHOLDER" in s:
    s = s.replace("SEEDED_TABLE_PLACEHOLDER", "<!-- seedtable:begin -->\n" + txt + "<!-- seedtable:end -->")
else:
    s = re.sub(r"<!-- seedtable:begin -->.*?<!-- seedtable:end -->", lambda _: "<!-- seedtable:begin -->\n" + txt + "<!-- seedtable:end -->", s, flags=re.S)
open(p, "w").write(s)
print(len(rows), "rows")
