#!/usr/bin/env python3
"""seedmatrix.py -- collects /tmp/seedout/matrix/*.txt (every check against every seed, run with
tools/mutcheck.sh on isolated copies) into /verif/seeded/MATRIX.json:  seed -> property -> R | N | -
(R = VIOLATION with a concrete replay, N = VIOLATION ... no-failing-input-found, - = exit 0)."""
import glob, json, os, re
out = {}
for f in sorted(glob.glob("/tmp/seedout/matrix/C??_m?.txt")):
    tag = os.path.basename(f)[:-4]
    cur, row = None, {}
    for l in open(f):
        m = re.match(r"=== (C\d\d)$", l.strip())
        if m:
            cur = m.group(1); row[cur] = "-"
        elif l.startswith("VIOLATION") and cur:
            if "no-failing-input-found" in l:
                if row[cur] == "-": row[cur] = "N"
            else:
                row[cur] = "R"
    out[tag] = row
json.dump(out, open("/verif/seeded/MATRIX.json", "w"), indent=0, sort_keys=True)
props = [f"C{i:02d}" for i in range(1, 21)]
print("seed     " + " ".join(p[1:] for p in props))
for tag, row in sorted(out.items()):
    print(f"{tag:8s} " + " ".join(f"{row.get(p, '?'):>2s}" for p in props))
