#!/usr/bin/env python3
"""gen_serde.py -- HashMap histories with serde operations: deserialisation from scripted inputs
(duplicates, claimed size hints from 0 to usize::MAX or absent, an error injected at every
position), round trips of maps with arbitrary histories, and the HashSet visitors."""
import random, sys
from gen_map import Gen, PLANS

HINTS = ["none", "0", "1", "7", "100", "4095", "4096", "4097", "1000000", str((1 << 63) - 1), str((1 << 64) - 1)]

def make_script(rng, name):
    kind = rng.choice(["map-drop", "map-drop", "map-plain"])
    plan = rng.choice(PLANS)
    nkeys = rng.choice([6, 20, 60])
    g = Gen(rng, nkeys, plan, kind)
    g.resync = False
    g.header()
    steps = 0
    length = rng.choice([30, 60])
    while steps < length:
        phase = rng.choice(["fill", "churn", "de", "de", "rt", "set"])
        for _ in range(rng.randrange(1, 8)):
            if phase == "fill":
                g.op_insert(g.absent())
            elif phase == "churn":
                if rng.random() < 0.5 and g.contents:
                    g.op_remove(g.present())
                else:
                    g.op_insert(g.absent())
            elif phase == "de":
                n = rng.choice([0, 1, 3, 8, 20, 40])
                items = []
                for _ in range(n):
                    kk = rng.randrange(max(2, nkeys // 2))          # plenty of duplicates
                    items.append((kk, g.st(), g.val()))
                err = rng.choice(["-", "-", "-"] + [str(p) for p in range(0, n + 2)])
                g.emit(f"serde_de {rng.choice(HINTS)} {err} " + " ".join(f"{k}:{s}:{v}" for k, s, v in items))
                if err == "-" or int(err) > n:
                    new = {}
                    for k, s, v in items:
                        new[k] = (new[k][0] if k in new else s, v)
                    g.contents = new
            elif phase == "rt":
                g.emit("serde_roundtrip")
            else:
                n = rng.choice([0, 1, 5, 12])
                ids = [rng.randrange(8) for _ in range(n)]
                err = rng.choice(["-", "-"] + [str(p) for p in range(0, n + 2)])
                g.emit(f"serde_set {rng.choice(['de', 'inplace'])} {rng.choice(HINTS)} {err} " + " ".join(map(str, ids)))
            steps += 1
    return f"=== {name} plan={plan} nkeys={nkeys}\n" + "\n".join(g.lines) + "\n"

if __name__ == "__main__":
    seed, count = int(sys.argv[1]), int(sys.argv[2])
    rng = random.Random(seed)
    sys.stdout.write("".join(make_script(rng, f"d{seed}_{i}") for i in range(count)))
