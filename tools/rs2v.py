#!/usr/bin/env python3
"""rs2v.py -- translate the pure integer / bit-trick functions of hashbrown from the Rust
source under /repo/src into Gallina (coq/theories/Gen/Gen.v).

The model in Model/*.v imports these definitions instead of restating them, so every theorem
that depends on one of these source expressions is re-checked against what the code says now.

Representation: every Rust integer is a Z; operations that can leave the type's range are
wrapped explicitly with the operand type's width (RsPrelude.wadd/wsub/wmul/wshl/wnot);
newtypes (Tag, BitMask, generic Group) are their inner integer; two-field structs are pairs;
`Option` is `option`; `?` and early `return` become `match`.  Free constants that differ
between scanner back-ends (Group::WIDTH, BITMASK_*) become leading parameters.

Anything outside the subset raises; the caller (hv) reports a broken tie for that function.
"""
import sys, os, re, json, hashlib
sys.path.insert(0, os.path.dirname(os.path.abspath(__file__)))
from rsparse import *

REPO = os.environ.get("HV_REPO", "/repo")

class Unsupported(Exception):
    pass

INT_WIDTH = {"u8": "8", "u16": "16", "u32": "32", "u64": "64", "usize": "64", "i8": "8",
             "i16": "16", "i32": "32", "i64": "64", "isize": "64", "GroupWord": "64",
             "BitMaskWord": "BITMASK_BITS", "Tag": "8", "BitMask": "BITMASK_BITS"}
SIGNED = {"i8", "i16", "i32", "i64", "isize"}

# struct name -> ordered field list (two-field structs become Coq pairs)
STRUCTS = {"ProbeSeq": ["pos", "stride"], "TableLayout": ["size", "ctrl_align"]}
FIELD_OWNER = {f: s for s, fs in STRUCTS.items() for f in fs}

class Ctx:
    """Per-definition translation context."""
    def __init__(self, unit, fname):
        self.unit = unit            # the Unit (file-level config) being translated
        self.fname = fname
        self.env = {}               # rust var -> (gallina name, type)
        self.consts_used = []       # ordered const params used
        self.fresh = 0
        self.ret_ty = None
    def gensym(self, base="t"):
        self.fresh += 1
        return f"{base}_x{self.fresh}"
    def use_const(self, c):
        if c not in self.consts_used:
            self.consts_used.append(c)
        return c

def width_of(ty):
    if ty is None:
        return None
    if isinstance(ty, str):
        return INT_WIDTH.get(ty)
    return None

def norm_ty(s, unit):
    """Rust type string -> internal type: a name in INT_WIDTH, 'bool', ('opt', T), ('pair', A, B),
    ('struct', Name), 'm128' or None (unknown)."""
    if s is None:
        return None
    s = s.strip()
    s = unit.type_alias.get(s, s)
    if s in INT_WIDTH or s == "bool":
        return s
    if s in ("Self",):
        return unit.self_ty
    if s in STRUCTS:
        return ("struct", s)
    m = re.match(r"Option\s*<\s*(.*)\s*>$", s)
    if m:
        return ("opt", norm_ty(m.group(1), unit))
    m = re.match(r"\(\s*(.*)\s*,\s*(.*)\s*\)$", s)
    if m and s.count(",") == 1:
        return ("pair", norm_ty(m.group(1), unit), norm_ty(m.group(2), unit))
    if s in ("x86 :: __m128i", "__m128i"):
        return "m128"
    if s == "Layout":
        return ("pair", "usize", "usize")
    if s == "Group":
        return unit.group_ty
    return None

class Unit:
    """One source file with its translation conventions."""
    def __init__(self, path, prefix, self_ty=None, type_alias=None, group_ty=None,
                 const_params=None, newtypes=None):
        self.path = path
        self.prefix = prefix                   # prefix of generated names
        self.self_ty = self_ty
        self.type_alias = type_alias or {}
        self.group_ty = group_ty
        self.const_params = const_params or [] # names that become leading parameters
        self.newtypes = newtypes or {}         # ctor name -> inner type
        src = open(os.path.join(REPO, "src", path)).read()
        self.src = src
        self.idx = index_items(src)
        self.defs = {}      # rust qualified name -> GenDef

class GenDef:
    def __init__(self, name, consts, params, ret_ty, body, src_hash, origin, self_fields):
        self.name, self.consts, self.params, self.ret_ty = name, consts, params, ret_ty
        self.body, self.src_hash, self.origin, self.self_fields = body, src_hash, origin, self_fields
    def render(self):
        ps = "".join(f" ({p} : Z)" for p in self.consts)
        for (p, t) in self.params:
            ps += f" ({p} : {coq_ty(t)})"
        return (f"(* {self.origin}  [src-hash {self.src_hash}] *)\n"
                f"Definition {self.name}{ps} : {coq_ty(self.ret_ty)} :=\n  {self.body}.\n")

def coq_ty(t):
    if t is None:
        return "Z"
    if t == "bool":
        return "bool"
    if t == "m128":
        return "list Z"
    if isinstance(t, str):
        return "Z"
    if t[0] == "opt":
        return f"option ({coq_ty(t[1])})"
    if t[0] == "pair":
        return f"({coq_ty(t[1])} * {coq_ty(t[2])})"
    if t[0] == "struct":
        return "(Z * Z)"
    if t[0] == "unit":
        return "unit"
    raise Unsupported(f"coq_ty {t}")

ALL_UNITS = {}

class Translator:
    def __init__(self, unit):
        self.u = unit

    # ---------------------------------------------------------------- expressions
    def lit(self, n):
        return f"{n}" if n >= 0 else f"({n})"

    def pure(self, e, cx, want=None):
        """Translate an effect-free expression; returns (term, type)."""
        r = []
        def k(t, ty):
            r.append((t, ty))
            return "<<K>>"
        out = self.tr(e, cx, k, want)
        if out != "<<K>>" or len(r) != 1:
            raise Unsupported("expression with control effects in pure position")
        return r[0]

    def tr(self, e, cx, k, want=None):
        """CPS translation: k(term, type) -> gallina string for the rest."""
        kind = e[0]
        if kind == "paren":
            return self.tr(e[1], cx, lambda t, ty: k(f"({t})" if not t.startswith("(") else t, ty), want)
        if kind == "num":
            ty = want if width_of(want) else None
            m = re.search(r"([ui](?:8|16|32|64|size))$", e[2])
            if m and not e[2].startswith("0x"):
                ty = m.group(1)
            elif m and e[2].startswith("0x") and not re.search(r"[0-9a-fA-F]$", e[2][:-len(m.group(1))] or "0"):
                ty = m.group(1)
            return k(self.lit(e[1]), ty)
        if kind == "bool":
            return k("true" if e[1] else "false", "bool")
        if kind == "path":
            return self.tr_path(e, cx, k, want)
        if kind == "unop":
            op = e[1]
            def k1(t, ty):
                if op == "!":
                    if ty == "bool":
                        return k(f"(negb {t})", "bool")
                    w = width_of(ty) or width_of(want)
                    if w is None:
                        raise Unsupported("`!` on value of unknown width")
                    return k(f"(wnot {self.wref(w, cx)} {t})", ty or want)
                if op == "-":
                    return k(f"(- {t})", ty)
                raise Unsupported(op)
            return self.tr(e[2], cx, k1, want)
        if kind == "binop":
            return self.tr_binop(e, cx, k, want)
        if kind == "cast":
            return self.tr_cast(e, cx, k)
        if kind == "try":
            def k1(t, ty):
                if not (isinstance(ty, tuple) and ty[0] == "opt"):
                    raise Unsupported("`?` on non-Option")
                v = cx.gensym("q")
                return f"match {t} with\n  | None => None\n  | Some {v} => {k(v, ty[1])}\n  end"
            return self.tr(e[1], cx, k1)
        if kind == "block":
            return self.tr_block(e, cx, k, want)
        if kind == "if":
            return self.tr_if(e, cx, k, want)
        if kind == "iflet":
            return self.tr_iflet(e, cx, k, want)
        if kind == "match":
            return self.tr_match(e, cx, k, want)
        if kind == "tuple":
            if len(e[1]) == 0:
                return k("tt", ("unit",))
            if len(e[1]) != 2:
                raise Unsupported("tuple arity")
            return self.tr(e[1][0], cx, lambda a, ta: self.tr(e[1][1], cx, lambda b, tb: k(f"({a}, {b})", ("pair", ta, tb))))
        if kind == "struct":
            name = e[1][-1]
            if name == "Self":
                name = self.u.self_ty[1] if isinstance(self.u.self_ty, tuple) else name
            if name not in STRUCTS:
                raise Unsupported(f"struct literal {name}")
            fs = dict(e[2])
            f1, f2 = STRUCTS[name]
            return self.tr(fs[f1], cx, lambda a, ta: self.tr(fs[f2], cx, lambda b, tb: k(f"({a}, {b})", ("struct", name)), "usize"), "usize")
        if kind == "return":
            # value returned directly: abandon k
            if e[1] is None:
                return "tt"
            return self.tr(e[1], cx, lambda t, ty: t, cx.ret_ty)
        if kind == "call":
            return self.tr_call(e, cx, k, want)
        if kind == "mcall":
            return self.tr_mcall(e, cx, k, want)
        if kind == "field":
            return self.tr_field(e, cx, k, want)
        if kind == "macro":
            if e[1] == "cfg":
                return k("false", "bool")           # cfg!(target_arch = "arm") etc.: not this target
            if e[1] in ("panic", "unreachable"):
                raise Unsupported("panic in expression position")
            raise Unsupported(f"macro {e[1]}!")
        if kind == "array_rep":
            # [b; N] only as argument of from_ne_bytes: handled there
            raise Unsupported("array repeat outside from_ne_bytes")
        raise Unsupported(f"expression kind {kind}")

    def wref(self, w, cx):
        if w in ("BITMASK_BITS",):
            cx.use_const(w)
        return w

    def tr_path(self, e, cx, k, want):
        path = e[1]
        name = "::".join(path)
        if len(path) == 1 and path[0] in cx.env:
            g, ty = cx.env[path[0]]
            return k(g, ty)
        if name in ("Group::WIDTH", "Self::WIDTH") :
            if "Group::WIDTH" in self.u.defs:
                return k(self.u.defs["Group::WIDTH"].name, "usize")
            return k(cx.use_const("GW"), "usize")
        if len(path) == 1 and path[0] in self.u.const_params:
            c = path[0]
            ty = {"BITMASK_STRIDE": "usize"}.get(c, "BitMaskWord")
            ty = self.u.type_alias.get(ty, ty)
            return k(cx.use_const(c), ty)
        if name in ("isize::MAX",):
            return k("isize_max", "isize")
        if name in ("usize::MAX", "u64::MAX"):
            return k("usize_max", path[0])
        if name in ("Tag::EMPTY", "Tag::DELETED"):
            return k("tag_" + path[1], "Tag")
        if name == "None":
            return k("None", want if isinstance(want, tuple) else ("opt", None))
        # constants of this unit
        if len(path) == 1 and path[0] in self.u.idx["consts"]:
            d = self.u.defs.get(path[0])
            if d is None:
                raise Unsupported(f"constant {path[0]} not translated yet")
            for c in d.consts:
                cx.use_const(c)
            args = "".join(" " + c for c in d.consts)
            return k(f"({d.name}{args})" if args else d.name, d.ret_ty)
        raise Unsupported(f"path {name}")

    def tr_binop(self, e, cx, k, want):
        op, a, b = e[1], e[2], e[3]
        if op in ("&&", "||"):
            def ka(ta, tya):
                # constant folding of cfg!()
                if ta == "false" and op == "&&":
                    return k("false", "bool")
                return self.tr(b, cx, lambda tb, tyb: k(f"({'andb' if op == '&&' else 'orb'} {ta} {tb})", "bool"), "bool")
            return self.tr(a, cx, ka, "bool")
        cmpops = {"==": "Z.eqb", "!=": None, "<": "Z.ltb", "<=": "Z.leb", ">": "Z.gtb", ">=": "Z.geb"}
        def ka(ta, tya):
            def kb(tb, tyb):
                ty = tya if (tya is not None and tya != ("opt", None)) else tyb
                if op in cmpops:
                    if ty == "bool":
                        t = f"(Bool.eqb {ta} {tb})"
                        return k(t if op == "==" else f"(negb {t})", "bool")
                    if re.fullmatch(r"\d+", ta) and re.fullmatch(r"\d+", tb):
                        x, y = int(ta), int(tb)
                        v = {"==": x == y, "!=": x != y, "<": x < y, "<=": x <= y, ">": x > y, ">=": x >= y}[op]
                        return k("true" if v else "false", "bool")
                    if op == "!=":
                        return k(f"(negb (Z.eqb {ta} {tb}))", "bool")
                    return k(f"({cmpops[op]} {ta} {tb})", "bool")
                w = width_of(ty) or width_of(want)
                rty = ty if width_of(ty) else want
                if op in ("+", "-", "*", "<<"):
                    if w is None:
                        # two literals
                        if a[0] == "num" and b[0] == "num":
                            v = {"+": a[1] + b[1], "-": a[1] - b[1], "*": a[1] * b[1], "<<": a[1] << b[1]}[op]
                            return k(self.lit(v), None)
                        raise Unsupported(f"`{op}` on values of unknown width in {cx.fname}")
                    f = {"+": "wadd", "-": "wsub", "*": "wmul", "<<": "wshl"}[op]
                    return k(f"({f} {self.wref(w, cx)} {ta} {tb})", rty)
                f = {"/": "Z.div", "%": "Z.modulo", "&": "Z.land", "|": "Z.lor", "^": "Z.lxor", ">>": "Z.shiftr"}[op]
                return k(f"({f} {ta} {tb})", rty)
            # type hint for the right operand: for shifts none, otherwise the left type
            return self.tr(b, cx, kb, None if op in ("<<", ">>") else (tya if width_of(tya) else want))
        hint = want if op not in cmpops else None
        # if the left operand is a literal, try to type it from the right one
        if a[0] == "num" and op not in ("<<", ">>"):
            tb, tyb = None, None
            try:
                tb, tyb = self.pure(b, cx, hint)
            except Unsupported:
                pass
            if tyb is not None:
                hint = tyb
        return self.tr(a, cx, ka, hint)

    def tr_cast(self, e, cx, k):
        ty = self.u.type_alias.get(e[2], e[2])
        def k1(t, src):
            if src == "bool":
                return k(f"(bool_to_Z {t})", ty)
            ws, wd = width_of(src), width_of(ty)
            if wd is None:
                raise Unsupported(f"cast to {ty}")
            if ty in SIGNED and src not in SIGNED:
                if ws == wd:
                    return k(f"(to_signed {wd} {t})", ty)
                if ws is not None and ws.isdigit() and wd.isdigit() and int(ws) < int(wd):
                    return k(t, ty)
                raise Unsupported(f"cast {src} -> {ty}")
            if src in SIGNED and ty not in SIGNED:
                return k(f"(wrap {self.wref(wd, cx)} {t})", ty)
            if ws is not None and ws.isdigit() and wd.isdigit() and int(ws) <= int(wd):
                return k(t, ty)
            if ws is not None and ws == wd:
                return k(t, ty)
            return k(f"(wrap {self.wref(wd, cx)} {t})", ty)
        return self.tr(e[1], cx, k1, ty if e[1][0] == "num" else None)

    def tr_block(self, e, cx, k, want):
        stmts, tail = e[1], e[2]
        saved = dict(cx.env)
        def go(i):
            if i == len(stmts):
                if tail is None:
                    return k("tt", ("unit",))
                return self.tr(tail, cx, k, want)
            s = stmts[i]
            if s[0] == "let":
                return self.tr_let(s, cx, lambda: go(i + 1))
            if s[0] == "assign":
                return self.tr_assign(s, cx, lambda: go(i + 1))
            if s[0] == "expr":
                ex = s[1]
                if ex[0] == "macro" and ex[1].startswith("debug_assert"):
                    return go(i + 1)
                if ex[0] == "if" and ex[3] is None and self.block_returns(ex[2]):
                    # early return:  if c { ...; return E; }  rest
                    def kc(tc, _):
                        env2 = dict(cx.env)
                        th = self.tr(ex[2], cx, lambda t, ty: t, cx.ret_ty)
                        cx.env = dict(env2)
                        rest = go(i + 1)
                        cx.env = env2
                        if tc == "false":
                            return rest
                        return f"if {tc} then {th}\n  else {rest}"
                    return self.tr(ex[1], cx, kc, "bool")
                if ex[0] == "mcall" and self.is_skipped_call(ex):
                    return go(i + 1)
                if ex[0] == "if" and ex[3] is None and ex[2][0] == "block" and ex[2][2] is None and \
                        all(st[0] == "expr" and st[1][0] == "mcall" and self.is_skipped_call(st[1]) for st in ex[2][1]):
                    return go(i + 1)
                if ex[0] == "return":
                    return self.tr(ex, cx, k, want)
                raise Unsupported(f"statement expression {ex[0]} in {cx.fname}")
            raise Unsupported(s[0])
        out = go(0)
        cx.env = saved if False else cx.env
        return out

    def is_skipped_call(self, ex):
        return ex[2] in self.u_skip

    u_skip = set()

    def block_returns(self, blk):
        if blk[0] != "block":
            return False
        if blk[2] is not None and blk[2][0] == "return":
            return True
        return bool(blk[1]) and blk[1][-1][0] == "expr" and blk[1][-1][1][0] == "return"

    def bind_pat(self, pat, term, ty, cx, body_thunk):
        if pat[0] == "pid":
            g = self.fresh_name(pat[1], cx)
            cx.env[pat[1]] = (g, ty)
            return f"let {g} := {term} in\n  {body_thunk()}"
        if pat[0] == "pwild":
            return body_thunk()
        if pat[0] == "ptuple" and len(pat[1]) == 2:
            t1 = ty[1] if isinstance(ty, tuple) and ty[0] == "pair" else None
            t2 = ty[2] if isinstance(ty, tuple) and ty[0] == "pair" else None
            names = []
            for p, t in zip(pat[1], (t1, t2)):
                if p[0] == "pwild":
                    names.append("_")
                elif p[0] == "pid":
                    g = self.fresh_name(p[1], cx)
                    cx.env[p[1]] = (g, t)
                    names.append(g)
                else:
                    raise Unsupported("nested pattern")
            return f"let '({names[0]}, {names[1]}) := {term} in\n  {body_thunk()}"
        if pat[0] == "pstruct":
            sname = pat[1][-1]
            fs = STRUCTS.get(sname)
            if not fs:
                raise Unsupported(f"struct pattern {sname}")
            names = []
            pm = dict(pat[2])
            for f in fs:
                p = pm.get(f, ("pwild",))
                if p[0] == "pwild":
                    names.append("_")
                else:
                    g = self.fresh_name(p[1], cx)
                    cx.env[p[1]] = (g, "usize")
                    names.append(g)
            return f"let '({names[0]}, {names[1]}) := {term} in\n  {body_thunk()}"
        raise Unsupported(f"let pattern {pat[0]}")

    def fresh_name(self, base, cx):
        used = {g for (g, _) in cx.env.values()}
        g = base
        n = 0
        while g in used or g in RESERVED:
            n += 1
            g = f"{base}_{n}"
        return g

    def tr_let(self, s, cx, rest):
        _, pat, ty, ex = s
        nty = norm_ty(ty, self.u)
        if pat[0] == "pid" and pat[1] in self.u_skip_lets:
            return rest()
        if ex[0] == "closure":
            # local function
            params = []
            saved = dict(cx.env)
            for (p, pty) in ex[1]:
                g = self.fresh_name(p[1], cx)
                cx.env[p[1]] = (g, norm_ty(pty, self.u))
                params.append(g)
            body, bty = self.pure(ex[2], cx)
            cx.env = saved
            g = self.fresh_name(pat[1], cx)
            cx.env[pat[1]] = (g, ("fun", bty))
            ps = " ".join(f"({p} : Z)" for p in params)
            return f"let {g} := fun {ps} => {body} in\n  {rest()}"
        return self.tr(ex, cx, lambda t, tty: self.bind_pat(pat, t, nty or tty, cx, rest), nty)

    u_skip_lets = set()

    def tr_assign(self, s, cx, rest):
        _, op, lhs, rhs = s
        key = self.lvalue_key(lhs)
        if key not in cx.env:
            raise Unsupported(f"assignment to unknown {key}")
        g, ty = cx.env[key]
        if op == "=":
            new = rhs
        else:
            new = ("binop", op[:-1], lhs, rhs)
        def k1(t, tty):
            g2 = self.fresh_name(g.rstrip("'") + "'", cx) if False else self.next_version(g, cx)
            cx.env[key] = (g2, ty)
            cx.mutated.add(key)
            return f"let {g2} := {t} in\n  {rest()}"
        return self.tr(new, cx, k1, ty)

    def next_version(self, g, cx):
        used = {x for (x, _) in cx.env.values()}
        base = re.sub(r"_v\d+$", "", g)
        n = 1
        while f"{base}_v{n}" in used:
            n += 1
        return f"{base}_v{n}"

    def lvalue_key(self, e):
        if e[0] == "path" and len(e[1]) == 1:
            return e[1][0]
        if e[0] == "field" and e[1][0] == "path" and len(e[1][1]) == 1:
            return f"{e[1][1][0]}.{e[2]}"
        raise Unsupported("lvalue")

    def tr_field(self, e, cx, k, want):
        base, f = e[1], e[2]
        okey = self.opaque_key(e)
        if okey is not None and okey in self.opaque and self.opaque[okey] is not None:
            g, ty = self.opaque[okey]
            if g not in [p for p, _ in cx.extra_params]:
                cx.extra_params.append((g, ty))
            return k(g, ty)
        if base[0] == "path" and len(base[1]) == 1:
            key = f"{base[1][0]}.{f}"
            if key in cx.env:
                g, ty = cx.env[key]
                return k(g, ty)
            if base[1][0] == "self" and f not in ("0",):
                # a self field first seen here: becomes a parameter
                return k(self.self_field(f, cx), cx.env[f"self.{f}"][1])
        if base[0] == "field" and base[1][0] == "path" and base[1][1] == ["self"] and f"self.{base[2]}.{f}" in cx.env:
            g, ty = cx.env[f"self.{base[2]}.{f}"]
            return k(g, ty)
        if base[0] == "field" and base[1][0] == "path" and base[1][1] == ["self"]:
            # self.table.items  ->  parameter self_items (HashMap/RawTable wrappers around the inner table)
            return k(self.self_field(f, cx), "usize")
        def k1(t, ty):
            if f == "0":
                # newtype projection
                inner = {"Tag": "u8", "BitMask": self.u.type_alias.get("BitMaskWord", "BitMaskWord")}.get(ty, ty)
                if isinstance(ty, tuple) and ty[0] == "struct":
                    raise Unsupported(".0 on struct")
                return k(t, inner)
            if isinstance(ty, tuple) and ty[0] == "struct":
                fs = STRUCTS[ty[1]]
                return k(f"({'fst' if fs.index(f) == 0 else 'snd'} {t})", "usize")
            if isinstance(ty, tuple) and ty[0] == "pair" and f in ("0", "1"):
                return k(f"({'fst' if f == '0' else 'snd'} {t})", ty[1 + int(f)])
            if f in FIELD_OWNER:
                fs = STRUCTS[FIELD_OWNER[f]]
                return k(f"({'fst' if fs.index(f) == 0 else 'snd'} {t})", "usize")
            raise Unsupported(f"field .{f} of {ty}")
        return self.tr(base, cx, k1)

    def self_field(self, f, cx):
        key = f"self.{f}"
        if key not in cx.env:
            g = f"self_{f}"
            cx.env[key] = (g, "usize")
            cx.self_fields.append(f)
        return cx.env[key][0]

    def tr_if(self, e, cx, k, want):
        c, th, el = e[1], e[2], e[3]
        if el is None:
            raise Unsupported("if without else in expression position")
        def kc(tc, _):
            if tc == "false":
                return self.tr(el, cx, k, want)
            if tc == "true":
                return self.tr(th, cx, k, want)
            env0 = dict(cx.env)
            # both branches effect-free single expressions: keep it an expression
            def simple(b):
                return b[0] != "block" or (not b[1] and b[2] is not None)
            if simple(th) and simple(el):
                try:
                    ta, tya = self.pure(th[2] if th[0] == "block" else th, cx, want)
                    cx.env = dict(env0)
                    tb, tyb = self.pure(el[2] if el[0] == "block" else el, cx, want)
                    cx.env = env0
                    return k(f"(if {tc} then {ta} else {tb})", tya if tya is not None else tyb)
                except Unsupported:
                    cx.env = dict(env0)
            a = self.tr(th, cx, k, want)
            cx.env = dict(env0)
            b = self.tr(el, cx, k, want)
            cx.env = env0
            return f"if {tc} then {a}\n  else {b}"
        return self.tr(c, cx, kc, "bool")

    def tr_iflet(self, e, cx, k, want):
        pat, ex, th, el = e[1], e[2], e[3], e[4]
        if not (pat[0] == "pctor" and pat[1][-1] == "Some" and len(pat[2]) == 1 and pat[2][0][0] == "pid"):
            raise Unsupported("if let pattern")
        var = pat[2][0][1]
        def k1(t, ty):
            inner = ty[1] if isinstance(ty, tuple) and ty[0] == "opt" else None
            env0 = dict(cx.env)
            g = self.fresh_name(var, cx)
            cx.env[var] = (g, inner)
            a = self.tr(th, cx, k, want)
            cx.env = dict(env0)
            b = self.tr(el, cx, k, want) if el is not None else k("tt", ("unit",))
            cx.env = env0
            return f"match {t} with\n  | Some {g} => {a}\n  | None => {b}\n  end"
        return self.tr(ex, cx, k1)

    def tr_match(self, e, cx, k, want):
        scrut, arms = e[1], e[2]
        # match on a tuple of integers with literal / range patterns
        if scrut[0] == "tuple":
            parts = [self.pure(x, cx, "usize") for x in scrut[1]]
            def cond(p, term):
                if p[0] == "pwild" or p[0] == "pid":
                    return None
                if p[0] == "pnum":
                    return f"(Z.eqb {term} {p[1]})"
                if p[0] == "prange":
                    return f"(andb (Z.leb {p[1]} {term}) (Z.leb {term} {p[2]}))"
                raise Unsupported("tuple match pattern")
            def go(i):
                pat, guard, body = arms[i]
                if guard is not None:
                    raise Unsupported("match guard")
                env0 = dict(cx.env)
                if pat[0] == "pwild":
                    r = self.tr(body, cx, k, want)
                    cx.env = env0
                    return r
                if pat[0] != "ptuple":
                    raise Unsupported("match pattern")
                cs = [c for c in (cond(p, t) for p, (t, _) in zip(pat[1], parts)) if c]
                ctest = cs[0] if len(cs) == 1 else "(" + " && ".join(cs) + ")%bool"
                if not cs:
                    return self.tr(body, cx, k, want)
                if i + 1 >= len(arms):
                    raise Unsupported("non-exhaustive literal match")
                a = self.tr(body, cx, k, want)
                cx.env = dict(env0)
                b = go(i + 1)
                cx.env = env0
                return f"if {ctest} then {a}\n  else {b}"
            return go(0)
        # match on Option:  Some(x) => .., None => ..
        def k1(t, ty):
            some = none = None
            for pat, guard, body in arms:
                if pat[0] == "pctor" and pat[1][-1] == "Some":
                    some = (pat[2][0], body)
                elif (pat[0] == "ppath" and pat[1][-1] == "None") or pat[0] == "pwild":
                    none = body
                else:
                    raise Unsupported(f"match arm pattern {pat}")
            if some is None or none is None:
                raise Unsupported("match on non-Option")
            inner = ty[1] if isinstance(ty, tuple) and ty[0] == "opt" else None
            env0 = dict(cx.env)
            if some[0][0] == "pid":
                g = self.fresh_name(some[0][1], cx)
                cx.env[some[0][1]] = (g, inner)
            else:
                g = "_"
            a = self.tr(some[1], cx, k, want)
            cx.env = dict(env0)
            b = self.tr(none, cx, k, want)
            cx.env = env0
            return f"match {t} with\n  | Some {g} => {a}\n  | None => {b}\n  end"
        return self.tr(scrut, cx, k1)

    # ---------------------------------------------------------------- calls
    def tr_args(self, args, cx, k, hints=None):
        out = []
        def go(i):
            if i == len(args):
                return k(out)
            h = hints[i] if hints and i < len(hints) else None
            return self.tr(args[i], cx, lambda t, ty: (out.append((t, ty)), go(i + 1))[1], h)
        return go(0)

    def call_def(self, d, self_args, args, cx, k):
        cargs = []
        for c in d.consts:
            if c in self.u.defs and not self.u.defs[c].params and not self.u.defs[c].consts:
                cargs.append(self.u.defs[c].name)          # this unit fixes the constant
            elif c in getattr(self.u, "const_values", {}):
                cargs.append(self.u.const_values[c])
            else:
                cargs.append(cx.use_const(c))
        allargs = cargs + self_args + [a for (a, _) in args]
        return k("(" + " ".join([d.name] + allargs) + ")", d.ret_ty)

    def tr_call(self, e, cx, k, want):
        fn, args = e[1], e[2]
        if fn[0] == "path":
            path = fn[1]
            name = "::".join(path)
            targs = fn[2] if len(fn) > 2 else []
            # local closure
            if len(path) == 1 and path[0] in cx.env and isinstance(cx.env[path[0]][1], tuple) and cx.env[path[0]][1][0] == "fun":
                g, fty = cx.env[path[0]]
                return self.tr_args(args, cx, lambda as_: k("(" + " ".join([g] + [a for a, _ in as_]) + ")", fty[1]))
            if name == "Some":
                return self.tr(args[0], cx, lambda t, ty: k(f"(Some {t})", ("opt", ty)),
                               want[1] if isinstance(want, tuple) and want[0] == "opt" else None)
            if name in ("Ok",):
                return self.tr(args[0], cx, k, want)
            if name in self.u.newtypes or (len(path) == 1 and path[0] in ("Tag", "BitMask", "Group", "BitMaskIter")):
                ctor = path[-1]
                inner = self.u.newtypes.get(ctor, {"Tag": "u8"}.get(ctor))
                return self.tr(args[0], cx, lambda t, ty: k(t, {"Tag": "Tag", "BitMask": "BitMask", "Group": self.u.group_ty}.get(ctor, ty)), inner)
            if name in ("usize::max", "cmp::max", "core::cmp::max"):
                return self.tr_args(args, cx, lambda a: k(f"(Z.max {a[0][0]} {a[1][0]})", a[0][1] or a[1][1]), ["usize", "usize"])
            if name in ("usize::min", "cmp::min", "core::cmp::min"):
                return self.tr_args(args, cx, lambda a: k(f"(Z.min {a[0][0]} {a[1][0]})", a[0][1] or a[1][1]), ["usize", "usize"])
            if name == "usize::from":
                return self.tr(args[0], cx, lambda t, ty: k(f"(bool_to_Z {t})" if ty == "bool" else t, "usize"))
            if name in ("mem::size_of", "core::mem::size_of", "size_of"):
                ta = targs[0] if targs else ""
                if ta in ("usize", "u64"):
                    return k("8", "usize")
                if ta == "Self" and getattr(self.u, "self_size", None) is not None:
                    return k(str(self.u.self_size), "usize")
                raise Unsupported(f"size_of::<{ta}>")
            if name.endswith("from_ne_bytes") and args[0][0] == "array_rep":
                b, n = args[0][1], args[0][2]
                ty = path[0]
                ty = self.u.type_alias.get(ty, ty)
                return self.tr(b, cx, lambda tb, _: self.tr(n, cx, lambda tn, __: k(f"(repeat_byte {tn} {tb})", ty), "usize"), "u8")
            if re.fullmatch(r"NonZero\w*::new", name):
                return self.tr(args[0], cx, lambda t, ty: k(f"(if Z.eqb {t} 0 then None else Some {t})", ("opt", ty)))
            if name == "Layout::from_size_align_unchecked":
                return self.tr_args(args, cx, lambda a: k(f"({a[0][0]}, {a[1][0]})", ("pair", "usize", "usize")))
            if name.startswith("x86::_mm_"):
                intr = path[-1][1:]
                return self.tr_args(args, cx, lambda a: k("(" + " ".join([intr] + [x for x, _ in a]) + ")",
                                                        "i32" if intr == "mm_movemask_epi8" else "m128"))
            if name in self.marker_calls:
                ctor = self.marker_calls[name]
                return self.tr_args(args, cx, lambda a: k("(" + " ".join([ctor] + [x for x, _ in a]) + ")" if a else ctor, ("marker",)))
            # a function of some translated unit
            for u in [self.u] + [x for x in ALL_UNITS.values() if x is not self.u]:
                cand = [name, path[-1], f"Self::{path[-1]}"]
                if len(path) == 2 and path[0] == "Self" and u.self_name:
                    cand.append(f"{u.self_name}::{path[1]}")
                if len(path) == 2:
                    cand.append(name)
                for c in cand:
                    if c in u.defs:
                        d = u.defs[c]
                        return self.tr_args(args, cx, lambda a: self.call_def(d, [], self.flatten_args(a, d), cx, k),
                                            [t for (_, t) in d.params])
            raise Unsupported(f"call to {name}")
        raise Unsupported("call of non-path")

    marker_calls = {}

    def flatten_args(self, a, d):
        return a

    def tr_mcall(self, e, cx, k, want):
        recv, name, args = e[1], e[2], e[3]
        targs = e[4] if len(e) > 4 else None
        # opaque substitutions: `x.method()` -> free variable
        key = self.opaque_key(e)
        if key is not None and key in self.opaque:
            g, ty = self.opaque[key]
            if g not in [p for p, _ in cx.extra_params]:
                cx.extra_params.append((g, ty))
            return k(g, ty)
        # methods on self of this unit (translated earlier)
        if recv[0] == "path" and recv[1] == ["self"]:
            q = f"{self.u.self_name}::{name}"
            if q in self.u.defs:
                d = self.u.defs[q]
                sargs = []
                for f in d.self_fields:
                    if f == "0":
                        sargs.append(cx.env["self.0"][0])
                    else:
                        sargs.append(self.self_field(f, cx))
                return self.tr_args(args, cx, lambda a: self.call_def(d, sargs, a, cx, k), [t for (_, t) in d.params[len(d.self_fields):]])
            if name in ("buckets",):
                return k(f"(wadd 64 {self.self_field('bucket_mask', cx)} 1)", "usize")
        def kr(t, ty):
            w = width_of(ty)
            def two(fmt, rty=None, hint=None):
                return self.tr(args[0], cx, lambda a, ta: k(fmt.format(w=self.wref(width_of(ty) or width_of(ta) or "64", cx), t=t, a=a),
                                                            rty if rty is not None else (ty if width_of(ty) else ta)), hint or ty)
            if name == "checked_mul":
                return two("(checked_mul {w} {t} {a})", ("opt", ty))
            if name == "checked_add":
                return two("(checked_add {w} {t} {a})", ("opt", ty))
            if name == "wrapping_sub":
                return two("(wsub {w} {t} {a})")
            if name == "wrapping_add":
                return two("(wadd {w} {t} {a})")
            if name == "saturating_sub":
                return two("(saturating_sub {t} {a})")
            if name == "saturating_add":
                return two("(saturating_add {w} {t} {a})")
            if name == "max":
                return two("(Z.max {t} {a})")
            if name == "min":
                return two("(Z.min {t} {a})")
            if name == "unwrap_or":
                inner = ty[1] if isinstance(ty, tuple) and ty[0] == "opt" else None
                return self.tr(args[0], cx, lambda a, ta: k(f"(unwrap_or {t} {a})", inner or ta), inner or "usize")
            if name == "next_power_of_two":
                return k(f"(next_power_of_two {self.wref(w, cx)} {t})", ty)
            if name == "is_power_of_two":
                return k(f"(is_power_of_two {t})", "bool")
            if name == "trailing_zeros":
                if ty in ("BitMask",):
                    pass
                else:
                    return k(f"(trailing_zeros {self.wref(w, cx)} {t})", "u32")
            if name == "leading_zeros":
                if ty in ("BitMask",):
                    pass
                else:
                    return k(f"(leading_zeros {self.wref(w, cx)} {t})", "u32")
            if name in ("to_le", "get"):
                return k(t, ty)          # little-endian target (trusted base)
            if name == "is_some":
                return k(f"(match {t} with Some _ => true | None => false end)", "bool")
            if name == "is_none":
                return k(f"(match {t} with Some _ => false | None => true end)", "bool")
            # method of a translated newtype (BitMask / Tag) applied to a value
            for u in ALL_UNITS.values():
                for owner in ("BitMask", "Tag", "Group"):
                    q = f"{owner}::{name}"
                    if q in u.defs and (ty == owner or (owner == "Group" and ty == u.group_ty and u is self.u)
                                         or (owner == "BitMask" and ty in ("BitMask", "BitMaskWord", u.type_alias.get("BitMaskWord")))):
                        d = u.defs[q]
                        return self.tr_args(args, cx, lambda a: self.call_def(d, [t], a, cx, k))
            raise Unsupported(f"method .{name}() on {ty} in {cx.fname}")
        return self.tr(recv, cx, kr)

    opaque = {}

    def opaque_key(self, e):
        try:
            return self.expr_text(e)
        except Exception:
            return None

    def expr_text(self, e):
        if e[0] == "path":
            return "::".join(e[1])
        if e[0] == "field":
            return self.expr_text(e[1]) + "." + e[2]
        if e[0] == "mcall":
            return self.expr_text(e[1]) + "." + e[2] + "(" + ",".join(self.expr_text(a) for a in e[3]) + ")"
        if e[0] == "num":
            return str(e[1])
        raise Unsupported("text")

RESERVED = {"end", "at", "in", "as", "fix", "fun", "let", "match", "with", "if", "then", "else", "return", "Type", "Set", "Prop", "mod", "using", "where", "for", "forall", "exists", "cofix"}

# ---------------------------------------------------------------------------------------------
# driving the translation of one function
# ---------------------------------------------------------------------------------------------

def src_hash(toks):
    return hashlib.sha256(" ".join(t.v for t in toks).encode()).hexdigest()[:12]

def translate_fn(unit, qual, out_name, opaque=None, skip_calls=(), skip_lets=(), ret_fields=None,
                 self_fields_ty=None, extract=None, param_ty=None, markers=None, ret_ty=None):
    """Translate function `qual` of `unit` into a GenDef named out_name.
       opaque: {"expr text": (gallina var, type)}  sub-expressions replaced by fresh parameters
       ret_fields: for `&mut self` methods, the self fields whose final values are returned (tuple)
       extract: ("let", name) -> translate only the right-hand side of that let (free vars become params)
                ("ifcond", n)  -> the condition of the n-th `if` in the body"""
    it = unit.idx["fns"].get(qual)
    if it is None or it.body_toks is None:
        raise Unsupported(f"function {qual} not found in {unit.path}")
    tr = Translator(unit)
    tr.opaque = opaque or {}
    tr.u_skip = set(skip_calls)
    tr.u_skip_lets = set(skip_lets)
    tr.marker_calls = markers or {}
    cx = Ctx(unit, qual)
    cx.self_fields = []
    cx.extra_params = []
    cx.mutated = set()
    params = []
    for (pn, pt) in it.params:
        if pn == "self":
            if unit.self_inner is not None:
                cx.env["self.0"] = ("self_0", unit.self_inner)
                cx.self_fields.append("0")
            elif isinstance(unit.self_ty, tuple) and unit.self_ty[0] == "struct":
                for f in STRUCTS[unit.self_ty[1]]:
                    cx.env[f"self.{f}"] = (f"self_{f}", "usize")
                    cx.self_fields.append(f)
                cx.env["self"] = (f"(self_{STRUCTS[unit.self_ty[1]][0]}, self_{STRUCTS[unit.self_ty[1]][1]})", unit.self_ty)
            continue
        ty = norm_ty((param_ty or {}).get(pn, pt), unit)
        if isinstance(ty, tuple) and ty[0] == "struct":
            for f in STRUCTS[ty[1]]:
                cx.env[f"{pn}.{f}"] = (f"{pn}_{f}", "usize")
                params.append((f"{pn}_{f}", "usize"))
            cx.env[pn] = (f"({pn}_{STRUCTS[ty[1]][0]}, {pn}_{STRUCTS[ty[1]][1]})", ty)
        elif ty is None and (param_ty is None or pn not in param_ty):
            continue                # parameter outside the subset (allocator, closures...): dropped
        else:
            g = pn if pn not in RESERVED else pn + "_"
            cx.env[pn] = (g, ty)
            params.append((g, ty))
    cx.ret_ty = norm_ty(ret_ty or it.ret, unit)
    body = Parser(it.body_toks).parse_block()
    if extract is not None:
        target = find_extract(body, extract)
        if target is None:
            raise Unsupported(f"{qual}: cannot find {extract}")
        # free variables of the extracted expression become parameters, in order of appearance
        free = []
        collect_free(target, free)
        xparams = []
        for v in free:
            if v.startswith("self."):
                continue
            if v in cx.env:
                if (cx.env[v][0], cx.env[v][1]) not in xparams and "(" not in cx.env[v][0]:
                    xparams.append((cx.env[v][0], cx.env[v][1]))
            elif v[0].islower() and v not in ("self",):
                cx.env[v] = (v, (param_ty or {}).get(v, "usize"))
                xparams.append((v, cx.env[v][1]))
        term, ty = tr.pure(target, cx, cx.ret_ty)
        fields = [f for f in cx.self_fields]
        ps = [(cx.env[f"self.{f}"][0], "usize") for f in fields] + \
             [p for p in xparams if p[0] in term.replace("(", " ").replace(")", " ").split()] + cx.extra_params
        d = GenDef(out_name, list(cx.consts_used), ps, ty, term, src_hash(it.body_toks),
                   f"{unit.path}: {qual} [{extract[0]} {extract[1]}]", fields)
        return d
    if ret_fields:
        # `&mut self` method: result is the tuple of final field values
        def kfinal(t, ty):
            vals = [cx.env[f"self.{f}"][0] for f in ret_fields]
            return vals[0] if len(vals) == 1 else "(" + ", ".join(vals) + ")"
        for f in ret_fields:
            tr.self_field(f, cx)
        term = tr.tr(body, cx, kfinal)
        rty = "usize" if len(ret_fields) == 1 else ("pair", "usize", "usize")
    else:
        res = []
        def kfinal(t, ty):
            res.append(ty)
            return t
        term = tr.tr(body, cx, kfinal, cx.ret_ty)
        rty = cx.ret_ty if cx.ret_ty is not None else (res[0] if res else None)
    fields = list(cx.self_fields)
    ps = []
    for f in fields:
        g, t = cx.env.get(f"self.{f}", (f"self_{f}", "usize"))
        # parameters are named after the *initial* version
        ps.append((f"self_{f}", t))
    ps += params + cx.extra_params
    return GenDef(out_name, list(cx.consts_used), ps, rty, term, src_hash(it.body_toks),
                  f"{unit.path}: {qual}", fields)

def find_extract(body, spec):
    kind, key = spec
    found = []
    def walk(e):
        if not isinstance(e, tuple):
            return
        if e and e[0] == "block":
            for s in e[1]:
                if s[0] == "let":
                    if kind == "let" and s[1][0] == "pid" and s[1][1] == key:
                        found.append(s[3])
                    walk(s[3])
                elif s[0] == "expr":
                    walk(s[1])
                elif s[0] == "assign":
                    walk(s[3])
            if e[2] is not None:
                walk(e[2])
            return
        if e and e[0] == "match" and kind == "matchscrut":
            found.append(e[1])
        if e and e[0] == "mcall" and kind == "callarg" and e[2] == key[0]:
            found.append(e[3][key[1]])
        if e and e[0] == "if":
            if kind == "ifcond":
                found.append(e[1])
            walk(e[1]); walk(e[2])
            if e[3] is not None:
                walk(e[3])
            return
        for x in e[1:]:
            if isinstance(x, tuple):
                walk(x)
            elif isinstance(x, list):
                for y in x:
                    if isinstance(y, tuple):
                        walk(y)
    walk(body)
    if kind == "tuple0":
        tail = body[2]
        if tail is not None and tail[0] == "tuple" and tail[1]:
            return tail[1][0]
        return None
    if kind in ("let", "callarg"):
        return found[0] if found else None
    return found[key] if len(found) > key else None

def collect_free(e, out):
    if not isinstance(e, tuple):
        return
    if e[0] == "path":
        if len(e[1]) == 1:
            if e[1][0] not in out:
                out.append(e[1][0])
        return
    if e[0] == "field" and e[1][0] == "path" and e[1][1] == ["self"]:
        out.append(f"self.{e[2]}")
        return
    if e[0] == "mcall":
        collect_free(e[1], out)
        for a in e[3]:
            collect_free(a, out)
        return
    if e[0] == "call":
        for a in e[2]:
            collect_free(a, out)
        return
    for x in e[1:]:
        if isinstance(x, tuple):
            collect_free(x, out)
        elif isinstance(x, list):
            for y in x:
                if isinstance(y, tuple):
                    collect_free(y, out)

def translate_const(unit, qual, out_name):
    ty, toks = unit.idx["consts"][qual]
    tr = Translator(unit)
    cx = Ctx(unit, qual)
    cx.self_fields, cx.extra_params, cx.mutated = [], [], set()
    e = Parser(list(toks)).parse_expr()
    nty = norm_ty(ty, unit)
    if qual.endswith("::WIDTH"):
        nty = "usize"
    term, t2 = tr.pure(e, cx, nty)
    return GenDef(out_name, list(cx.consts_used), [], nty or t2, term, src_hash(toks), f"{unit.path}: const {qual}", [])


def rehash_guard_fact(unit):
    """Emit `rehash_guard_unconditional : bool` from the token structure of the guard closure in
    RawTableInner::rehash_in_place: true iff the `for i in 0..buckets` loop is NOT nested inside
    `if let Some(drop) = drop`."""
    it = unit.idx["fns"].get("RawTableInner::rehash_in_place")
    if it is None:
        raise Unsupported("rehash_in_place not found")
    toks = it.body_toks
    # find `guard ( self , move | self_ | {`
    start = None
    for i, t in enumerate(toks):
        if t.v == "guard" and toks[i + 1].v == "(":
            start = i + 1
            break
    if start is None:
        raise Unsupported("guard(...) call not found in rehash_in_place")
    end = match_close(toks, start)
    inner = toks[start:end]
    # the closure body
    bi = next(i for i, t in enumerate(inner) if t.v == "{")
    be = match_close(inner, bi)
    body = inner[bi + 1:be]
    depth = 0
    for_depth = None
    iflet_depth = None
    for i, t in enumerate(body):
        if t.v == "{":
            depth += 1
        elif t.v == "}":
            depth -= 1
        elif t.v == "for" and for_depth is None:
            for_depth = (depth, i)
        elif t.v == "if" and body[i + 1].v == "let" and iflet_depth is None and any(x.v == "drop" for x in body[i:i + 10]):
            iflet_depth = (depth, i)
    if for_depth is None:
        raise Unsupported("no for-loop in the rehash guard")
    uncond = iflet_depth is None or for_depth[1] < iflet_depth[1]
    return GenDef("rehash_guard_unconditional", [], [], "bool", "true" if uncond else "false",
                  src_hash(inner), "raw/mod.rs: RawTableInner::rehash_in_place [structure of the unwind guard]", [])
