#!/usr/bin/env python3
"""c16_probes.py -- property C16: the calculus of Model/Marker.v against rustc, and the property's
direct oracle (programs that must not compile).

  python3 c16_probes.py --repo <hashbrown checkout> --work <dir> --tier quick|thorough

1. tools/sigx.py is run on <repo> into a private copy of the Coq files under <work>/coq (so the
   prediction always belongs to the source that is probed); a generated cases.v evaluates, in Coq,
   for every line of Spec/AccessTable.v and every assignment of (Send, Sync) bits to the parameters:
   the calculus' answer, what the access table requires, and the variance of every parameter.
   No rule of the calculus is re-implemented here.
2. hashbrown is built once (cargo, offline) and small programs are compiled against the rlib:
     marker probes    `is_send::<hash_map::IterMut<'static, u8, Rc<u8>>>()`, one per (type, trait,
                      assignment): quick = all-good plus one parameter spoiled at a time in each of
                      the three ways (Rc: neither, Cell: !Sync, SyncNotSend: !Send); thorough = all 4^k
     variance probes  `fn f<'a,'new>(v: X<'a, .., &'static str, ..>) -> X<'a, .., &'new str, ..> { v }`
     borrow probes    a handle (iterator, entry, reference, drain ..) is held across a mutation, a
                      read (for exclusive handles), a drop of the collection, or beyond its scope;
                      each with a twin in which the handle is used up first.
3. one line per disagreement:
     PROBE-FAIL calculus-vs-rustc <type> <details> file=<probe.rs>   the model does not describe rustc
     PROBE-FAIL property <type> <details> file=<probe.rs>            a program that the property says
                                                                     must be rejected compiles
     PROBE-FAIL probe-broken <type> <details> file=<probe.rs>        the probe failed for another reason
   then `STATS probes=<n> rejected=<n> accepted=<n> disagreements=<n>`.  Exit status 0 always."""
import argparse, glob, json, os, re, subprocess, sys, time, shutil
from concurrent.futures import ThreadPoolExecutor

HERE = os.path.dirname(os.path.abspath(__file__))
ROOT = os.path.dirname(HERE)
COQ_SRC = os.path.join(ROOT, "coq", "theories")

CASES_V = r"""
From Coq Require Import String List Bool.
From HB Require Import Gen.GenTypes Model.Marker Spec.AccessTable.
Import ListNotations. Open Scope string_scope.
Definition acc_s (a : access) := match a with NoAccess => "NoAccess" | Shared => "Shared" | UniqRO => "UniqRO" | Exclusive => "Exclusive" | Owning => "Owning" end.
Definition var_s (v : option var) := match v with None => "?" | Some Bi => "Bi" | Some Co => "Co" | Some Contra => "Contra" | Some Inv => "Inv" end.
Definition cases := map (fun r : row =>
  match lookup gen_decls (fst r) with
  | None => (fst r, ([] : list string), ([] : list string), ([] : list (string * string * string)), ([] : list (list (bool * bool) * (bool * bool * bool) * (bool * bool))))
  | Some d =>
    (fst r, d_pub d, d_lts d,
     map (fun pa => (fst pa, acc_s (snd pa), var_s (variance gen_decls (fst r) (fst pa)))) (snd r),
     map (fun bits =>
            let s := bind (d_params d) bits in
            (bits,
             match decl_marks (marks gen_decls FUEL) d bits with
             | None => (false, false, false) | Some m => (true, fst m, snd m) end,
             (forallb (fun pa => send_req (snd pa) (s (fst pa))) (snd r),
              forallb (fun pa => sync_req (snd pa) (s (fst pa))) (snd r))))
         (all_bits (List.length (d_params d))))
  end) access_table.
Set Printing Width 1000000.
Set Printing Depth 10000000.
Eval vm_compute in cases.
"""

PRELUDE = """#![allow(dead_code, unused, deprecated)]
extern crate allocator_api2;
use std::rc::Rc; use std::cell::Cell; use std::ptr::NonNull;
use allocator_api2::alloc::{Allocator, AllocError, Global, Layout};
pub struct SyncNotSend(*const u8); unsafe impl Sync for SyncNotSend {}
macro_rules! alloc { ($n:ident $(<$l:lifetime>)?, $f:ty) => {
  pub struct $n $(<$l>)? ($f);
  unsafe impl $(<$l>)? Allocator for $n $(<$l>)? {
    fn allocate(&self, l: Layout) -> Result<NonNull<[u8]>, AllocError> { Global.allocate(l) }
    unsafe fn deallocate(&self, p: NonNull<u8>, l: Layout) { Global.deallocate(p, l) } } } }
alloc!(ASendOnly, Cell<u8>); alloc!(ASyncOnly, SyncNotSend); alloc!(ANeither, Rc<u8>); alloc!(ALt<'x>, &'x u8);
fn is_send<T: Send>() {} fn is_sync<T: Sync>() {}
"""
PRELUDE_LINES = PRELUDE.count("\n")

# (Send, Sync) -> Rust type
MARK = {(True, True): "u8", (True, False): "Cell<u8>", (False, True): "SyncNotSend", (False, False): "Rc<u8>"}
MARK_A = {(True, True): "Global", (True, False): "ASendOnly", (False, True): "ASyncOnly", (False, False): "ANeither"}


def sh(cmd, cwd=None, env=None, timeout=900):
    p = subprocess.run(cmd, cwd=cwd, env=env, stdout=subprocess.PIPE, stderr=subprocess.PIPE, timeout=timeout)
    return p.returncode, p.stdout.decode(errors="replace"), p.stderr.decode(errors="replace")


# ------------------------------------------------------------------------------------------------
# predictions from Coq
# ------------------------------------------------------------------------------------------------
def coq_cases(repo, work):
    cdir = os.path.join(work, "coq")
    for sub in ("Gen", "Model", "Spec"):
        os.makedirs(os.path.join(cdir, sub), exist_ok=True)
    env = dict(os.environ, HV_REPO=repo)
    rc, out, err = sh([sys.executable, os.path.join(HERE, "sigx.py"), os.path.join(cdir, "Gen", "GenTypes.v")], env=env)
    if rc != 0:
        return None, "sigx.py failed:\n" + out + err
    shutil.copy(os.path.join(COQ_SRC, "Model", "Marker.v"), os.path.join(cdir, "Model", "Marker.v"))
    shutil.copy(os.path.join(COQ_SRC, "Spec", "AccessTable.v"), os.path.join(cdir, "Spec", "AccessTable.v"))
    open(os.path.join(cdir, "cases.v"), "w").write(CASES_V)
    for f in ("Gen/GenTypes.v", "Model/Marker.v", "Spec/AccessTable.v", "cases.v"):
        rc, out, err = sh(["coqc", "-Q", cdir, "HB", "-w", "-all", os.path.join(cdir, f)], cwd=cdir)
        if rc != 0:
            return None, f"coqc {f} failed:\n{out}{err}"
    txt = out[out.index("=") + 1:]
    txt = txt[:txt.rindex("\n     : ")] if "\n     : " in txt else txt[:txt.rindex(": list")]
    txt = txt.replace(";", ",").replace("true", "True").replace("false", "False")
    import ast
    return ast.literal_eval(txt.strip()), None


# ------------------------------------------------------------------------------------------------
# rustc
# ------------------------------------------------------------------------------------------------
class Rust:
    def __init__(self, repo, work):
        self.work = work
        self.target = os.path.join(work, "target")
        self.error = None
        rc, out, err = sh(["cargo", "build", "--offline", "--features", "rayon,raw-entry,rustc-internal-api",
                           "--manifest-path", os.path.join(repo, "Cargo.toml"), "--target-dir", self.target])
        if rc != 0:
            self.error = "cargo build failed:\n" + err[-3000:]
            return
        deps = os.path.join(self.target, "debug", "deps")
        self.args = ["--edition", "2021", "--crate-type", "lib", "--emit=metadata", "--error-format=json",
                     "-L", "dependency=" + deps,
                     "--extern", "hashbrown=" + os.path.join(self.target, "debug", "libhashbrown.rlib")]
        for crate in ("allocator_api2", "rayon"):
            libs = sorted(glob.glob(os.path.join(deps, f"lib{crate}-*.rlib")))
            if not libs:
                self.error = f"no rlib for {crate}"
                return
            self.args += ["--extern", f"{crate}={libs[-1]}"]

    def compile(self, path):
        """-> (errors: {line: [(code, message)]}, raw stderr if rustc itself broke)"""
        rc, out, err = sh(["rustc"] + self.args + ["-o", path[:-3] + ".rmeta", path], timeout=600)
        errs, junk = {}, []
        for l in err.splitlines():
            try:
                d = json.loads(l)
            except ValueError:
                junk.append(l)
                continue
            if d.get("level") != "error" or not d.get("spans"):
                continue
            prim = [s for s in d["spans"] if s.get("is_primary")] or d["spans"]
            code = (d.get("code") or {}).get("code")
            errs.setdefault(prim[0]["line_start"], []).append((code, d["message"]))
        if rc != 0 and not errs:
            junk.append(f"rustc exit {rc} without located errors")
        return errs, "\n".join(junk) if (rc != 0 and not errs) else ""


def write_probe(path, lines, prelude=PRELUDE):
    open(path, "w").write(prelude + "\n".join(lines) + "\n")


# ------------------------------------------------------------------------------------------------
# probe generation
# ------------------------------------------------------------------------------------------------
def rust_type(pub, lts, params, args):
    inner = ["'static" if l is None else l for l in lts] + args
    return f"hashbrown::{pub}<{', '.join(inner)}>" if inner else f"hashbrown::{pub}"


def pick_cases(tier, params, allbits):
    if tier == "thorough":
        return list(range(len(allbits)))
    want = [[(True, True)] * len(params)]
    for i in range(len(params)):
        for m in ((False, False), (True, False), (False, True)):
            w = [(True, True)] * len(params)
            w[i] = m
            want.append(w)
    want.append([(False, False)] * len(params))
    idx = []
    for w in want:
        for j, (bits, _, _) in enumerate(allbits):
            if [tuple(b) for b in bits] == w and j not in idx:
                idx.append(j)
    return idx


HANDLES = [
    # (collection, id, acquire, exclusive?)
    ("map", "iter", "c.iter()", False), ("map", "keys", "c.keys()", False), ("map", "values", "c.values()", False),
    ("map", "get", "c.get(&1)", False), ("map", "get_key_value", "c.get_key_value(&1)", False),
    ("map", "ref_into_iter", "(&c).into_iter()", False), ("map", "raw_entry", "c.raw_entry().from_key(&1)", False),
    ("map", "par_iter", "c.par_iter()", False), ("map", "par_keys", "c.par_keys()", False),
    ("map", "iter_mut", "c.iter_mut()", True), ("map", "values_mut", "c.values_mut()", True),
    ("map", "get_mut", "c.get_mut(&1)", True), ("map", "drain", "c.drain()", True), ("map", "entry", "c.entry(1)", True),
    ("map", "entry_ref", "c.entry_ref(&1)", True), ("map", "extract_if", "c.extract_if(|_, _| true)", True),
    ("map", "raw_entry_mut", "c.raw_entry_mut().from_key(&1)", True), ("map", "rustc_entry", "c.rustc_entry(1)", True),
    ("map", "par_iter_mut", "c.par_iter_mut()", True), ("map", "par_drain", "c.par_drain()", True),
    ("map", "get_many_mut", "c.get_many_mut([&1, &2])", True), ("map", "try_insert", "c.try_insert(1, String::new())", True),
    ("set", "iter", "c.iter()", False), ("set", "get", "c.get(&1)", False), ("set", "union", "c.union(&o)", False),
    ("set", "difference", "c.difference(&o)", False), ("set", "intersection", "o.intersection(&c)", False),
    ("set", "symmetric_difference", "c.symmetric_difference(&o)", False), ("set", "par_iter", "c.par_iter()", False),
    ("set", "par_union", "c.par_union(&o)", False),
    ("set", "drain", "c.drain()", True), ("set", "entry", "c.entry(1)", True), ("set", "extract_if", "c.extract_if(|_| true)", True),
    ("set", "par_drain", "c.par_drain()", True),
    ("table", "iter", "c.iter()", False), ("table", "find", "c.find(1, |x| *x == 1)", False), ("table", "iter_hash", "c.iter_hash(1)", False),
    ("table", "par_iter", "c.par_iter()", False),
    ("table", "iter_mut", "c.iter_mut()", True), ("table", "find_mut", "c.find_mut(1, |x| *x == 1)", True),
    ("table", "find_entry", "c.find_entry(1, |x| *x == 1)", True), ("table", "entry", "c.entry(1, |x| *x == 1, |x| *x as u64)", True),
    ("table", "iter_hash_mut", "c.iter_hash_mut(1)", True), ("table", "drain", "c.drain()", True),
    ("table", "extract_if", "c.extract_if(|_| true)", True), ("table", "par_iter_mut", "c.par_iter_mut()", True),
    ("table", "par_drain", "c.par_drain()", True), ("table", "get_many_mut", "c.get_many_mut([1, 2], |i, x| *x == 1)", True),
]
COLL = {"map": ("hashbrown::HashMap<u32, String>", "c.insert(7, String::new());"),
        "set": ("hashbrown::HashSet<u32>", "c.insert(7);"),
        "table": ("hashbrown::HashTable<u32>", "c.clear();")}
BORROW_CODES = {"E0499", "E0502", "E0505", "E0506", "E0597"}
BORROW_PRELUDE = PRELUDE + "use rayon::prelude::*;\n"


def borrow_probes():
    """-> [(name, bad line, good line)]"""
    out = []
    for coll, hid, acq, excl in HANDLES:
        ty, mutate = COLL[coll]
        conflicts = [("mutate", mutate), ("drop", "drop(c);")] + ([("read", "let _n = c.len();")] if excl else [])
        sig = f"(mut c: {ty}, mut o: {ty})"
        for cname, cstmt in conflicts:
            out.append((f"{coll}.{hid}/{cname}",
                        f"fn f{sig} {{ let h = {acq}; {cstmt} drop(h); }}",
                        f"fn f{sig} {{ let h = {acq}; drop(h); {cstmt} }}"))
        out.append((f"{coll}.{hid}/escape",
                    f"fn f(mut o: {ty}) {{ let h; {{ let mut c = <{ty}>::default(); h = {acq}; }} drop(h); }}",
                    f"fn f(mut o: {ty}) {{ {{ let mut c = <{ty}>::default(); let h = {acq}; drop(h); }} }}"))
    return out


# ------------------------------------------------------------------------------------------------
def main():
    ap = argparse.ArgumentParser()
    ap.add_argument("--repo", default=os.environ.get("HV_REPO", "/repo"))
    ap.add_argument("--work", required=True)
    ap.add_argument("--tier", default="quick", choices=["quick", "thorough"])
    ap.add_argument("--jobs", type=int, default=16)
    a = ap.parse_args()
    t0 = time.time()
    work = os.path.abspath(a.work)
    pdir = os.path.join(work, "probes")
    fdir = os.path.join(work, "fail")
    for d in (pdir, fdir):
        shutil.rmtree(d, ignore_errors=True)
        os.makedirs(d)
    fails = []
    stats = {"probes": 0, "rejected": 0, "accepted": 0}

    def fail(kind, ty, details, lines, prelude=PRELUDE):
        path = os.path.join(fdir, f"{len(fails):03d}_{kind}_{re.sub(r'[^A-Za-z0-9]+', '_', ty)}.rs")
        write_probe(path, lines, prelude)
        fails.append(f"PROBE-FAIL {kind} {ty} {details} file={path}")

    def finish():
        for f in fails:
            print(f)
        print(f"STATS probes={stats['probes']} rejected={stats['rejected']} accepted={stats['accepted']} disagreements={len(fails)}")
        print(f"TIME {time.time() - t0:.1f}s", file=sys.stderr)
        sys.exit(0)

    with ThreadPoolExecutor(2) as ex:
        fut_coq = ex.submit(coq_cases, a.repo, work)
        fut_rust = ex.submit(Rust, a.repo, work)
        (cases, cerr), rust = fut_coq.result(), fut_rust.result()
    if cerr:
        fails.append("PROBE-FAIL probe-broken - no prediction from Coq: " + cerr.strip().replace("\n", " | ")[:600] + " file=-")
        finish()
    if rust.error:
        fails.append("PROBE-FAIL probe-broken - " + rust.error.strip().replace("\n", " | ")[-600:] + " file=-")
        finish()

    # ---------------------------------------------------------------- generate
    jobs = []      # (path, [(line no, meta)])
    for name, pubs, lts, params, allbits in cases:
        if not pubs:
            fails.append(f"PROBE-FAIL probe-broken {name} the table line names no exported declaration file=-")
            continue
        pub = pubs[-1]
        pnames = [p for p, _, _ in params]
        safe = re.sub(r"[^A-Za-z0-9]+", "_", name)
        lines, meta = [], []
        for j in pick_cases(a.tier, pnames, allbits):
            bits, (defined, csend, csync), (rsend, rsync) = allbits[j]
            args = [(MARK_A if p == "A" else MARK)[tuple(b)] for p, b in zip(pnames, bits)]
            ty = rust_type(pub, [None] * len(lts), pnames, args)
            for trait, calc, req in (("Send", csend, rsend), ("Sync", csync, rsync)):
                lines.append(f"fn c{len(lines)}() {{ is_{trait.lower()}::<{ty}>(); }}")
                meta.append(("marker", name, trait, ty, defined and calc, req, lines[-1]))
        # variance: shorten a lifetime inside one parameter
        for i, (p, acc, var) in enumerate(params):
            def inst(lt):
                args = [("ALt<%s>" % lt if q == "A" else "&%s str" % lt) if k == i else ("Global" if q == "A" else "u8")
                        for k, q in enumerate(pnames)]
                return rust_type(pub, ["'" + l for l in lts], pnames, args)
            gen = ", ".join(["'" + l for l in lts] + ["'new"])
            lines.append(f"fn v{len(lines)}<{gen}>(v: {inst(chr(39) + 'static')}) -> {inst(chr(39) + 'new')} {{ v }}")
            meta.append(("variance", name, p, acc, var, None, lines[-1]))
        path = os.path.join(pdir, f"m_{safe}.rs")
        write_probe(path, lines)
        jobs.append((path, PRELUDE, [(PRELUDE_LINES + 1 + k, m) for k, m in enumerate(meta)]))
    bp = borrow_probes()
    nbl = BORROW_PRELUDE.count("\n")
    for which in (1, 2):
        path = os.path.join(pdir, "borrow_bad.rs" if which == 1 else "borrow_good.rs")
        lines = [x[which].replace("fn f(", f"fn f{k}(", 1) for k, x in enumerate(bp)]
        write_probe(path, lines, BORROW_PRELUDE)
        jobs.append((path, BORROW_PRELUDE, [(nbl + 1 + k, ("borrow-bad" if which == 1 else "borrow-good", x[0], None, None, None, None, lines[k]))
                                           for k, x in enumerate(bp)]))

    # ---------------------------------------------------------------- compile and compare
    with ThreadPoolExecutor(a.jobs) as ex:
        results = list(ex.map(lambda j: rust.compile(j[0]), jobs))
    for (path, prelude, metas), (errs, broken) in zip(jobs, results):
        if broken:
            fails.append(f"PROBE-FAIL probe-broken {os.path.basename(path)} rustc failed: {broken[:300].replace(chr(10), ' | ')} file={path}")
            continue
        known = {ln for ln, _ in metas}
        stray = [(ln, e) for ln, e in errs.items() if ln not in known]
        if stray:
            fails.append(f"PROBE-FAIL probe-broken {os.path.basename(path)} error outside the probes: line {stray[0][0]}: {stray[0][1][0][1][:200]} file={path}")
        for ln, m in metas:
            kind, name, x1, x2, calc, req, src = m
            es = errs.get(ln, [])
            rejected = bool(es)
            stats["probes"] += 1
            stats["rejected" if rejected else "accepted"] += 1
            codes = ",".join(sorted({str(c) for c, _ in es}))
            if kind == "marker":
                trait, ty = x1, x2
                if rejected and not all(c == "E0277" and "between threads safely" in msg for c, msg in es):
                    fail("probe-broken", name, f"{trait} {ty}: rejected for another reason [{codes}] {es[0][1][:160]}", [src])
                    continue
                if calc != (not rejected):
                    fail("calculus-vs-rustc", name, f"{trait} {ty}: calculus says {'holds' if calc else 'does not hold'}, rustc {'rejects' if rejected else 'accepts'}", [src])
                if not req and not rejected:
                    fail("property", name, f"{trait} {ty}: the access table forbids it, rustc accepts", [src])
            elif kind == "variance":
                p, acc, var = x1, x2, calc
                if rejected and not all("lifetime may not live long enough" in msg for _, msg in es):
                    fail("probe-broken", name, f"variance in {p}: rejected for another reason [{codes}] {es[0][1][:160]}", [src])
                    continue
                predicted_ok = var in ("Co", "Bi")
                if predicted_ok != (not rejected):
                    fail("calculus-vs-rustc", name, f"variance in {p}: calculus says {var}, rustc {'rejects' if rejected else 'accepts'} the shortening", [src])
                if acc == "Exclusive" and not rejected:
                    fail("property", name, f"variance in {p}: Exclusive access but `&'static str` shortens to `&'new str` (not invariant)", [src])
            elif kind == "borrow-bad":
                if not rejected:
                    fail("property", name, "handle used after a conflicting use of the collection, rustc accepts", [src], prelude)
                elif not any(c in BORROW_CODES for c, _ in es):
                    fail("probe-broken", name, f"rejected for another reason [{codes}] {es[0][1][:160]}", [src], prelude)
            elif kind == "borrow-good":
                if rejected:
                    fail("probe-broken", name, f"the accepting twin is rejected [{codes}] {es[0][1][:160]}", [src], prelude)
    finish()


if __name__ == "__main__":
    main()
