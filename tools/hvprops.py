#!/usr/bin/env python3
"""hvprops.py -- one check function per property (see DESIGN.md section 6)."""
import os, re, sys, json, time, random, subprocess
import hvlib as H
import gen_map, gen_arith, gen_set, gen_table, gen_par, gen_serde

M64 = (1 << 64) - 1
ISIZE_MAX = (1 << 63) - 1

# ------------------------------------------------------------------------------------------------
# shared skeleton for script-driven properties
# ------------------------------------------------------------------------------------------------
def rel_any(kinds=(), contains=()):
    def f(x):
        if x.kind in kinds:
            return True
        return any(c in x.text for c in contains)
    return f

def corpus_text(pid):
    d = os.path.join(H.ROOT, "corpus", pid)
    out = []
    if os.path.isdir(d):
        for p in sorted(os.listdir(d)):
            if p.endswith(".txt"):
                out.append(open(os.path.join(d, p)).read())
    return "".join(out)

def script_property(run, gen, relevant, variants_quick=("sse2-debug",), variants_thorough=("sse2-debug", "generic-debug", "sse2-release", "generic-release"),
                    levels="ABC", rule="", nontrivial_keys=(), partial_note=None, quick_n=1, thorough_n=8):
    pid = run.pid
    cs = H.coq_stage(run, pid)
    okd, driver = H.build_driver()
    variants = variants_quick if run.tier == "quick" else variants_thorough
    exes = {}
    build_problem = None
    for v in variants:
        ok, exe = H.build_harness(v)
        if ok:
            exes[v] = exe
        else:
            build_problem = f"harness build failed for {v}: {str(exe)[-400:]}"
    known = [k for k in H.load_known() if k["property"] == pid]
    all_findings, stats, ops, branch = [], {}, {}, {}
    blocks_by_variant = {}
    samples = []
    rounds = quick_n if run.tier == "quick" else thorough_n
    if okd:
        for v, exe in exes.items():
            text = corpus_text(pid)
            for r in range(rounds):
                text += gen(run.tier, run.seed * 1000 + r, v)
            fs, s, o, b, blocks = H.run_scripts(exe, driver, text, run.wdir, f"run_{v}", levels)
            for f in fs:
                f.variant = v
            all_findings += fs
            blocks_by_variant[v] = blocks
            for d, src in ((stats, s), (ops, o), (branch, b)):
                for k, val in src.items():
                    d[k] = d.get(k, 0) + val
            if blocks and not samples:
                samples = [blocks[0][:600]]
    all_findings += getattr(run, "extra_findings", [])
    prop_f = [f for f in all_findings if relevant(f)]
    tie_f = [f for f in all_findings if f.kind in ("C-MISMATCH", "T-MISMATCH", "D-ERROR", "X-MISMATCH") and not relevant(f)]
    if os.environ.get("HV_DEBUG"):        # every finding of the run, with its relevance for this property
        for f in all_findings[:200]:
            print(f"DEBUG-FINDING relevant={relevant(f)} {f.kind} script={f.script} {f.text[:300]}", file=sys.stderr)
        print(f"DEBUG-FINDINGS total={len(all_findings)} relevant={len(prop_f)} tie={len(tie_f)}", file=sys.stderr)

    def report(findings, search_note=""):
        seen = set()
        n = 0
        for f in findings:
            key = (f.kind, re.sub(r"\d+", "#", f.text)[:80])
            if key in seen:
                continue
            seen.add(key)
            v = getattr(f, "variant", "sse2-debug")
            blk = H.block_by_name(blocks_by_variant.get(v, []), f.script) if f.script else None
            replay_text = None
            if blk:
                pred = (lambda x, kind=f.kind: x.kind == kind and relevant(x))
                try:
                    small, trials = H.shrink(exes[v], driver, blk, run.wdir, pred, levels)
                    if not H.check_block(exes[v], driver, small, run.wdir, pred, levels):
                        small = blk
                except Exception as ex:         # never let the shrinker hide a finding
                    small = blk
                replay_text = f"# property {pid}: {f.kind} {f.text[:400]}\n# variant: {v}\n# replay: ./hv replay <this file>\n" + small
            else:
                replay_text = f"# property {pid}: {f.kind} {f.text[:800]}\n# variant: {v}\n"
                if getattr(f, "replay_hint", None):
                    replay_text += f"# replay: {f.replay_hint}\n"
            kf = next((k for k in known if k["re"].search(f.text)), None)
            if kf:
                run.say(f"KNOWN-FINDING: property={pid} {kf['what']}")
                run.known_hits.append(kf["what"])
                continue
            p = run.write_replay(f"replay_{n}.txt", replay_text)
            run.violation(p, search_note)
            n += 1
            if n >= 3:
                break
        return n

    is_known = lambda f: any(k["re"].search(f.text) for k in known)
    reported = report(prop_f) if prop_f else 0
    if not reported and ((not cs["ok"]) or tie_f or build_problem or not okd):
        # the proof or the tie is broken: search for a concrete failing input
        found = []
        t_search = time.time()
        if okd and exes:
            for r in range(4 if run.tier == "quick" else 16):
                if time.time() - t_search > (600 if run.tier == "quick" else 2400):
                    break            # the widened search has a wall-clock budget
                for v, exe in exes.items():
                    text = gen("thorough", run.seed * 7919 + 100 + r, v)
                    fs, s, o, b, blocks = H.run_scripts(exe, driver, text, run.wdir, f"search_{v}_{r}", levels)
                    for f in fs:
                        f.variant = v
                    blocks_by_variant[v] = blocks
                    for k, val in s.items():
                        stats[k] = stats.get(k, 0) + val
                    found = [f for f in fs if relevant(f) and not is_known(f)]
                    if found:
                        break
                if found:
                    break
        if found:
            report(found)
        else:
            why = cs["problems"] + [f"{f.kind} {f.text[:500]}" for f in tie_f[:3]] + ([build_problem] if build_problem else []) + ([] if okd else [f"driver build failed: {driver}"])
            text = f"# property {pid}: no failing input found, but the property is no longer shown to hold.\n"
            for w in why:
                text += "# broken: " + w.replace("\n", " ") + "\n"
            if tie_f and tie_f[0].script:
                v = getattr(tie_f[0], "variant", "sse2-debug")
                blk = H.block_by_name(blocks_by_variant.get(v, []), tie_f[0].script)
                if blk:
                    text += f"# variant: {v}\n# the model and the implementation disagree on this script (./hv replay <this file>):\n" + blk
            p = run.write_replay("replay_unproved.txt", text)
            run.violation(p, "no-failing-input-found")

    nontrivial = sum(branch.get(k, 0) for k in nontrivial_keys) if nontrivial_keys else stats.get("distinct", 0)
    cov = {
        "obligations": cs["obligations"], "discharged": cs["discharged"],
        "checker_cmd": f"cd /verif/coq && make theories/Properties/{pid}.vo && coqc -Q theories HB theories/Properties/{pid}.v  (Print Assumptions)",
        "trusted_base": H.TRUSTED_BASE,
        "evaluations": stats.get("steps", 0), "distinct_nontrivial": min(nontrivial, stats.get("distinct", nontrivial)),
        "rule": rule, "samples": samples or ["(no script ran)"],
        "traces_validated_against_impl": stats.get("level_c", 0),
        "level_a_steps": stats.get("level_a", 0), "level_b_states": stats.get("level_b", 0),
        "op_distribution": ops, "hard_branch_counts": branch, "variants": list(exes.keys()),
        "extraction_selftest": {"steps_evaluated_inside_coq_and_in_ocaml": stats.get("selftest_cases", 0), "different": stats.get("selftest_mismatches", 0)},
        "proof_problems": cs["problems"], "cone_files": cs.get("files", []),
        "print_assumptions_closed": cs.get("assumptions_closed"), "coqchk": cs.get("coqchk"), "known_findings_hit": run.known_hits,
    }
    if partial_note:
        cov["partial"] = partial_note
    return H.finish(run, cov, "proof", assumptions=[partial_note] if partial_note else [])

# ------------------------------------------------------------------------------------------------
# C17: arithmetic
# ------------------------------------------------------------------------------------------------
def is_pow2(x):
    return x > 0 and x & (x - 1) == 0

def bmtc_spec(m):
    return m if m < 8 else ((m + 1) // 8) * 7

def c17_oracle(gw, line, bm=None):
    """Judge one `query = answer` line of the hook wrappers against the SPECIFICATION predicates
    of C17 (not against the model).  Returns None or a violation text.
    bm: what the implementation's own bucket_mask_to_capacity answered (mask -> capacity) in this run."""
    q, _, r = line.partition(" = ")
    w = q.split()
    r = r.strip()
    if w[0] == "ctb":
        cap, size = int(w[1]), int(w[2])
        if r == "none":
            if cap * 8 <= M64:
                return f"capacity_to_buckets({cap}) reports overflow although cap*8 fits"
            return None
        b = int(r)
        if not is_pow2(b):
            return f"capacity_to_buckets({cap}) = {b} is not a power of two"
        usable = bmtc_spec(b - 1)
        if usable < cap:
            return f"capacity_to_buckets({cap}) = {b} buckets hold only {usable} elements"
        own = (bm or {}).get(b - 1)
        if own is not None and own < cap:
            return f"capacity_to_buckets({cap}) = {b} buckets, for which bucket_mask_to_capacity({b - 1}) itself answers only {own}"
        if size >= 1 and b * size < gw and cap < 15:
            return f"capacity_to_buckets({cap}, size {size}) = {b}: table smaller than one group"
        return None
    if w[0] == "tlnew":
        so, ao, ts, ca = map(int, r.split())
        if ts != so or not is_pow2(ca) or ca < gw or ca < ao:
            return (f"TableLayout::new for an element of size {so}, alignment {ao} = (size {ts}, ctrl_align {ca}): "
                    f"not sufficient for the elements and an aligned scan of {gw}-byte groups")
        return None
    if w[0] == "bmtc":
        m = int(w[1]); c = int(r)
        if m > 0 and not (c < m + 1):
            return f"bucket_mask_to_capacity({m}) = {c} leaves no empty slot"
        if m > 0 and c <= 0:
            return f"bucket_mask_to_capacity({m}) = {c}"
        return None
    if w[0] == "layout":
        size, al, b = int(w[1]), int(w[2]), int(w[3])
        raw = size * b
        off = (raw + al - 1) // al * al
        ln = off + b + gw
        fits = raw + al - 1 <= M64 and ln <= ISIZE_MAX - (al - 1)
        if r == "none":
            return None if not fits else f"layout(size={size}, align={al}, buckets={b}) reports overflow although it fits"
        l2, a2, o2 = map(int, r.split())
        if not fits:
            return f"layout(size={size}, align={al}, buckets={b}) = ({l2},{a2},{o2}) although the size is not representable (wrap-around)"
        if a2 < al or a2 % gw or o2 % a2 or o2 < raw or l2 < o2 + b + gw or l2 > ISIZE_MAX - (a2 - 1):
            return f"layout(size={size}, align={al}, buckets={b}) = ({l2},{a2},{o2}) violates alignment/room/isize::MAX"
        return None
    if w[0] == "probe":
        mask, n = int(w[2]), int(w[3])
        ps = [int(x) for x in r.split(",")]
        nbk = mask + 1
        if nbk >= gw:
            classes = {((p - ps[0]) % nbk) // gw for p in ps}
            if len(ps) != nbk // gw or len(classes) != len(ps) or any(((p - ps[0]) % nbk) % gw for p in ps):
                return f"probe sequence over {nbk} buckets does not visit every group exactly once: {ps[:8]}..."
        return None
    return None

def check_c17(run):
    pid = "C17"
    cs = H.coq_stage(run, pid)
    okd, driver = H.build_driver()
    findings, queries, mism, kinds = [], 0, 0, {}
    samples = []
    variants = [("sse2-debug", 16), ("generic-debug", 8)]
    build_problem = None
    for v, gw in variants:
        okh, exe = H.build_harness(v)
        if not okh:
            build_problem = f"harness build failed for {v}: {str(exe)[-300:]}"
            continue
        rng = random.Random(run.seed * 31 + gw)
        qs = gen_arith.c17(run.tier, rng, gw)
        qp = os.path.join(run.wdir, f"q_{v}.txt"); ap = os.path.join(run.wdir, f"a_{v}.txt")
        open(qp, "w").write("\n".join(qs) + "\n")
        rc = subprocess.run([exe, "arith"], stdin=open(qp), stdout=open(ap, "w"), stderr=subprocess.PIPE)
        answered = 0
        bm = {}
        for line in open(ap):
            mm = re.match(r"bmtc (\d+) = (\d+)\s*$", line)
            if mm:
                bm[int(mm.group(1))] = int(mm.group(2))
        for line in open(ap):
            if " = " not in line:
                continue
            answered += 1
            queries += 1
            viol = c17_oracle(gw, line.rstrip("\n"), bm)
            if viol:
                findings.append((v, gw, line.strip(), viol))
        if rc.returncode != 0 or answered < len(qs):
            # the wrapper panicked / crashed on some query: the first unanswered query is the input
            bad = qs[answered] if answered < len(qs) else "?"
            findings.append((v, gw, bad, f"the computation panicked or crashed on `{bad}` (exit {rc.returncode}): {rc.stderr.decode('utf-8', 'replace')[-200:]}"))
        if okd:
            rc2, out = H.sh([driver, "arith", ap], timeout=900)
            fs, st, o, _ = H.parse_findings(out)
            mism += st.get("mismatches", 0)
            for k, val in o.items():
                kinds[k] = kinds.get(k, 0) + val
            tie = [f for f in fs if f.kind == "T-MISMATCH"]
            run.notes += [f"{v}: {f.text[:300]}" for f in tie[:3]]
        if not samples:
            samples = [l.strip() for l in open(ap).read().split("\n")[1:6]]
    tie_broken = mism > 0
    if findings:
        for i, (v, gw, line, viol) in enumerate(findings[:3]):
            p = run.write_replay(f"replay_{i}.txt", f"# arith\n# property C17 violated: {viol}\n# variant: {v}\n# replay: ./hv replay <this file>   (prints the implementation's answer)\n{line.split(' = ')[0]}\n")
            run.violation(p)
    elif not cs["ok"] or tie_broken or build_problem or not okd:
        text = "# property C17: no failing input found, but the property is no longer shown to hold.\n"
        for w in cs["problems"] + run.notes + ([build_problem] if build_problem else []) + ([] if okd else ["driver build failed"]):
            text += "# broken: " + w.replace("\n", " ") + "\n"
        p = run.write_replay("replay_unproved.txt", text)
        run.violation(p, "no-failing-input-found")
    cov = {
        "obligations": cs["obligations"], "discharged": cs["discharged"],
        "checker_cmd": "cd /verif/coq && make theories/Properties/C17.vo && coqc -Q theories HB theories/Properties/C17.v  (Print Assumptions)",
        "trusted_base": H.TRUSTED_BASE,
        "evaluations": queries, "distinct_nontrivial": queries - kinds.get("tagclass", 0) - kinds.get("h1", 0),
        "rule": "translator validation: every query of the boundary grid (capacities around 7/8*2^k and 2^k up to 2^64, layouts over sizes x aligns x bucket counts incl. the isize::MAX boundary, probe sequences for every table size, is_in_same_group) is answered by the hook wrappers of the real code (both group widths) and by the extracted Gen.* definitions; answers must be equal, and are also judged by the C17 specification predicates. non-trivial = all but the tag-class / h1 identity queries",
        "samples": samples, "translator_mismatches": mism, "query_kinds": kinds,
        "proof_problems": cs["problems"], "cone_files": cs.get("files", []),
        "print_assumptions_closed": cs.get("assumptions_closed"), "coqchk": cs.get("coqchk"),
    }
    return H.finish(run, cov, "proof")

# ------------------------------------------------------------------------------------------------
# C01
# ------------------------------------------------------------------------------------------------
def gen_map_scripts(tier, seed, variant):
    rng = random.Random(seed)
    n = 48 if tier == "quick" else 160
    out = [gen_map.make_script(rng, f"m{seed}_{i}") for i in range(n)]
    # collision runs with tombstones inside full groups and probes beyond them
    out += [gen_map.make_run_script(rng, f"u{seed}_{i}") for i in range(n // 2)]
    out += [gen_map.make_rehash_script(rng, f"ur{seed}_{i}") for i in range(n // 3)]
    out += [gen_map.make_stale_slot_script(rng, f"us{seed}_{i}", gw=(8 if "generic" in variant else 16)) for i in range(n // 6)]
    return "".join(out)

def check_c01(run):
    return script_property(
        run, gen_map_scripts,
        relevant=lambda f: f.kind in ("A-FAIL", "CRASH") or (f.kind == "B-FAIL" and "Tags/Reach" in f.text),
        rule="structured HashMap histories (fill / churn / tombstone / lookup / misc phases) under 8 hash-plan classes (well mixed, constant 0, constant MAX, 4 start positions, one tag, wrap-around positions, tag t vs t^1, sequential), key universes 6..130, drop and no-drop element types; plus collision-run scripts (9..57 keys sharing a probe start, removals inside the run, then every lookup / insert / entry API on keys stored beyond the tombstones and on absent keys, before and after a forced in-place rehash); every step: model_step(pre-state dump) = post-state dump bit for bit (level C), wf_check on the post-state (B), AssocSpec acceptor on the return value and contents (A). distinct = distinct (operation, pre-state, fault arming) triples",
        partial_note=None)


# ------------------------------------------------------------------------------------------------
# C18: scanner primitives + cross-backend observables
# ------------------------------------------------------------------------------------------------
def c18_oracle(gw, line):
    q, _, r = line.partition(" = ")
    w = q.split()
    if w[0] != "grp":
        return None
    op = w[1]
    g = [int(w[2][2 * i:2 * i + 2], 16) for i in range(gw)]
    r = r.strip()
    if op == "convert":
        want = "".join("80" if b < 128 else "ff" for b in g)
        return None if r[:2 * gw] == want else f"convert({w[2][:2*gw]}) = {r[:2*gw]}, byte-wise definition gives {want}"
    m = dict(x.split("=") for x in r.split())
    it = [] if m["iter"] == "-" else [int(x) for x in m["iter"].split(",")]
    if it != sorted(set(it)) or any(j >= gw for j in it):
        return f"{op}({w[2][:2*gw]}): iteration order {it} is not strictly ascending below the width"
    valid = all(b < 128 or b in (128, 255) for b in g)
    if op == "match_tag":
        t = int(w[3])
        true = [j for j in range(gw) if g[j] == t]
        if any(j not in it for j in true):
            return f"match_tag({w[2][:2*gw]}, {t}) misses a true match: {it} vs {true}"
        for j in it:
            if j not in true:
                if gw == 16:
                    return f"SSE2 match_tag({w[2][:2*gw]}, {t}) reports non-matching byte {j}"
                if (g[j] ^ t) != 1 or not any(i < j for i in true):
                    return f"match_tag({w[2][:2*gw]}, {t}) reports byte {j} = {g[j]:#x}: not the documented false positive"
        want = it
    elif op == "match_empty":
        if not valid:
            return None
        want = [j for j in range(gw) if g[j] == 255]
    elif op == "match_eod":
        want = [j for j in range(gw) if g[j] >= 128]
    elif op == "match_full":
        want = [j for j in range(gw) if g[j] < 128]
    else:
        return None
    if it != want:
        return f"{op}({w[2][:2*gw]}) = {it}, byte-wise definition gives {want}"
    anyb = int(m["any"]) == 1
    low = None if m["low"] == "-" else int(m["low"])
    if anyb != bool(want) or low != (want[0] if want else None):
        return f"{op}({w[2][:2*gw]}): any_bit_set/lowest_set_bit = {m['any']}/{m['low']} disagree with {want}"
    if op == "match_empty":
        lz = next((k for k in range(gw) if g[gw - 1 - k] == 255), gw)
        tz = next((k for k in range(gw) if g[k] == 255), gw)
        if int(m["lz"]) != lz or int(m["tz"]) != tz:
            return f"match_empty({w[2][:2*gw]}): leading/trailing zeros {m['lz']}/{m['tz']}, byte-wise {lz}/{tz}"
    return None

def normalize_ret(op, ret):
    if ret.startswith("list "):
        items = ret[5:].split(",")
        return "list " + ",".join(sorted(items))
    return ret

def check_c18(run):
    pid = "C18"
    cs = H.coq_stage(run, pid)
    okd, driver = H.build_driver()
    findings, queries, mism, kinds, samples = [], 0, 0, {}, []
    exes = {}
    build_problem = None
    for v, gw in (("sse2-debug", 16), ("generic-debug", 8)):
        okh, exe = H.build_harness(v)
        if not okh:
            build_problem = f"harness build failed for {v}: {str(exe)[-300:]}"
            continue
        exes[v] = exe
        rng = random.Random(run.seed * 17 + gw)
        qs = gen_arith.c18(run.tier, rng, gw)
        qp = os.path.join(run.wdir, f"q_{v}.txt"); ap = os.path.join(run.wdir, f"a_{v}.txt")
        open(qp, "w").write("\n".join(qs) + "\n")
        rc = subprocess.run([exe, "arith"], stdin=open(qp), stdout=open(ap, "w"), stderr=subprocess.PIPE)
        for line in open(ap):
            if " = " not in line:
                continue
            queries += 1
            viol = c18_oracle(gw, line.rstrip("\n"))
            if viol:
                findings.append((v, line.strip(), viol))
        if okd:
            rc2, out = H.sh([driver, "arith", ap], timeout=1800)
            fs, st, o, _ = H.parse_findings(out)
            mism += st.get("mismatches", 0)
            for k, val in o.items():
                kinds[k] = kinds.get(k, 0) + val
            run.notes += [f"{v}: {f.kind} {f.text[:300]}" for f in fs[:3]]
        if not samples:
            samples = [l.strip() for l in open(ap).read().split("\n")[1:5]]
    # same histories on both back-ends: equal return values, lengths, contents
    cross_steps = 0
    cross_findings = []
    if len(exes) == 2:
        text = corpus_text(pid) + gen_map_scripts(run.tier, run.seed * 1000 + 18, "both")
        sp = os.path.join(run.wdir, "cross.script"); open(sp, "w").write(text)
        traces = {}
        for v, exe in exes.items():
            tp = os.path.join(run.wdir, f"cross_{v}.trace")
            H.run_trace(exe, sp, tp)
            cur, rows = None, {}
            op = None
            for l in open(tp, errors="replace"):
                if l.startswith("SCRIPT "):
                    cur = l.split()[1]
                elif l.startswith("STEP "):
                    w = l.split(); op = w[2]; key = (cur, int(w[1]))
                elif l.startswith("RET "):
                    rows[key] = [op, normalize_ret(op, l[4:].strip()), None]
                elif l.startswith("POST "):
                    m1 = re.search(r" i=(\d+) .* s=(\S+)", l)
                    if m1 and key in rows:
                        cont = sorted(":".join(x.split(":")[1:]) for x in m1.group(2).split(";")) if m1.group(2) != "-" else []
                        rows[key][2] = (m1.group(1), cont)
            traces[v] = rows
        a, b = traces["sse2-debug"], traces["generic-debug"]
        for key in a:
            if key not in b:
                continue
            cross_steps += 1
            op = a[key][0]
            # which elements a PARTLY consumed drain / extract_if / owning iterator yields depends on the
            # iteration order, which is layout-level (Properties/C18o.v: `state_det`, `out_sim`); capacity
            # and allocation_size depend on the group width
            if op in ("capacity", "allocsize", "drain", "extractif", "intoiter", "intokeys", "intovalues", "intoiterfold", "intokeysfold",
                      "intovaluesfold", "drainfold", "forget_drain", "forget_iter", "forget_extractif"):
                ra, rb = "", ""
            else:
                ra, rb = a[key][1], b[key][1]
            if ra != rb or (a[key][2] != b[key][2] and op not in ("extractif", "drain")):
                cross_findings.append((key, op, a[key], b[key]))
    if findings or cross_findings:
        n = 0
        for v, line, viol in findings[:2]:
            p = run.write_replay(f"replay_{n}.txt", f"# arith\n# property C18 violated: {viol}\n# variant: {v}\n{line.split(' = ')[0]}\n")
            run.violation(p); n += 1
        for key, op, ra, rb in cross_findings[:1]:
            blk = H.block_by_name(H.split_scripts(text), key[0]) or ""
            p = run.write_replay(f"replay_{n}.txt", f"# property C18 violated: step {key[1]} ({op}) of script {key[0]} differs between back-ends: sse2 {ra[1:]} portable {rb[1:]}\n# variant: generic-debug\n" + blk)
            run.violation(p); n += 1
    elif not cs["ok"] or mism or build_problem or not okd:
        text2 = "# property C18: no failing input found, but the property is no longer shown to hold.\n"
        for w in cs["problems"] + run.notes + ([build_problem] if build_problem else []):
            text2 += "# broken: " + w.replace("\n", " ") + "\n"
        p = run.write_replay("replay_unproved.txt", text2)
        run.violation(p, "no-failing-input-found")
    cov = {
        "obligations": cs["obligations"], "discharged": cs["discharged"],
        "checker_cmd": "cd /verif/coq && make theories/Properties/C18.vo && coqc -Q theories HB theories/Properties/C18.v  (Print Assumptions)",
        "trusted_base": H.TRUSTED_BASE,
        "evaluations": queries + cross_steps, "distinct_nontrivial": queries,
        "rule": "scanner primitives: all 2-byte windows at every byte position (stride by tier) x fills, plus random groups of valid control bytes with tags drawn from the group, for match_tag / match_empty / match_empty_or_deleted / match_full / convert and the BitMask queries (iteration order, any_bit_set, lowest_set_bit, leading/trailing zeros); answered by both real back-ends (hook wrappers; portable one selected with --cfg miri), compared with the extracted Gen.* definitions (translator tie) and judged by the byte-wise definitions (property oracle). cross-backend: the same generated HashMap histories run on both back-ends, return values / len / contents compared step by step",
        "samples": samples, "translator_mismatches": mism, "query_kinds": kinds, "cross_backend_steps": cross_steps,
        "proof_problems": cs["problems"], "cone_files": cs.get("files", []), "print_assumptions_closed": cs.get("assumptions_closed"), "coqchk": cs.get("coqchk"),
        "partial": "semantics of the six SSE2 intrinsics are trusted as documented (Base/Sse2.v); identical observables across back-ends for whole histories is carried by the C01/C06 refinement theorems being stated for every BackendSpec back-end plus the run-time cross-check here",
    }
    return H.finish(run, cov, "proof", assumptions=[cov["partial"]])

def gen_set_scripts(tier, seed, variant):
    rng = random.Random(seed)
    n = 48 if tier == "quick" else 160
    return "".join(gen_set.make_script(rng, f"s{seed}_{i}") for i in range(n))

def check_c07(run):
    return script_property(
        run, gen_set_scripts,
        relevant=lambda f: f.kind in ("A-FAIL", "CRASH") or (f.kind == "H-FAIL" and any(k in f.text for k in ("size_hint", "fold differs", "symmetric", "retain called"))),
        rule="histories over two HashSets A and B built by different interleavings (so equal sets differ in layout, capacity, tombstones), 8 hash-plan classes, universes 5..90, all |A| vs |B| orderings; binary operations union / intersection / difference / symmetric_difference / is_subset / is_superset / is_disjoint / == / | & ^ - / |= &= ^= -= : the exact output SEQUENCE must equal the extracted SetAlg pipeline applied to the two dumped iteration orders (level C), and the result as a set must equal the mathematical result computed from the abstract contents (level A); single-set operations (insert, replace, take, get, get_or_insert, get_or_insert_with incl. the non-equivalent-value refusal, remove, entry, retain, drain, extract_if) go through model_step / AssocSpec like C01; Difference::size_hint is checked at every step by the harness",
        nontrivial_keys=("set_a_larger", "set_a_smaller_or_equal"))

def op_in(f, prefixes):
    m = re.search(r"op=\[(\S+)", f.text)
    return bool(m) and any(m.group(1).startswith(p) for p in prefixes)

def gen_iter_scripts(tier, seed, variant):
    """map / set / table histories with an iterator operation after every few steps"""
    rng = random.Random(seed)
    n = 36 if tier == "quick" else 120
    out = []
    for i in range(n):
        which = rng.choice(["map", "map", "set", "table"])
        if which == "map":
            blk = gen_map.make_script(rng, f"i{seed}_{i}")
            # owning / draining iterators advanced by next() and then consumed through fold (no panic: k = 1000000)
            ins = lambda: rng.choice(["iter", f"iterfold {rng.randrange(0, 40)}", "iter", f"drain {rng.choice([0, 1, 2, 5, 1000])}",
                                      f"{rng.choice(['drain', 'drain', 'intoiter', 'intokeys', 'intovalues'])}fold {rng.choice([0, 1, 1, 2, 3, 7])} 1000000"])
        elif which == "set":
            blk = gen_set.make_script(rng, f"i{seed}_{i}")
            ins = lambda: rng.choice(["A iter", "B iter", f"A drain {rng.choice([0, 1, 1000])}"])
        else:
            blk = gen_table.make_script(rng, f"i{seed}_{i}")
            ins = lambda: rng.choice(["titer", "titer", f"tdrain {rng.choice([0, 1, 3, 1000])}"])
        lines = blk.rstrip("\n").split("\n")
        res = []
        k = 0
        for l in lines:
            res.append(l)
            if not (l.startswith("===") or l.startswith("kind") or l.startswith("hash")):
                k += 1
                if k % 4 == 0 and not l.startswith(("extractif", "A extractif", "B extractif")):
                    res.append(ins())
        out.append("\n".join(res) + "\n")
    # tombstones in groups beyond the iterator's first group (collision runs), and sparse tables
    # with entirely EMPTY groups between occupied ones -- both with fold / clone / owning iterators
    for i in range(n // 2):
        out.append(gen_map.make_run_script(rng, f"iu{seed}_{i}"))
        out.append(gen_map.make_sparse_script(rng, f"is{seed}_{i}"))
    for i in range(n // 4):
        out.append(gen_table.make_run_script(rng, f"iv{seed}_{i}"))
    return "".join(out)

def check_c09(run):
    return script_property(
        run, gen_iter_scripts,
        relevant=lambda f: f.kind == "CRASH" or (f.kind in ("A-FAIL", "H-FAIL") and (op_in(f, ("iter", "titer", "drain", "tdrain", "into", "tinto")) or any(k in f.text for k in ("iter", "size_hint", "yields", "keys()/values()", "drain.len")))),
        rule="HashMap / HashSet / HashTable histories (all hash-plan classes, drop and no-drop elements, several element layouts) with an iterator operation after every fourth step: iter (next until None, then twice more; len() and size_hint() checked against the true remaining count at every step; keys/values/values_mut/iter_mut must agree), iterfold p (p calls of next, a clone taken, then fold: fold and the clone must continue with the same elements), drain n, into_iter n (len/size_hint at every step, rest dropped by the iterator), into_keys / into_values (next x n then fold); plus collision-run scripts (tombstones in groups beyond the first) and sparse tables of 64..512 buckets with whole EMPTY groups between occupied ones; the visited sequence must equal the extracted model's (level C) and the reference contents as a multiset (level A)")

def gen_serde_scripts(tier, seed, variant):
    rng = random.Random(seed)
    n = 40 if tier == "quick" else 150
    return "".join(gen_serde.make_script(rng, f"d{seed}_{i}") for i in range(n))

def c20_zst_probe(run):
    """Zero-sized and one-byte element types (the scripted element kinds start at 16 bytes): `hbx serdezst`
    deserialises HashSet / HashMap / deserialize_in_place from inputs of 0..3 elements claiming lengths up
    to usize::MAX; capacity and allocation afterwards must be bounded by the constant of `cautious`."""
    extra = []
    ok, exe = H.build_harness("sse2-debug")
    if ok:
        rc, out = H.sh([exe, "serdezst"], timeout=120)
        for l in [l for l in out.split("\n") if l.startswith("SERDEZST ")][:3]:
            fz = H.Finding("A-FAIL", "serde_de probe: " + l.strip(), None, None)
            fz.replay_hint = "/verif/harness/target-sse2-debug/debug/hbx serdezst   (prints every failing case)"
            extra.append(fz)
        m = re.search(r"SERDEZSTSTAT cases=(\d+)", out)
        run.serdezst_cases = int(m.group(1)) if m else 0
        if rc != 0 or not m:
            fz = H.Finding("CRASH", "serde_de probe (hbx serdezst) did not complete (abort on an absurd allocation request?): " + out[-300:].replace("\n", " "), None, None)
            fz.replay_hint = "/verif/harness/target-sse2-debug/debug/hbx serdezst"
            extra.append(fz)
    return extra

def check_c20(run):
    run.extra_findings = c20_zst_probe(run)
    return script_property(
        run, gen_serde_scripts,
        relevant=lambda f: f.kind == "CRASH" or (f.kind in ("A-FAIL", "H-FAIL", "B-FAIL") and (op_in(f, ("serde_",)) or "serde_de probe" in f.text)),
        rule="HashMap histories interleaved with serde operations through an in-memory data format: deserialisation from scripted inputs (0..40 pairs with many duplicate keys, claimed size hints none/0/1/../4096/4097/10^6/isize::MAX/usize::MAX, an input error injected at every position or none), round trips of maps with arbitrary histories, HashSet deserialize and deserialize_in_place; the deserialised table must equal bit for bit the extracted model (with_capacity(cautious(hint)) + inserts; on error the partial map is dropped and freed), contents must be last-value-per-key, the first allocation must be bounded regardless of the hint, no leak / double drop on the error paths; plus a probe (hbx serdezst, 180 cases) of HashSet / HashMap / deserialize_in_place over zero-sized and one-byte element types with 0..3 elements claiming lengths none..usize::MAX: capacity and allocation afterwards are bounded by the constant of `cautious` and nothing panics or aborts",
        nontrivial_keys=("serde_ok_path", "serde_error_path"), thorough_n=1)    # 8192-bucket tables: ~0.1 s per compared step

def gen_par_scripts(tier, seed, variant):
    """maps (split trees, par_* / from_par_iter / par_eq), two-set histories (spar_*) and HashTable
    histories over every element layout (tpar_*)"""
    rng = random.Random(seed)
    nm, ns, nt = (24, 14, 18) if tier == "quick" else (80, 50, 60)
    out = [gen_par.make_script(rng, f"p{seed}_{i}", exhaustive_trees=(tier == "thorough")) for i in range(nm)]
    out += [gen_par.make_set_script(rng, f"ps{seed}_{i}") for i in range(ns)]
    out += [gen_par.make_table_script(rng, f"pt{seed}_{i}") for i in range(nt)]
    # the size classes that must always be present: below one group, and hundreds of elements
    out += [gen_par.make_table_script(rng, f"ptx{seed}_{i}", kind=k, size=z) for i, (k, z) in enumerate(
        [("table-drop", 1), ("table-drop", 2), ("table-plain", 3), ("table-drop", 300), ("table-200", 250)])]
    return "".join(out)

C19_OPS = ("par_", "into_par_iter", "from_par_iter", "spar_", "sinto_par_iter", "tpar_", "tinto_par_iter")

def c19_pareq_probe(run):
    extra = []
    ok, exe = H.build_harness("sse2-debug")
    if ok:
        rc, out = H.sh([exe, "pareq"], timeout=120)
        for l in [l for l in out.split("\n") if l.startswith("PAREQ ")][:3]:
            fz = H.Finding("A-FAIL", "op=[par_eq] " + l.strip(), None, None)
            fz.replay_hint = "cd /verif/harness && RUSTFLAGS='--cfg hashbrown_verif' cargo run --offline --target-dir target-sse2-debug -- pareq   (prints every disagreeing pair)"
            extra.append(fz)
        if rc != 0 or "PAREQSTAT" not in out:
            extra.append(H.Finding("CRASH", "par_eq probe (hbx pareq) did not complete: " + out[-300:].replace("\n", " "), None, None))
    return extra

def check_c19(run):
    run.extra_findings = c19_pareq_probe(run)
    return script_property(
        run, gen_par_scripts,
        relevant=lambda f: f.kind == "CRASH" or (f.kind in ("A-FAIL", "H-FAIL", "B-FAIL") and op_in(f, C19_OPS))
                           or (f.kind == "H-FAIL" and any(k in f.text for k in ("were never dropped", "blocks still allocated", "double drops"))),
        rule="HashMap, HashSet and HashTable histories with rayon operations on pools of 1, 2, 3, 4, 8, 16, 33 and 64 threads. Maps: par_split <decisions> drives the real RawIterRange::split along caller-chosen split trees (random depth up to 24 decisions; all trees up to 4 decisions in the thorough tier) and every leaf's bucket list must equal the extracted model's (level C) and the leaves must partition the stored elements (level A); par_iter / par_keys / par_values / par_iter_mut / par_values_mut / into_par_iter / par_drain with consumers that stop after k elements / par_extend, judged as multisets against the reference map; from_par_iter against the sequential from_iter / extend and `first key object, last value per key`; par_eq against == and against the mathematical equality of the two reference maps (clones with the same and with a different layout, maps differing in one value or one key). Sets (two sets A, B with different histories): spar_iter, sinto_par_iter, spar_drain with a consumer accepting at most k elements (k from 0 to beyond the size), spar_extend (and from_par_iter) against the sequential extend, par_union / par_intersection / par_difference / par_symmetric_difference against the sequential iterators and the mathematical sets, par_is_subset / par_is_superset / par_is_disjoint / par_eq against the sequential predicates and the reference sets. Tables (element sizes 0, 1, 2, 24, 32, 200, alignment up to 64; 1-3 elements, about one group, hundreds; tombstones from insert-then-remove; duplicates of equal ids): tpar_iter, tpar_iter_mut (every element visited once and updated), tinto_par_iter, tpar_drain with early-stopping consumers. After a parallel drain the collection must be empty, keep its allocation and satisfy the invariant (level B), and the histories continue on it; the registry checks after every step that every element was delivered or dropped exactly once, and at the end that nothing is alive or allocated",
        nontrivial_keys=("split_leaves_2", "split_leaves_3", "split_leaves_4", "split_leaves_5", "split_leaves_6", "split_leaves_7", "split_leaves_8", "split_leaves_9"),
        partial_note="thread interleavings, rayon's contract that every producer is folded exactly once, and data-race freedom are runtime facts outside the model; what is proved is that every split tree partitions the buckets and that drain conserves elements, for all trees and all stop positions")

def c16_signature_offenders(run):
    """The public method signatures (generated from the source) that break one of the three borrow
    rules of Model/Borrow.v, evaluated inside Coq; each with its source text from Gen/GenTypes.v."""
    ok, log = H.coq_make(["theories/Model/Borrow.vo"])
    if not ok:
        return None
    vf = os.path.join(run.wdir, "offenders.v")
    open(vf, "w").write("From Coq Require Import String List.\nFrom HB Require Import Gen.GenTypes Model.Borrow.\n"
                        "Eval vm_compute in (map (fun g => (s_owner g, s_name g, negb (rule_U g), negb (rule_B g), negb (rule_L g), negb (rule_S g))) "
                        "(filter (fun g => negb (sig_ok g)) gen_sigs)).\n")
    rc, out = H.sh(["coqc", "-noglob", "-Q", "theories", "HB", vf], cwd=H.COQ, timeout=600)
    if rc != 0:
        return None
    offs = re.findall(r'\("([^"]+)",\s*"([^"]+)",\s*(true|false),\s*(true|false),\s*(true|false),\s*(true|false)\)', out.replace("\n", " "))
    src = {}
    try:
        gt = open(os.path.join(H.COQ, "theories", "Gen", "GenTypes.v")).read()
        for m in re.finditer(r'\(\* (pub [^\n]*?) \*\)\nDefinition sig_\d+ : fsig := mkSig "([^"]+)" "([^"]+)"', gt):
            src[(m.group(2), m.group(3))] = m.group(1)
    except OSError:
        pass
    res = []
    for o, n, u, b, l, sh in offs:
        why = []
        if sh == "true": why.append("(S) it is a `&self` method of a handle that holds the unique borrow of the collection, and its return type names that borrow's lifetime: the result outlives the `&self` borrow, so the handle can be advanced or dropped while the result still points into the table")
        if u == "true": why.append("(U) its return type can write or move out through a borrow (`&mut`, or a handle type holding the unique borrow of the collection) but the receiver is not `&mut self` / `self`")
        if b == "true": why.append("(B) its return type borrows but there is no receiver and no borrowed argument to borrow from")
        if l == "true": why.append("(L) a named lifetime of its return type is not bound by the impl block or by an input of the fn")
        res.append((o, n, src.get((o, n), "?"), "; ".join(why)))
    return res

def check_c16(run):
    pid = "C16"
    cs = H.coq_stage(run, pid)
    rc, out = H.sh([sys.executable, os.path.join(H.ROOT, "tools", "c16_probes.py"), "--repo", H.REPO, "--work", os.path.join(run.wdir, "probes"),
                    "--tier", run.tier], timeout=1500)
    fails = re.findall(r"^PROBE-FAIL (\S+) (.*)$", out, re.M)
    st = {k: int(v) for k, v in re.findall(r"(\w+)=(\d+)", (re.findall(r"^STATS .*$", out, re.M) or [""])[-1])}
    prop = [(k, t) for k, t in fails if k == "property"]
    tie = [(k, t) for k, t in fails if k != "property"]
    sig_offs = c16_signature_offenders(run) if not cs["ok"] else []
    if sig_offs:
        # the borrow clause: the offending declaration itself is the failing input
        for i, (o, n, src_t, why) in enumerate(sig_offs[:3]):
            p = run.write_replay(f"replay_sig_{i}.txt",
                f"# property C16 violated (borrow clause): the public method `{o}::{n}` is declared as\n#     {src_t}\n# {why}.\n"
                f"# Safe code can therefore hold this result together with another borrow of the same collection\n"
                f"# (Model/Borrow.v: sig_ok = false for this generated signature; Properties/C16b.v no longer checks).\n"
                f"# replay: ./hv check C16   (the signature is regenerated from /repo/src by tools/sigx.py)\n")
            run.violation(p)
    elif prop:
        for i, (k, t) in enumerate(prop[:3]):
            m = re.search(r"file=(\S+)", t)
            body = ""
            if m and os.path.exists(m.group(1)):
                body = open(m.group(1)).read()
            p = run.write_replay(f"replay_{i}.rs", f"// property C16 violated: this program must be rejected by rustc but compiles against the current /repo\n// {t}\n// replay: rustc --edition 2021 --crate-type lib --emit=metadata --extern hashbrown=<rlib> <this file>\n" + body)
            run.violation(p)
    elif (not cs["ok"]) or tie or not st:
        text = "// property C16: no failing program found, but the property is no longer shown to hold.\n"
        for w in cs["problems"] + [f"{k} {t}" for k, t in tie[:5]] + ([] if st else ["probe run failed: " + out[-400:].replace("\n", " ")]):
            text += "// broken: " + w.replace("\n", " ") + "\n"
        p = run.write_replay("replay_unproved.txt", text)
        run.violation(p, "no-failing-input-found")
    cov = {
        "obligations": cs["obligations"], "discharged": cs["discharged"],
        "checker_cmd": "cd /verif/coq && make theories/Properties/C16.vo && coqc -Q theories HB theories/Properties/C16.v  (Print Assumptions)",
        "trusted_base": H.TRUSTED_BASE + ["translator tools/sigx.py (struct/enum declarations, unsafe impl Send/Sync with bounds -> Gen/GenTypes.v)",
                                           "Model/Marker.v: a model of rustc's auto-trait and variance rules for the constructs occurring in these declarations, validated against rustc by generated probe programs",
                                           "Spec/AccessTable.v: hand-written statement of which parameters each public type gives shared / exclusive / owning access to"],
        "evaluations": st.get("probes", 0), "distinct_nontrivial": st.get("rejected", 0),
        "rule": "probe programs compiled with rustc against the freshly built hashbrown rlib: for every public type x trait (Send/Sync) x choice of a non-Send / non-Sync marker type for one parameter, acceptance must equal the Coq calculus' prediction (evaluated inside Coq); borrow probes (a handle held across a mutation / drop / scope escape must be rejected, its twin accepted) and variance probes (lifetime shortening through mutable handles must be rejected). non-trivial = probes that rustc must reject",
        "samples": [l for l in out.split("\n") if l.startswith("STATS")][:1] or ["(no probe ran)"],
        "probe_stats": st, "calculus_vs_rustc_disagreements": len(tie),
        "proof_problems": cs["problems"], "cone_files": cs.get("files", []), "print_assumptions_closed": cs.get("assumptions_closed"), "coqchk": cs.get("coqchk"),
        "partial": "the calculus is a model of rustc's trait solver / variance inference for these declarations, not a verified one; the borrow-lifetime part of the property is decided by rustc on the probe programs only (no theorem); soundness of the code behind the unsafe impls is C02's subject",
    }
    return H.finish(run, cov, "proof", assumptions=[cov["partial"]])

HT = lambda f: f.text
LEAKY = ("zero-sized elements with drop glue", "different allocator instance", "double drop", "leak", "never dropped", "blocks still allocated", "wrong layout", "unknown block", "already been dropped", "double drops")
TWICE = ("double drop", "double drops", "already been dropped", "unknown block", "wrong layout", "different allocator instance")
MEMORY = ("double drop", "red zone", "invalid layout", "unknown block", "wrong layout", "MISALIGNED", "misaligned reference", "SLOT_OUT_OF_BLOCK", "already been dropped", "two mutable references", "assertion")

def gen_fault_scripts(tier, seed, variant):
    rng = random.Random(seed)
    n = 48 if tier == "quick" else 160
    out = []
    for i in range(n):
        out.append(gen_map.make_script(rng, f"f{seed}_{i}", faults=rng.choice([0.15, 0.3, 0.5]), clone_ops=(i % 3 == 0)))
    # collision runs at exact capacity with a fault armed before a fraction of the steps
    # (the in-place rehash and its unwind guard are reached from insert / entry / reserve here)
    for i in range(n // 3):
        out.append(arm_script(rng, gen_map.make_run_script(rng, f"fu{seed}_{i}"), rng.choice([0.1, 0.25])))
    # the (callback class x operation) matrix: every pair in every run
    for i in range(n // 2):
        out.append(gen_map.make_fault_matrix_script(rng, f"fm{seed}_{i}"))
    # the k-th Hash call panics inside an in-place rehash with swaps (every insertion API)
    for i in range(n // 3):
        out.append(gen_map.make_rehash_script(rng, f"fr{seed}_{i}", kind=rng.choice(["map-drop", "map-plain"]), arm="hashpanic_nth"))
    # HashTable: destructor / predicate panics inside retain, extract_if, clear, drain, entry-insert, clone, drop
    for i in range(n // 4):
        out.append(gen_table.make_table_fault_script(rng, f"ft{seed}_{i}"))
    # ... and deterministically with the first and the LAST bucket still to be re-hashed when it panics (maps and tables)
    for i in range(n // 4):
        out.append(gen_map.make_guard_script(rng, f"fg{seed}_{i}", table=(i % 2 == 1)))
    return "".join(out)

def arm_script(rng, blk, p):
    lines = blk.rstrip("\n").split("\n")
    res = []
    for l in lines:
        if not (l.startswith("===") or l.startswith("kind") or l.startswith("hash")) and rng.random() < p:
            a = rng.choice(["hashpanic_nth", "hashpanic_nth", "hashpanic_nth", "eqpanic_nth", "droppanic_nth"])
            res.append(f"arm {a} {rng.randrange(0, 14)}")
        res.append(l)
    return "\n".join(res) + "\n"

def gen_calldep_scripts(tier, seed, variant):
    rng = random.Random(seed)
    n = 40 if tier == "quick" else 140
    out = []
    for i in range(n):
        if i % 4 == 3:
            blk = gen_table.make_script(rng, f"x{seed}_{i}")
            lines = blk.split("\n")
            k = next(j for j, l in enumerate(lines) if not (l.startswith("===") or l.startswith("kind") or l.startswith("hash")))
            lines.insert(k, rng.choice(["hashrule calldep", "hashrule calldep_near", "hashrule calldep_near", "eqrule calldep", "hashrule calldep\neqrule calldep", "hashrule calldep_near\neqrule calldep"]))
            out.append("\n".join(lines))
        else:
            out.append(gen_map.make_script(rng, f"x{seed}_{i}", calldep=rng.choice(["hash", "hash_near", "hash_near", "eq", "both", "both_near"]), many=(i % 2 == 0),
                                           nkeys=rng.choice([4, 6, 12, 24, 40])))
    # tables built lawfully up to exact capacity with tombstones, THEN the hasher turns inconsistent:
    # in-place rehash / resize / lookups with every element landing somewhere new
    for i in range(n // 2):
        out.append(gen_map.make_run_script(rng, f"xu{seed}_{i}", switch_rule=rng.choice(
            ["hashrule calldep", "hashrule calldep", "hashrule calldep_near", "hashrule calldep;eqrule calldep", "eqrule calldep"])))
    # ... and inconsistent inside a window around the EMPTY bytes, insertions through the entry path
    for i in range(n // 2):
        out.append(gen_map.make_window_script(rng, f"xw{seed}_{i}"))
    # HashTable: lookups / remove + re-insert / get_many_mut under ANOTHER element's hash
    for i in range(n // 2):
        out.append(gen_table.make_foreign_script(rng, f"xf{seed}_{i}"))
    # HashTable collision runs (degenerate but lawful hashes: many elements on one hash value, probe
    # windows without an EMPTY byte) with iter_hash / find / entry: every reference handed out must
    # point to a live element
    for i in range(n // 2):
        out.append(gen_table.make_run_script(rng, f"xq{seed}_{i}"))
    # ... and the in-place rehash with swaps under a hasher that has just turned inconsistent
    for i in range(n // 2):
        out.append(gen_map.make_rehash_script(rng, f"xr{seed}_{i}", table=(i % 4 == 3), switch_rule=rng.choice(
            ["hashrule calldep", "hashrule calldep_near", "hashrule calldep_near", "hashrule calldep;eqrule calldep", "eqrule calldep"])))
    return "".join(out)

def gen_table_scripts(tier, seed, variant):
    rng = random.Random(seed)
    n = 48 if tier == "quick" else 160
    out = [gen_table.make_script(rng, f"t{seed}_{i}") for i in range(n)]
    out += [gen_table.make_run_script(rng, f"v{seed}_{i}") for i in range(n // 2)]
    out += [gen_table.make_last_script(rng, f"vl{seed}_{i}") for i in range(n // 2)]
    out += [gen_map.make_rehash_script(rng, f"vr{seed}_{i}", table=True) for i in range(n)]
    return "".join(out)

def gen_layout_scripts(tier, seed, variant):
    """C02: every element layout (sizes 0,1,2,24,32,200; alignment up to 64), maps and tables,
    lawful and inconsistent hashers"""
    rng = random.Random(seed)
    n = 56 if tier == "quick" else 180
    out = []
    kinds = ["table-1", "table-2", "table-3", "table-6", "table-12", "table-17", "table-18", "table-zst", "table-zst64", "table-200", "table-a64", "table-drop", "table-plain"]
    for i in range(n):
        r = i % 4
        if r == 0:
            out.append(gen_map.make_script(rng, f"y{seed}_{i}", forget=(i % 8 == 0), kind="map-drop" if i % 8 == 0 else None))
        elif r == 1:
            out.append(gen_map.make_script(rng, f"y{seed}_{i}", calldep=rng.choice(["hash", "both"])))
        else:
            out.append(gen_table.make_script(rng, f"y{seed}_{i}", kind=rng.choice(kinds)))
    for i in range(n // 4):
        out.append(gen_map.make_rehash_script(rng, f"yr{seed}_{i}", table=True, kind=rng.choice(["table-6", "table-12", "table-17", "table-18", "table-200", "table-a64", "table-drop", "table-plain"])))
    # memory safety must survive panicking callbacks too (a destructor that panics while a Drain / IntoIter /
    # clear / retain is releasing elements, a hasher that panics inside a rehash): the (callback x operation) matrix
    for i in range(n // 4):
        out.append(gen_map.make_fault_matrix_script(rng, f"yf{seed}_{i}", kind="map-drop"))
    # zero-sized elements (plain, over-aligned, with drop glue) and tiny ones: insert, remove, retain /
    # extract_if / drain from many different buckets -- for a zero-sized type the bucket `pointer` is an
    # encoded index, decoded again by erase / remove (deterministic)
    for i, kind in enumerate(["table-zst", "table-zst64", "table-zstd", "table-1", "table-a64"]):
        out.append(gen_table.make_zst_removal_script(rng, f"yz{seed}_{i}", kind))
    return "".join(out)

def gen_clone_scripts(tier, seed, variant):
    rng = random.Random(seed)
    n = 48 if tier == "quick" else 160
    out = [gen_map.make_script(rng, f"c{seed}_{i}", clone_ops=True, kind=rng.choice(["map-drop", "map-drop", "map-plain", "map-nc"])) for i in range(n)]
    # clone_from between two separately constructed maps (two allocator instances), both directions
    out += [gen_map.make_two_allocator_script(rng, f"c2a{seed}_{i}") for i in range(n // 6)]
    # equal capacity(), different bucket counts (one side half emptied by single removals): deterministic
    out += [gen_map.make_clone_from_capacity_script(rng, f"cq{seed}_{i}", kind=k) for i, k in enumerate(["map-drop", "map-plain"])]
    return "".join(out)

def check_c02(run):
    return script_property(
        run, gen_layout_scripts,
        relevant=lambda f: f.kind == "CRASH" or (f.kind == "B-FAIL" and "SafeWF" in f.text) or (f.kind in ("H-FAIL", "A-FAIL") and any(k in f.text for k in MEMORY)) or (f.kind == "A-FAIL" and "library panicked" in f.text),
        rule="safe-API histories over HashMap (two element flavours) and HashTable with element sizes 0, 1, 2, 24, 32, 200 and alignment up to 64 (> group width), lawful and call-dependent hashers, all hash-plan classes; the harness allocator puts red zones around every block and poisons fresh / freed memory, checks the layout of every request and release, the alignment of the control bytes and of every element slot and that every slot lies inside the block; iterators, drains, extract_if and entries are leaked with mem::forget part-way (the collection must stay valid: empty singleton after a leaked drain / into_iter, unchanged after a leaked entry); every dumped state must satisfy SafeWF (counters = number of FULL bytes, mirror bytes, at least one EMPTY byte ...) via the extracted wf_check; debug assertions of the library are enabled (debug profile) and count as findings",
        partial_note="Coq cannot exhibit undefined behaviour of compiled Rust (aliasing/provenance, validity of reads, the intrinsics); what is proved is the index / initialisation / ownership discipline: the model's checked primitives never fire (map_step_safe) and SafeWF is preserved for every operation and every hasher")

def gen_release_fault_scripts(tier, seed, variant):
    """C03: interrupted operations must not lose objects either: Clone panics inside clone /
    clone_from (the unwind guard owns the clones made so far), hasher panics inside rehash / resize
    (the guards own the unprocessed elements / the new block), refused allocations.  Destructor
    panics are NOT armed here (they may legitimately leak)."""
    rng = random.Random(seed)
    n = 24 if tier == "quick" else 80
    out = []
    for i in range(n):
        out.append(gen_map.make_script(rng, f"rf{seed}_{i}", kind="map-drop", clone_ops=True, faults=rng.choice([0.15, 0.3]),
                                       arms=["clonepanic_nth", "clonepanic_nth", "hashpanic_nth", "refuse_nth"]))
    # a destructor that panics while drain / into_iter / clear / retain / drop / clone_from release elements
    # may leak the rest, but nothing may be released TWICE (scripts rd*: judged for double releases only)
    for i in range(3 if tier == "quick" else 10):
        out.append(gen_map.make_fault_matrix_script(rng, f"rd{seed}_{i}", kind="map-drop", only_arm="droppanic_nth"))
    return "".join(out)

def gen_zst_token_scripts(tier, seed, variant):
    """zero-sized elements WITH drop glue and an observable Clone (counted tokens): every way of leaving
    a HashTable (retain, extract_if, drain, clear, find_entry + remove, drop) and clone"""
    rng = random.Random(seed + 31)
    out = [gen_table.make_zst_removal_script(rng, f"zt{seed}_0", "table-zstd")]
    for i in range(4 if tier == "quick" else 12):
        out.append(gen_table.make_script(rng, f"zs{seed}_{i}", kind="table-zstd"))
    return "".join(out)

def check_c03(run):
    return script_property(
        run, lambda tier, seed, v: gen_map_scripts(tier, seed, v) + gen_table_scripts(tier, seed + 1, v) + gen_clone_scripts(tier, seed + 2, v) + gen_release_fault_scripts(tier, seed + 3, v) + gen_par_scripts(tier, seed + 4, v) + gen_zst_token_scripts(tier, seed, v),
        relevant=lambda f: f.kind == "CRASH" or (f.kind == "H-FAIL" and any(k in f.text for k in (TWICE if (f.script or "").startswith("rd") else LEAKY))),
        rule="HashMap / HashTable / clone-family histories with drop-tracked elements (every key and value object carries a serial number in a registry) and the ledger allocator: after EVERY operation each object ever created must be stored in a collection, held by the caller, or dropped exactly once; a second drop of a serial, a stored object that was already dropped, a release with a different layout than the request, and anything still alive or allocated after the collections are dropped are findings; leaving routes exercised: remove, overwrite, clear, retain, extract_if, drain (0, some, all consumed), into_iter / into_keys / into_values (0, some, all consumed; also on emptied but still allocated collections), shrink, clone_from into occupied targets, drop; interrupted operations (the k-th Clone or Hash call panics, a refused allocation) must not lose or duplicate an object either; allocator events are also compared in order with the extracted model; the owning iterators are compared step by step with Model/OwnIter.v (yielded elements, destructor and release events in order, incl. fold / for_each consumers that panic part-way and leaked iterators); the parallel owning iterators (into_par_iter, par_drain over maps, sets and tables, incl. short-circuiting consumers) run under the same registry")

def check_c04(run):
    return script_property(
        run, gen_fault_scripts,
        relevant=lambda f: f.kind in ("CRASH", "A-FAIL", "B-FAIL", "H-FAIL"),
        rule="HashMap histories in which a fraction (15-50%) of the operations is preceded by a fault arming: the k-th Hash call (k in 0..13) or the hashing of a chosen key panics, the k-th Eq call, the k-th destructor, the k-th Clone, the k-th retain/extract_if predicate call panics, or the allocator refuses a fallible request; drop and no-drop element types, clone / clone_from / == in a third of the scripts; after catch_unwind the dumped state must satisfy the full invariant (wf_check: len = number of FULL buckets, every stored element reachable by lookup), its contents must be explainable from the pre-state and the operation's arguments, and the registry must show no double drop and no leak unless the panic came out of a destructor; plus a (callback class x operation) matrix -- Drop x {retain, clear, drain, drop, insert/remove of a present key, into_iter, extend, clone_from}, predicate x {retain, extract_if}, Eq x {insert, remove, get, entry}, Hash x {insert, reserve, entry, shrink_to_fit, extend, insertion / rustc_entry into a table at exact capacity full of tombstones (in-place rehash)}, Clone x {clone, clone_from} -- with the k-th call (k in 0..5) panicking, every pair in every run; corpus: the replays of the two defects found and fixed (F1, F3)",
        nontrivial_keys=("unwind",))

def check_c05(run):
    return script_property(
        run, gen_calldep_scripts,
        relevant=lambda f: f.kind == "CRASH" or (f.kind == "B-FAIL" and "SafeWF" in f.text) or (f.kind == "H-FAIL") or (f.kind == "A-FAIL" and ("len()=" in f.text or "library panicked" in f.text)),
        levels="B",
        rule="HashMap and HashTable histories (incl. get_many_mut with repeated keys: the addresses of the returned &mut references are compared) under inconsistent Hash (a fresh pseudo-random hash on every call; or a fresh hash with a constant tag and one of 8 neighbouring positions, so that lookups under a different hash still reach stored elements), inconsistent Eq (a pseudo-random answer on every call), or both: every operation must return (harness timeout = non-termination finding), every dumped state must satisfy SafeWF (in particular len() = number of stored elements), the registry must show every element dropped exactly once, the allocator ledger must balance; lookup results are not judged")

def check_c06(run):
    return script_property(
        run, gen_table_scripts,
        relevant=lambda f: f.kind in ("A-FAIL", "CRASH") or (f.kind == "B-FAIL" and "Tags/Reach" in f.text),
        rule="HashTable histories with caller-supplied hashes (8 hash-plan classes incl. all-colliding; duplicates of identical ids; value-class predicates that match several entries; remove + re-insert through the returned VacantEntry; get_many_mut with colliding requests; iter_hash): every step bit-exact against the extracted model (C), the multiset acceptor MultisetSpec (A: an element inserted with hash h and matching the closure must be found; only live elements returned; iter_hash complete and duplicate free; len = multiset cardinality) and wf_check (B)",
        nontrivial_keys=("remove_reinsert", "get_many_mut_2plus", "iter_hash", "tombstones_present"))

def gen_removal_scripts(tier, seed, variant):
    rng = random.Random(seed + 11)
    n = 24 if tier == "quick" else 80
    out = [gen_iter_scripts(tier, seed, variant)]
    for i in range(n):
        out.append(gen_map.make_removal_script(rng, f"rm{seed}_{i}"))
    for i in range(n // 2):
        out.append(gen_table.make_removal_script(rng, f"rt{seed}_{i}"))
    # zero-sized and tiny elements through retain / extract_if / drain (deterministic)
    for i, kind in enumerate(["table-zst", "table-zst64", "table-zstd", "table-1", "table-3", "table-17"]):
        out.append(gen_table.make_zst_removal_script(rng, f"rz{seed}_{i}", kind))
    # a collision chain longer than a group with len() <= group width: extract_if / retain from the first group
    for i in range(3):
        out.append(gen_table.make_chain_extract_script(rng, f"rc{seed}_{i}"))
    return "".join(out)

def check_c10(run):
    ops = ("retain", "extractif", "drain", "tretain", "textractif", "tdrain")
    return script_property(
        run, gen_removal_scripts,
        relevant=lambda f: f.kind == "CRASH" or (f.kind in ("A-FAIL", "H-FAIL", "B-FAIL", "K-FAIL") and (op_in(f, ops) or "retain called" in f.text or (f.script or "").startswith(("rm", "rt")))),
        rule="HashMap / HashSet / HashTable histories rich in retain (random keep sets incl. none and all, values bumped through &mut), extract_if (random selections, dropped after 0, 1, some, all results) and drain (consumed 0, 1, some, all); plus removal scripts on collision runs of 3..57 elements (keep / selection sets none, one, some, all; tombstones arise while the operation erases; afterwards the table is refilled and len / capacity / iteration / lookups are observed, every step of such a script is relevant); the harness counts predicate calls (exactly one per element); survivors, yielded elements and the emptied-but-allocated table are compared with the extracted model bit for bit and with the reference map/multiset")

def gen_eq_scripts(tier, seed, variant):
    rng = random.Random(seed + 23)
    n = 16 if tier == "quick" else 60
    return "".join(gen_set.make_eq_script(rng, f"q{seed}_{i}") for i in range(n))

def check_c11(run):
    return script_property(
        run, lambda tier, seed, v: gen_clone_scripts(tier, seed, v) + gen_eq_scripts(tier, seed, v) + gen_zst_token_scripts(tier, seed, v),
        relevant=lambda f: f.kind == "CRASH" or (f.kind in ("A-FAIL", "H-FAIL", "B-FAIL", "C-MISMATCH") and False) or (f.kind in ("A-FAIL", "H-FAIL", "B-FAIL") and (op_in(f, ("o_", "eq", "tclone")) or any(k in f.text for k in ("clone", "symmetric", "shares an element")))),
        rule="HashMap histories with a second map: clone(), clone_from into targets in every state (unallocated, smaller, equal, larger bucket count, with tombstones), swap, ==; the clone must hold equal elements with fresh serial numbers (no object shared), later operations on one map must leave the other's dump unchanged (checked after every step), clone_from must drop every old target element exactly once and free the old block iff the bucket counts differ (events compared with the extracted model), == must equal the mathematical comparison of the abstract contents and be symmetric; differently seeded hashers via a salted BuildHasher",
        nontrivial_keys=("clone_family_same_buckets", "clone_family_target_smaller", "clone_family_target_larger"))

def gen_capacity_scripts(tier, seed, variant):
    rng = random.Random(seed)
    n = 40 if tier == "quick" else 140
    out = []
    for i in range(n):
        if i % 3 == 2:
            out.append(gen_table.make_script(rng, f"k{seed}_{i}", kind=rng.choice(["table-drop", "table-plain", "table-1", "table-2", "table-3", "table-6", "table-12", "table-17", "table-18", "table-3", "table-6", "table-200", "table-zst", "table-zst64"])))
        else:
            out.append(gen_map.make_script(rng, f"k{seed}_{i}"))
    for i in range(n):
        out.append(gen_map.make_shrink_script(rng, f"ks{seed}_{i}"))
    for i in range(n // 2):
        out.append(gen_map.make_rehash_script(rng, f"kr{seed}_{i}", table=(i % 3 == 2), fresh=rng.choice(["reserve", "tryreserve", "insert", "any"])))
    # every element kind at every small bucket count, allocation_size read at each stage (deterministic)
    for i, kind in enumerate(["table-1", "table-2", "table-3", "table-6", "table-12", "table-17", "table-18", "table-200", "table-a64", "table-zst", "table-zst64", "table-plain", "table-drop"]):
        out.append(gen_table.make_layout_script(rng, f"kl{seed}_{i}", kind))
    # tables whose capacity() has fallen to len() because every removal left a marker, then shrink_to_fit / shrink_to
    for i in range(4):
        out.append(gen_table.make_tomb_shrink_script(rng, f"kt{seed}_{i}"))
    # a clustered block removed from a full run, then absent keys inserted: no allocator call while the
    # collection's own capacity() - len() is positive
    for i, kind in enumerate(["table-plain", "table-drop", "table-6"]):
        out.append(gen_table.make_spare_capacity_script(rng, f"kp{seed}_{i}", kind))
    return "".join(out)

def check_c08(run):
    return script_property(
        run, gen_capacity_scripts,
        relevant=lambda f: f.kind in ("K-FAIL", "CRASH"),
        rule="HashMap / HashTable histories (element sizes 0, 1, 2, 24, 32, 200) with with_capacity / reserve / try_reserve / shrink_to / shrink_to_fit at n, m in {0,1,2,3,7,8,14,15,28,29,56,57, random up to 4x the size} between insertions and removals; judged on the implementation's own dumps after every step: capacity() >= len(); after with_capacity(n) / reserve(n) / successful try_reserve(n) at least n more elements fit; an insertion while capacity()-len() > 0 performs no allocator call and keeps the bucket count; with_capacity(0) allocates nothing; clear and drain keep the allocation; allocation_size() equals the size of the live block; shrink_to never enlarges the allocation, keeps capacity >= max(len, min(m, previous capacity)), frees everything for an empty collection and m = 0, and otherwise leaves at most the bucket count of a fresh with_capacity(max(len, m)) (computed with the extracted Gen.capacity_to_buckets)")

def gen_tryreserve_scripts(tier, seed, variant):
    rng = random.Random(seed)
    n = 40 if tier == "quick" else 140
    out = []
    for i in range(n):
        if i % 4 == 3:
            blk = gen_table.make_script(rng, f"r{seed}_{i}", kind=rng.choice(["table-zst", "table-zst64", "table-1", "table-3", "table-6", "table-17", "table-200", "table-drop"]))
            lines = blk.rstrip("\n").split("\n")
            res = []
            for l in lines:
                res.append(l)
                if l.startswith("t") and rng.random() < 0.15:
                    if rng.random() < 0.5:
                        res.append(f"arm refuse_nth 0")
                    res.append(f"ttryreserve {rng.choice([0, 1, 7, 28, 57, 1000, (1 << 64) - 1, (1 << 63) - 1, (1 << 63), (1 << 61), (1 << 60) + 1, ((1 << 64) - 1) // 200, ((1 << 64) - 1) // 200 + 1])}")
            out.append("\n".join(res) + "\n")
        else:
            out.append(gen_map.make_script(rng, f"r{seed}_{i}", faults=0.3, arms=["refuse_nth"]))
    for i in range(n // 3):
        out.append(gen_map.make_rehash_script(rng, f"rr{seed}_{i}", table=(i % 3 == 2), fresh="tryreserve"))
    return "".join(out)

def c12_layout_probe(run):
    """The element types of the harness end at 200 bytes; the overflow clause of C12 for ENORMOUS
    element types (table size within a few bytes of isize::MAX) is probed through the hook wrapper
    of TableLayout::calculate_layout_for -- the very function try_reserve consults -- on a grid of
    (element size, bucket count) pairs whose total lies within +-48 bytes of isize::MAX, judged by the
    layout validity rule (independent of the model)."""
    out = []
    ok, exe = H.build_harness("sse2-debug")
    if not ok:
        return out
    gw = 16
    qs = []
    for k in range(0, 40):
        b = 1 << k
        for al in (16, 64):
            for d in range(-48, 49, 1 if k < 6 else 7):
                s = (ISIZE_MAX + d - b - gw) // b
                if s >= 1:
                    qs.append(f"layout {s} {al} {b}")
    qp = os.path.join(run.wdir, "q_layout.txt"); ap = os.path.join(run.wdir, "a_layout.txt")
    open(qp, "w").write("\n".join(qs) + "\n")
    rc = subprocess.run([exe, "arith"], stdin=open(qp), stdout=open(ap, "w"), stderr=subprocess.PIPE)
    n = 0
    for line in open(ap):
        if " = " not in line:
            continue
        n += 1
        viol = c17_oracle(gw, line.rstrip("\n"))
        if viol and len(out) < 3:
            f = H.Finding("R-FAIL", f"layout probe: try_reserve on such a table would not report CapacityOverflow correctly: {viol}", None, None)
            f.replay_hint = f"echo '{line.split(' = ')[0]}' | /verif/harness/target-sse2-debug/debug/hbx arith"
            out.append(f)
    if rc.returncode != 0 or n < len(qs):
        bad = qs[n] if n < len(qs) else "?"
        f = H.Finding("R-FAIL", f"layout probe: the layout computation panicked or aborted on `{bad}` (an invalid Layout was constructed?): {rc.stderr.decode('utf-8', 'replace')[-200:]}", None, None)
        f.replay_hint = f"echo '{bad}' | /verif/harness/target-sse2-debug/debug/hbx arith"
        out.append(f)
    run.layout_probe_queries = n
    return out

def check_c12(run):
    run.extra_findings = c12_layout_probe(run)
    return script_property(
        run, gen_tryreserve_scripts,
        relevant=lambda f: f.kind in ("R-FAIL", "CRASH") or (f.kind == "K-FAIL" and "try_reserve" in f.text) or (f.kind == "H-FAIL" and "invalid layout" in f.text) or (f.kind == "A-FAIL" and "library panicked" in f.text and op_in(f, ("tryreserve", "ttryreserve"))),
        rule="HashMap / HashTable histories (element sizes 0, 1, 32, 200) with try_reserve(additional) at additional in {small, around 7/8*2^k, 2^60+1, 2^61, 2^63-1, 2^63, usize::MAX, usize::MAX/size_of::<T>() +-1} with and without the allocator refusing the request; judged on the implementation: try_reserve always returns (no panic, no abort); on an error the dumped table and its block are identical to the pre-state and the operation performed no allocation, release or drop; AllocError carries exactly the refused layout; CapacityOverflow only without a refused request; every request the ledger allocator sees has a valid layout (non-zero size, power-of-two alignment, size <= isize::MAX - (align-1)); steps with representable sizes are also compared with the extracted model; a successful try_reserve(n) must leave room for n more elements; plus a probe of TableLayout::calculate_layout_for (hook wrapper) on ~2000 (element size, bucket count) pairs whose table size lies within 48 bytes of isize::MAX (enormous element types)",
        nontrivial_keys=("huge_capacity_request",))

def gen_churn_scripts(tier, seed, variant):
    rng = random.Random(seed)
    n = 48 if tier == "quick" else 120
    ln = None if tier == "quick" else 3000
    out = "".join(gen_map.make_churn_script(rng, f"g{seed}_{i}", table=(i % 3 == 2), length=ln) for i in range(n))
    # churn that is reclaimed IN PLACE: exact fill, removals leaving tombstones, new keys until the table rehashes
    out += "".join(gen_map.make_rehash_script(rng, f"gr{seed}_{i}", table=(i % 3 == 2), fresh=rng.choice(["insert", "entry_or_insert", "insert"])) for i in range(n // 2))
    # churn that empties the table completely by individual removals (tombstones all over), refills, empties again
    out += "".join(gen_map.make_empty_refill_script(rng, f"ge{seed}_{i}", table=(i % 3 == 2)) for i in range(n // 3))
    return out

def check_c13(run):
    return script_property(
        run, gen_churn_scripts,
        relevant=lambda f: f.kind in ("G-FAIL", "CRASH") or (f.kind == "B-FAIL" and "SafeWF" in f.text) or (f.kind == "A-FAIL" and "library panicked" in f.text),
        rule="insert/remove interleavings (fifo / lifo / random / sawtooth) of 300-3000 steps whose live size never exceeds n in {1..50}, through HashMap::insert / entry / remove and HashTable::insert_unique / find_entry+remove, under all 8 hash-plan classes (well mixed through all-colliding), with a lookup of an absent key every 50 steps; after every step the dumped bucket count must satisfy the proved invariant (at most 16 buckets, or a table of half the size could not hold 2(n+1) elements) for the largest live size seen so far; every dumped state must satisfy SafeWF, whose counter clauses (growth_left = usable EMPTY slots, at least one EMPTY byte) are what probe termination rests on; a harness timeout (non-terminating operation) or a fired probe-overrun assertion is a finding")

def gen_entry_scripts(tier, seed, variant):
    """C14: entry-style operations at full load, on tombstone-saturated and unallocated tables"""
    rng = random.Random(seed)
    n = 48 if tier == "quick" else 160
    out = []
    for i in range(n + n // 2):
        # the last third: collision runs (wrap-around placements, tombstones, exact capacity)
        blk = gen_map.make_script(rng, f"e{seed}_{i}") if i < n else gen_map.make_run_script(rng, f"eu{seed}_{i}")
        lines = blk.rstrip("\n").split("\n")
        res = []
        stamp = 100000
        nk = 20
        m = re.search(r"nkeys=(\d+)", lines[0])
        if m:
            nk = int(m.group(1))
        for l in lines:
            res.append(l)
            if not (l.startswith("===") or l.startswith("kind") or l.startswith("hash")) and rng.random() < 0.35 and not l.startswith("extractif"):
                stamp += 1
                k = rng.randrange(nk + 3)
                res.append(rng.choice([f"entry_or_insert {k} {stamp} {rng.randrange(500)}", f"entry_insert {k} {stamp} {rng.randrange(500)}",
                                       f"entry_remove {k} {stamp}", f"entry_and_modify {k} {stamp} {rng.randrange(4)} {rng.randrange(500)}",
                                       f"entry_drop {k} {stamp}", f"tryinsert {k} {stamp} {rng.randrange(500)}",
                                       f"rentry_or_insert {k} {stamp} {rng.randrange(500)}", f"rentry_insert {k} {stamp} {rng.randrange(500)}",
                                       f"rentry_remove {k} {stamp}", f"rentry_drop {k} {stamp}",
                                       f"raw_or_insert {k} {stamp} {rng.randrange(500)}", f"raw_insert {k} {stamp} {rng.randrange(500)}",
                                       f"raw_remove {k} {stamp}", f"raw_get {k}",
                                       f"eref_or_insert {k} {stamp} {rng.randrange(500)}", f"eref_insert {k} {stamp} {rng.randrange(500)}",
                                       f"eref_drop {k} {stamp}",
                                       f"entry_replace {k} {stamp} some {rng.randrange(500)}", f"entry_replace {k} {stamp} none 0",
                                       f"entry_and_replace {k} {stamp} some {rng.randrange(500)}", f"entry_and_replace {k} {stamp} none 0",
                                       f"raw_replace {k} {stamp} some {rng.randrange(500)}", f"raw_replace {k} {stamp} none 0",
                                       f"raw_and_replace {k} {stamp} {rng.choice(['some', 'none'])} {rng.randrange(500)}"]))
        out.append("\n".join(res) + "\n")
    # entry-style insertions of new keys into tables full of tombstones (the reserve inside rehashes in place)
    for i in range(n // 2):
        out.append(gen_map.make_rehash_script(rng, f"er{seed}_{i}", fresh=rng.choice(["entry_or_insert", "entry_insert", "tryinsert", "entry_and_modify",
                   "rentry_or_insert", "rentry_insert", "rentry_drop", "raw_or_insert", "raw_insert", "eref_or_insert", "eref_insert", "any"])))
    gw = 8 if "generic" in variant else 16
    for i in range(n // 3):
        out.append(gen_map.make_stale_slot_script(rng, f"es{seed}_{i}", gw=gw))
    return "".join(out) + gen_set_scripts(tier, seed + 7, variant)

def check_c14(run):
    ops = ("entry_", "rentry_", "raw_", "eref_", "tryinsert", "sgetorinsert", "sreplace", "sentry_insert", "xor_assign")
    return script_property(
        run, gen_entry_scripts,
        relevant=lambda f: f.kind == "CRASH" or (f.kind in ("A-FAIL", "B-FAIL") and op_in(f, ops)),
        rule="HashMap histories in which a third of the steps is followed by an entry-style operation on a present or absent key: entry(k).or_insert / insert / and_modify().or_insert / remove_entry / dropped unused, try_insert; plus HashSet histories with get_or_insert, get_or_insert_with, replace, entry(v).insert and `^=`; the states include growth_left = 0 (capacity() = len()), tombstone-laden tables and the unallocated singleton (counted in hard_branch_counts); every step is compared bit for bit with the extracted model and judged by the reference map, whose entry semantics are the get / insert / remove expansions; the same operations through rustc_entry (model: reserve(1) when the key is absent, then the entry operation -- also when the vacant entry is dropped unused), raw_entry_mut().from_key / from_key_hashed_nocheck, raw_entry().from_key and entry_ref (key built by From<&K>); replace_entry_with / and_replace_entry_with on Entry and RawEntryMut with closures returning Some (= overwrite: the primitive removes the element and puts it back, control bytes, mirror bytes and growth_left must be exactly as before) and None (= remove)",
        nontrivial_keys=("pre_growth_left_0", "tombstones_present", "small_table"))

def gen_many_scripts(tier, seed, variant):
    rng = random.Random(seed)
    n = 36 if tier == "quick" else 120
    out = []
    for i in range(n):
        if i % 2:
            out.append(gen_table.make_script(rng, f"q{seed}_{i}"))
        else:
            out.append(gen_map.make_script(rng, f"q{seed}_{i}", many=True))
    for i in range(n):
        out.append(gen_table.make_many_script(rng, f"qm{seed}_{i}"))
    # requests whose hashes differ although they resolve to one entry (a borrowed form that hashes
    # differently, a Hash that is not a function of the key): still no two &mut to one entry
    for i in range(n // 2):
        out.append(gen_map.make_script(rng, f"qx{seed}_{i}", calldep="hash_near", many=True, nkeys=rng.choice([4, 6, 12]), length=60))
    return "".join(out)

def check_c15(run):
    # the zero-sized-element probe (a dedicated program: the scripted elements cannot express
    # distinct entries of a ZST table)
    extra = []
    ok, exe = H.build_harness("sse2-debug")
    if ok:
        rc, out = H.sh([exe, "zst"], timeout=60)
        lines = [l for l in out.split("\n") if l.startswith("ZST ")]
        for l in lines[:3]:
            fz = H.Finding("A-FAIL", l.strip(), None, None)
            fz.replay_hint = "cd /verif/harness && RUSTFLAGS='--cfg hashbrown_verif' cargo run --offline --target-dir target-sse2-debug -- zst   (prints every failing request tuple)"
            extra.append(fz)
        if rc != 0 or "ZSTSTAT" not in out:
            extra.append(H.Finding("CRASH", "ZST probe (hbx zst) did not complete: " + out[-300:].replace("\n", " "), None, None))
    run.extra_findings = extra
    return script_property(
        run, gen_many_scripts,
        relevant=lambda f: f.kind == "CRASH" or (f.kind in ("A-FAIL", "H-FAIL", "B-FAIL") and (op_in(f, ("getmanymut", "tgetmanymut")) or "two mutable references" in f.text or f.text.startswith("ZST"))),
        rule="HashMap histories with get_many_key_value_mut / get_many_mut on N = 0..4 keys (present, absent, repeated, colliding in position and tag bits under the 8 hash-plan classes) and HashTable histories with get_many_mut whose closures are key equalities or value-class predicates matching several entries; the harness compares the addresses of the returned &mut (two equal addresses = finding) and writes through them; plus dedicated get_many_mut scripts on tables whose elements share a tag, with closures from exact to always-true and requests under other elements' hashes (two different hashes resolving to one entry), adjacent and non-adjacent repeats; results (request order, Some/None, which entry), the written values and the duplicate panic are compared with the extracted model (HashMap::get_many_mut = RawTable::get_many_mut with key closures = Table.table_step TGetManyMut) and judged by the reference multiset; plus a dedicated probe of tables of 1..20 zero-sized elements with every tuple of up to 3 requests over present / absent / repeated hashes (799 calls: must panic exactly when two requests name the same present entry)",
        nontrivial_keys=("get_many_mut_2", "get_many_mut_3", "get_many_mut_4", "get_many_mut_2plus"))

PROPS = {
    "C17": check_c17,
    "C15": check_c15,
    "C01": check_c01, "C14": check_c14,
    "C08": check_c08, "C12": check_c12, "C13": check_c13,
    "C02": check_c02, "C03": check_c03, "C04": check_c04, "C05": check_c05, "C06": check_c06, "C10": check_c10, "C11": check_c11,
    "C16": check_c16,
    "C09": check_c09,
    "C20": check_c20,
    "C19": check_c19,
    "C07": check_c07,
    "C18": check_c18,
}
