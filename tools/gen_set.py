#!/usr/bin/env python3
"""gen_set.py -- histories over two HashSets A and B (different construction histories, so equal
sets have different layouts / capacities / tombstones) interleaved with the binary set algebra."""
import random, sys
from gen_map import plan_hash, PLANS

BINOPS = ["union", "intersection", "difference", "symdiff", "is_subset", "is_superset", "is_disjoint", "eq",
          "bitor", "bitand", "bitxor", "sub", "or_assign", "and_assign", "xor_assign", "sub_assign"]

SELFOPS = ["union", "intersection", "difference", "symdiff", "is_subset", "is_superset", "is_disjoint", "eq", "bitor", "bitand", "bitxor", "sub"]

def make_script(rng, name, kind=None, plan=None, nkeys=None, length=None):
    kind = kind or rng.choice(["set-drop", "set-drop", "set-plain"])
    plan = plan or rng.choice(PLANS)
    nkeys = nkeys or rng.choice([5, 8, 16, 40, 90])
    length = length or rng.choice([40, 80, 140])
    salt = rng.getrandbits(32)
    lines = [f"kind {kind}"] + [f"hash {k} {plan_hash(plan, k, rng, salt)}" for k in range(nkeys + 4)]
    stamp = 0
    steps = 0
    sizes = {"A": 0, "B": 0}
    # half of the scripts: the two sets carry DIFFERENT hasher state (a seed of B's own)
    if rng.random() < 0.5:
        lines.append(f"B salt {rng.randrange(1, 1 << 32)}")
    # the empty set paired with itself, never allocated / emptied but allocated
    for op in rng.sample(SELFOPS, 4):
        lines.append("self " + op)
    if rng.random() < 0.5:
        lines += ["A sinsert 1 0", "A sremove 1"] + ["self " + op for op in rng.sample(SELFOPS, 4)]
    while steps < length:
        phase = rng.choice(["fillA", "fillB", "mixed", "bin", "bin", "mirror", "shrink"])
        n = rng.randrange(1, 14)
        for _ in range(n):
            stamp += 1
            k = rng.randrange(nkeys + 2)
            t = "A" if phase == "fillA" else "B" if phase == "fillB" else rng.choice("AB")
            if phase in ("fillA", "fillB"):
                lines.append(f"{t} sinsert {k} {stamp}")
            elif phase == "mixed":
                op = rng.choice(["sinsert", "sinsert", "sremove", "sremove", "sreplace", "stake", "sget", "sgetorinsert",
                                 "sgetorinsertwith", "sentry_insert", "contains", "iter", "retain", "drain", "extractif", "clear", "len"])
                if op in ("sinsert", "sreplace", "sgetorinsert", "sentry_insert"):
                    lines.append(f"{t} {op} {k} {stamp}")
                elif op == "sgetorinsertwith":
                    fk = k if rng.random() < 0.8 else (k + 1) % nkeys
                    lines.append(f"{t} {op} {k} {stamp} {fk}")
                elif op in ("sremove", "stake", "sget", "contains"):
                    lines.append(f"{t} {op} {k}")
                elif op == "retain":
                    keep = [x for x in range(nkeys) if rng.random() < rng.choice([0.2, 0.8])]
                    lines.append(f"{t} retain 0 " + " ".join(map(str, keep)))
                elif op == "drain":
                    lines.append(f"{t} drain {rng.choice([0, 1, 3, 1000])}")
                elif op == "extractif":
                    sel = [x for x in range(nkeys) if rng.random() < 0.4]
                    lines.append(f"{t} extractif {rng.choice([0, 1, 2, 1000])} " + " ".join(map(str, sel)))
                else:
                    lines.append(f"{t} {op}")
            elif phase == "mirror":
                # make the sets overlap: same key into both, different stamps
                lines.append(f"A sinsert {k} {stamp}")
                stamp += 1
                lines.append(f"B sinsert {k} {stamp}")
                steps += 1
            elif phase == "shrink":
                lines.append(f"{t} " + rng.choice(["shrinktofit", f"shrinkto {rng.randrange(0, 30)}", f"reserve {rng.randrange(0, 40)}"]))
            else:
                # one in five binary operations pairs A with ITSELF (the same object on both sides)
                lines.append(("self " + rng.choice(SELFOPS)) if rng.random() < 0.2 else rng.choice(BINOPS))
            steps += 1
    return f"=== {name} plan={plan} nkeys={nkeys}\n" + "\n".join(lines) + "\n"

def make_eq_script(rng, name, kind=None):
    """C11: == of two HashSets must not depend on capacity, removal history or which side is larger:
    equal length with one differing element / identical contents / proper subsets, the left or the
    right operand having the larger capacity (reserve, grown-then-emptied, shrunk)."""
    kind = kind or rng.choice(["set-drop", "set-plain"])
    plan = rng.choice(PLANS)
    nkeys = 64
    salt = rng.getrandbits(32)
    lines = [f"kind {kind}"] + [f"hash {k} {plan_hash(plan, k, rng, salt)}" for k in range(nkeys + 4)]
    stamp = [0]
    def st():
        stamp[0] += 1
        return stamp[0]
    for rnd in range(rng.choice([2, 3, 4])):
        big, small = rng.choice([("A", "B"), ("B", "A")])
        lines += ["A clear", "B clear", f"{small} shrinktofit"]
        how = rng.choice(["reserve", "grow_then_empty", "tombstones"])
        n = rng.choice([1, 2, 3, 5, 7, 12])
        base = rng.sample(range(nkeys), n + 1)
        if how == "reserve":
            lines.append(f"{big} reserve {rng.choice([20, 50, 100])}")
        elif how == "grow_then_empty":
            for k in range(40):
                lines.append(f"{big} sinsert {k} {st()}")
            lines.append(f"{big} " + rng.choice(["clear", "retain 0", "drain 1000"]))
        else:
            for k in range(28):
                lines.append(f"{big} sinsert {k} {st()}")
            for k in range(28):
                lines.append(f"{big} sremove {k}")
        mode = rng.choice(["one_differs", "one_differs", "identical", "subset"])
        for k in base[:n]:
            lines.append(f"A sinsert {k} {st()}")
            lines.append(f"B sinsert {k} {st()}")
        if mode == "one_differs":
            lines.append(f"A sinsert {base[n]} {st()}")
            other = next(x for x in range(nkeys) if x not in base)
            lines.append(f"B sinsert {other} {st()}")
        elif mode == "subset":
            lines.append(f"{rng.choice('AB')} sinsert {base[n]} {st()}")
        lines += ["eq", "is_subset", "is_superset", "self eq", "A len", "B len"]
    return f"=== {name} plan={plan} nkeys={nkeys}\n" + "\n".join(lines) + "\n"

if __name__ == "__main__":
    seed, count = int(sys.argv[1]), int(sys.argv[2])
    rng = random.Random(seed)
    sys.stdout.write("".join(make_script(rng, f"s{seed}_{i}") for i in range(count)))
