#!/bin/bash
# seedrun.sh <Cxx> <mK> [extra props...]  -- process one seeded change produced by a sub-agent in
# /tmp/seedout/<Cxx>/<mK>/ with its scratch worktree /tmp/wt/<Cxx>_<mK>:
#   1. confirm it myself (tools/seedconfirm.sh): demo passes without, fails with, suite passes with
#   2. run the property's own check (and any extra ones) against a mutated copy (tools/mutcheck.sh)
# Results: /tmp/seedout/results/<Cxx>_<mK>.confirm / .txt
set -u
P=$1; M=$2; shift 2
D=/tmp/seedout/$P/$M; W=/tmp/wt/${P}_$M; R=/tmp/seedout/results; mkdir -p $R
TAG=${P}_$M
if [ ! -f $D/patch.diff ] || [ ! -f $D/demo.rs ]; then echo "$TAG: no patch/demo"; exit 2; fi
if [ -d "$W" ]; then
  /verif/tools/seedconfirm.sh $D $W > $R/$TAG.confirm 2>&1
  echo "$TAG confirm: $(tr '\n' ' ' < $R/$TAG.confirm | cut -c1-300)"
fi
/verif/tools/mutcheck.sh $D/patch.diff -- $P "$@" > $R/$TAG.txt 2>&1
echo "$TAG check: $(grep -E '^(VIOLATION|exit=|KNOWN)' $R/$TAG.txt | tr '\n' ' ' | cut -c1-400)"
