#!/usr/bin/env python3
"""gen_par.py -- HashMap histories with rayon operations: caller-chosen split trees driven through
the real RawIterRange::split (exhaustive for small trees in the thorough tier), and par_iter /
par_iter_mut / par_keys / par_values / into_par_iter / par_drain (with early-stopping consumers) /
par_extend on thread pools of 1..64 threads."""
import random, sys, itertools
from gen_map import Gen, PLANS

def make_script(rng, name, exhaustive_trees=False):
    kind = rng.choice(["map-drop", "map-drop", "map-plain"])
    plan = rng.choice(PLANS)
    nkeys = rng.choice([6, 20, 40, 90, 200, 400])
    g = Gen(rng, nkeys, plan, kind)
    g.resync = False
    g.header()
    steps = 0
    length = rng.choice([30, 60, 100])
    while steps < length:
        phase = rng.choice(["fill", "fill", "fill", "churn", "par", "par", "split", "split"])
        for _ in range(rng.randrange(1, 12)):
            if phase == "fill":
                g.op_insert(g.absent())
            elif phase == "churn":
                if rng.random() < 0.5 and g.contents:
                    g.op_remove(g.present())
                else:
                    g.op_insert(g.absent())
            elif phase == "split":
                if exhaustive_trees and rng.random() < 0.5:
                    for bits in itertools.product("01", repeat=rng.choice([1, 2, 3, 4])):
                        g.emit("par_split " + "".join(bits))
                        steps += 1
                else:
                    depth = rng.choice([0, 1, 2, 3, 5, 8, 13, 24])
                    bits = "".join(rng.choice("1110") for _ in range(depth))
                    g.emit("par_split " + bits if bits else "par_split")
            else:
                th = rng.choice([1, 2, 3, 4, 8, 16, 33, 64])
                c = rng.choice(["par_iter", "par_keys", "par_values", "par_iter_mut", "par_values_mut", "into_par_iter", "par_drain", "par_drain", "par_extend"])
                if c in ("par_iter", "par_keys", "par_values"):
                    g.emit(f"{c} {th}")
                elif c in ("par_iter_mut", "par_values_mut"):
                    add = rng.randrange(1, 4)
                    g.emit(f"{c} {th} {add}")
                    g.contents = {k: (s, (v + add) & ((1 << 64) - 1)) for k, (s, v) in g.contents.items()}
                elif c == "into_par_iter":
                    g.emit(f"{c} {th}"); g.contents = {}
                elif c == "par_drain":
                    n = len(g.contents)
                    g.emit(f"par_drain {th} {rng.choice([1, 2, max(1, n // 3), max(1, n // 2), n + 5, 10**6])}"); g.contents = {}
                else:
                    items = []
                    for _ in range(rng.randrange(1, 20)):
                        kk, s, v = g.anykey(), g.st(), g.val()
                        items.append(f"{kk}:{s}:{v}")
                        g.contents[kk] = (g.contents[kk][0] if kk in g.contents else s, v)
                    g.emit(f"par_extend {th} " + " ".join(items))
            steps += 1
    return f"=== {name} plan={plan} nkeys={nkeys}\n" + "\n".join(g.lines) + "\n"

if __name__ == "__main__":
    seed, count = int(sys.argv[1]), int(sys.argv[2])
    rng = random.Random(seed)
    sys.stdout.write("".join(make_script(rng, f"p{seed}_{i}") for i in range(count)))
