#!/usr/bin/env python3
"""gen_par.py -- HashMap histories with rayon operations: caller-chosen split trees driven through
the real RawIterRange::split (exhaustive for small trees in the thorough tier), and par_iter /
par_iter_mut / par_keys / par_values / into_par_iter / par_drain (with early-stopping consumers) /
par_extend / from_par_iter / par_eq on thread pools of 1..64 threads.
make_set_script: two HashSets with spar_iter / sinto_par_iter / spar_drain / spar_extend and the
parallel set algebra and predicates; make_table_script: HashTable (element sizes 0, 1, 2, 24, 32,
200) with tpar_iter / tpar_iter_mut / tinto_par_iter / tpar_drain.  Sets and tables come in sizes
below one group (1-3 elements), around a group, and in the hundreds, with tombstones."""
import random, sys, itertools
from gen_map import Gen, PLANS, plan_hash

THREADS = [1, 2, 3, 4, 8, 16, 33, 64]

def takes(rng, n):
    """stop positions for an early-stopping consumer: small numbers up to more than the size"""
    return rng.choice([0, 1, 2, 3, max(1, n // 3), max(1, n // 2), max(0, n - 1), n, n + 1, n + 5, 10**6])

def make_script(rng, name, exhaustive_trees=False):
    kind = rng.choice(["map-drop", "map-drop", "map-plain"])
    plan = rng.choice(PLANS)
    nkeys = rng.choice([6, 20, 40, 90, 200, 400])
    g = Gen(rng, nkeys, plan, kind)
    g.resync = False
    g.header()
    steps = 0
    length = rng.choice([30, 60, 100])
    while steps < length:
        phase = rng.choice(["fill", "fill", "fill", "churn", "par", "par", "split", "split"])
        for _ in range(rng.randrange(1, 12)):
            if phase == "fill":
                g.op_insert(g.absent())
            elif phase == "churn":
                if rng.random() < 0.5 and g.contents:
                    g.op_remove(g.present())
                else:
                    g.op_insert(g.absent())
            elif phase == "split":
                if exhaustive_trees and rng.random() < 0.5:
                    for bits in itertools.product("01", repeat=rng.choice([1, 2, 3, 4])):
                        g.emit("par_split " + "".join(bits))
                        steps += 1
                else:
                    depth = rng.choice([0, 1, 2, 3, 5, 8, 13, 24])
                    bits = "".join(rng.choice("1110") for _ in range(depth))
                    g.emit("par_split " + bits if bits else "par_split")
            else:
                th = rng.choice([1, 2, 3, 4, 8, 16, 33, 64])
                c = rng.choice(["par_iter", "par_keys", "par_values", "par_iter_mut", "par_values_mut", "into_par_iter", "par_drain", "par_drain", "par_extend",
                                "from_par_iter", "par_eq", "par_eq"])
                if c in ("par_iter", "par_keys", "par_values"):
                    g.emit(f"{c} {th}")
                elif c == "from_par_iter":
                    items = [f"{g.anykey() if rng.random() < 0.7 else rng.randrange(3)}:{g.st()}:{g.val()}" for _ in range(rng.choice([0, 1, 2, 5, 20, 60]))]
                    g.emit(f"from_par_iter {th} " + " ".join(items))
                elif c == "par_eq":
                    # against the other map: a fresh clone (equal, same layout), a clone of a map that was
                    # reallocated since (equal, different layout), one that differs in a single value or
                    # key, or whatever the history left behind
                    r = rng.random()
                    if r < 0.6:
                        g.emit("o_clone"); steps += 1
                        r2 = rng.random()
                        if r2 < 0.25:
                            g.emit(f"reserve {rng.choice([20, 100, 500])}"); steps += 1
                        elif r2 < 0.5 and g.contents:
                            g.op_insert(g.present()); steps += 1          # same keys, one value differs
                        elif r2 < 0.65 and g.contents:
                            g.op_remove(g.present()); steps += 1
                        elif r2 < 0.8:
                            g.op_insert(g.absent()); steps += 1
                    g.emit(f"par_eq {th}")
                elif c in ("par_iter_mut", "par_values_mut"):
                    add = rng.randrange(1, 4)
                    g.emit(f"{c} {th} {add}")
                    g.contents = {k: (s, (v + add) & ((1 << 64) - 1)) for k, (s, v) in g.contents.items()}
                elif c == "into_par_iter":
                    g.emit(f"{c} {th}"); g.contents = {}
                elif c == "par_drain":
                    n = len(g.contents)
                    g.emit(f"par_drain {th} {rng.choice([1, 2, max(1, n // 3), max(1, n // 2), n + 5, 10**6])}"); g.contents = {}
                else:
                    items = []
                    for _ in range(rng.randrange(1, 20)):
                        kk, s, v = g.anykey(), g.st(), g.val()
                        items.append(f"{kk}:{s}:{v}")
                        g.contents[kk] = (g.contents[kk][0] if kk in g.contents else s, v)
                    g.emit(f"par_extend {th} " + " ".join(items))
            steps += 1
    return f"=== {name} plan={plan} nkeys={nkeys}\n" + "\n".join(g.lines) + "\n"

def make_set_script(rng, name):
    kind = rng.choice(["set-drop", "set-drop", "set-plain"])
    plan = rng.choice(PLANS)
    nkeys = rng.choice([2, 3, 6, 14, 20, 40, 90, 300, 500])
    salt = rng.getrandbits(32)
    lines = [f"kind {kind}"] + [f"hash {k} {plan_hash(plan, k, rng, salt)}" for k in range(nkeys + 8)]
    cont = {"A": set(), "B": set()}
    stamp = [0]
    def st():
        stamp[0] += 1
        return stamp[0]
    def key():
        return rng.randrange(nkeys + 4)
    def bulk(t, lo, hi):
        # fill through the parallel extend itself (one step, many elements)
        ks = [key() for _ in range(rng.randrange(lo, hi + 1))]
        lines.append(f"{t} spar_extend {rng.choice(THREADS)} " + " ".join(f"{k}:{st()}" for k in ks))
        cont[t].update(ks)
    steps = 0
    length = rng.choice([30, 60, 100])
    if nkeys >= 90:
        bulk("A", nkeys // 2, nkeys); bulk("B", nkeys // 3, nkeys); steps += 2
    while steps < length:
        phase = rng.choice(["fill", "fill", "mirror", "tomb", "par1", "par1", "par2", "par2", "par2", "shrink"])
        for _ in range(rng.randrange(1, 10)):
            t = rng.choice("AB")
            th = rng.choice(THREADS)
            if phase == "fill":
                k = key()
                lines.append(f"{t} sinsert {k} {st()}"); cont[t].add(k)
            elif phase == "mirror":
                k = key()
                lines.append(f"A sinsert {k} {st()}"); lines.append(f"B sinsert {k} {st()}")
                cont["A"].add(k); cont["B"].add(k); steps += 1
            elif phase == "tomb":
                # insert then remove: leaves DELETED control bytes behind in full groups
                if cont[t] and rng.random() < 0.6:
                    k = rng.choice(sorted(cont[t]))
                    lines.append(f"{t} sremove {k}"); cont[t].discard(k)
                else:
                    k = key()
                    lines.append(f"{t} sinsert {k} {st()}"); lines.append(f"{t} sremove {k}"); cont[t].discard(k); steps += 1
            elif phase == "shrink":
                lines.append(f"{t} " + rng.choice(["shrinktofit", f"reserve {rng.randrange(0, 40)}", "clear"]))
                if lines[-1].endswith("clear"):
                    cont[t] = set()
            elif phase == "par1":
                c = rng.choice(["spar_iter", "spar_iter", "sinto_par_iter", "spar_drain", "spar_drain", "spar_extend"])
                if c == "spar_iter":
                    lines.append(f"{t} spar_iter {th}")
                elif c == "sinto_par_iter":
                    lines.append(f"{t} sinto_par_iter {th}"); cont[t] = set()
                elif c == "spar_drain":
                    lines.append(f"{t} spar_drain {th} {takes(rng, len(cont[t]))}"); cont[t] = set()
                else:
                    bulk(t, 0, rng.choice([1, 4, 20, 60]))
            else:
                lines.append(rng.choice(["spar_union", "spar_intersection", "spar_difference", "spar_symmetric_difference",
                                         "spar_is_subset", "spar_is_superset", "spar_is_disjoint", "spar_eq"]) + f" {th}")
                if rng.random() < 0.15:
                    # make the predicates true now and then: B := superset / copy of A
                    for k in sorted(cont["A"])[:40]:
                        if k not in cont["B"]:
                            lines.append(f"B sinsert {k} {st()}"); cont["B"].add(k); steps += 1
                    lines.append(rng.choice(["spar_is_subset", "spar_is_superset", "spar_eq", "spar_is_disjoint"]) + f" {th}"); steps += 1
            steps += 1
    return f"=== {name} plan={plan} nkeys={nkeys}\n" + "\n".join(lines) + "\n"

TABLE_KINDS = ["table-drop", "table-drop", "table-drop", "table-plain", "table-200", "table-a64", "table-1", "table-2", "table-zst", "table-zst64"]

def make_table_script(rng, name, kind=None, size=None):
    kind = kind or rng.choice(TABLE_KINDS)
    plan = rng.choice(PLANS)
    # size class: below one group (1-3 elements), around a group, several groups, hundreds
    size = size or rng.choice([1, 2, 3, 3, 7, 14, 16, 30, 60, 120, 200, 300])
    if kind == "table-1":
        size = min(size, 120)
    if plan not in ("mix", "sametag", "seq") and size > 120:
        plan = rng.choice(["mix", "sametag", "seq"])     # long probe chains make the invariant check of big tables slow
    nkeys = max(2, min(size, 250 if kind == "table-1" else 10**6))
    salt = rng.getrandbits(32)
    lines = [f"kind {kind}"] + [f"hash {k} {plan_hash(plan, k, rng, salt)}" for k in range(nkeys + 4)]
    if kind in ("table-zst", "table-zst64") or rng.random() < 0.2:
        lines.append(f"twithcap {rng.choice([size, size + 3, 2 * size + 8])}")
    count = {}                   # id -> copies stored (insert_unique admits duplicates)
    stamp = [0]
    def n():
        return sum(count.values())
    def ins(k=None):
        k = rng.randrange(nkeys + 2) if k is None else k
        stamp[0] += 1
        if rng.random() < 0.7:
            lines.append(f"tinsertunique {k} {stamp[0]} {rng.randrange(100)}")
            count[k] = count.get(k, 0) + 1
        else:
            lines.append(f"tentryorinsert {k} {stamp[0]} {rng.randrange(100)}")
            count[k] = max(1, count.get(k, 0))
        return k
    def rem(k):
        lines.append(f"tfindentryremove {k} id {k}")
        if count.get(k, 0) > 0:
            count[k] -= 1
            if count[k] == 0:
                del count[k]
    def fill():
        target = rng.choice([1, 2, 3, size, size, max(1, size // 2)])
        while n() < target:
            ins()
        if rng.random() < 0.6:
            # tombstones: insert then remove, and remove some of the stored ones
            for _ in range(rng.randrange(1, 2 + min(size, 40) // 2)):
                if count and rng.random() < 0.5:
                    rem(rng.choice(sorted(count)))
                else:
                    rem(ins())
    pars = 0
    want = rng.choice([6, 10, 16]) if size <= 120 else rng.choice([4, 6])
    while pars < want:
        fill()
        for _ in range(rng.randrange(1, 5)):
            th = rng.choice(THREADS)
            c = rng.choice(["tpar_iter", "tpar_iter", "tpar_iter_mut", "tpar_iter_mut", "tinto_par_iter", "tpar_drain", "tpar_drain", "tpar_drain"])
            pars += 1
            if c == "tpar_iter":
                lines.append(f"tpar_iter {th}")
            elif c == "tpar_iter_mut":
                lines.append(f"tpar_iter_mut {th} {rng.randrange(1, 4)}")
            elif c == "tinto_par_iter":
                lines.append(f"tinto_par_iter {th}"); count.clear()
                break
            else:
                lines.append(f"tpar_drain {th} {takes(rng, n())}"); count.clear()
                if rng.random() < 0.3:
                    lines.append(f"tpar_drain {th} {takes(rng, 0)}")     # an empty table that kept its allocation
                    lines.append(f"tpar_iter {th}")
                break
    lines.append("tlen")
    return f"=== {name} plan={plan} size={size}\n" + "\n".join(lines) + "\n"

if __name__ == "__main__":
    seed, count = int(sys.argv[1]), int(sys.argv[2])
    rng = random.Random(seed)
    which = sys.argv[3] if len(sys.argv) > 3 else "map"
    f = {"map": make_script, "set": make_set_script, "table": make_table_script}[which]
    sys.stdout.write("".join(f(rng, f"p{which[0]}{seed}_{i}") for i in range(count)))
