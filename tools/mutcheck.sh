#!/bin/bash
# mutcheck.sh <patch.diff | -e 'sed-expr' file> -- <prop>...   : run checks against a mutated copy of
# /repo in an isolated copy of /verif (so neither /repo, nor the shared Coq build tree, is touched).
set -u
W=$(mktemp -d /tmp/mut.XXXXXX)
[ -n "${KEEP:-}" ] || trap 'rm -rf "$W"' EXIT; [ -n "${KEEP:-}" ] && echo "KEEP $W"
rsync -a --exclude target --exclude .git /repo/ "$W/repo/"
if [ "$1" = "-e" ]; then
  sed -i "$2" "$W/repo/$3" || exit 2
  shift 3
else
  (cd "$W/repo" && patch -p1 -s < "$1") || exit 2
  shift 1
fi
[ "$1" = "--" ] && shift
( cd "$W/repo" && diff -ru /repo/src src | head -40 )
rsync -a --exclude work --exclude .git --exclude 'harness/target-*-release' --exclude 'harness/target' "${VERIF_SRC:-/verif}/" "$W/verif/"
sed -i "s|path = \"/repo\"|path = \"$W/repo\"|" "$W/verif/harness/Cargo.toml"
rm -f "$W/verif/harness/Cargo.lock"
cp /repo/Cargo.lock "$W/verif/harness/Cargo.lock" 2>/dev/null
rc=0
for p in "$@"; do
  echo "=== $p"
  ( cd "$W/verif" && HV_REPO="$W/repo" timeout 1500 ./hv check "$p" ${TIER:+--tier $TIER} ) 
  r=$?; echo "exit=$r"; [ $r -ne 0 ] && rc=1
  for f in "$W"/verif/work/$p/replay_*.txt; do [ -f "$f" ] && { echo "--- $(basename $f)"; head -12 "$f" | cut -c1-300; }; done
done
exit $rc
