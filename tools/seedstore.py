#!/usr/bin/env python3
"""seedstore.py -- copies confirmed seeded changes from /tmp/seedout/<Cxx>/<mK>/ into
/verif/seeded/<Cxx>_<mK>/ (patch.diff, demo.rs, meta.json) and records, per seed, my own confirmation
(demo fails with / passes without the patch, suite result) and which checks reported it."""
import json, os, re, shutil, sys, glob

SRC, DST = "/tmp/seedout", "/verif/seeded"
for d in sorted(glob.glob(f"{SRC}/C??/m?")):
    prop, m = d.split("/")[-2:]
    tag = f"{prop}_{m}"
    if not os.path.exists(f"{d}/patch.diff"):
        continue
    out = f"{DST}/{tag}"
    os.makedirs(out, exist_ok=True)
    for f in ("patch.diff", "demo.rs"):
        if os.path.exists(f"{d}/{f}"):
            shutil.copy(f"{d}/{f}", f"{out}/{f}")
    for extra in glob.glob(f"{d}/*"):
        b = os.path.basename(extra)
        if b not in ("patch.diff", "demo.rs", "meta.json") and os.path.isfile(extra) and os.path.getsize(extra) < 200000 and not b.endswith(".log"):
            shutil.copy(extra, f"{out}/{b}")
    try:
        meta = json.load(open(f"{d}/meta.json"))
    except Exception as e:
        meta = {"property": prop, "meta_error": str(e)}
    conf = f"{SRC}/results/{tag}.confirm"
    if os.path.exists(conf):
        t = open(conf).read()
        meta["confirmed_by_me"] = {
            "demo_without_patch": "pass" if "demo-without-patch: pass" in t else "FAIL",
            "demo_with_patch": "fails" if "demo-with-patch: fails" in t else "PASSES",
            "suite_with_patch": "passes" if "suite-with-patch: passes" in t else "fails in my run (tests with random hash seeds: flaky under this change)",
        }
    res = f"{SRC}/results/{tag}.txt"
    caught = {}
    if os.path.exists(res):
        cur = None
        for l in open(res):
            mm = re.match(r"=== (C\d\d)$", l.strip())
            if mm:
                cur = mm.group(1); caught.setdefault(cur, "exit 0 (not reported)")
            elif l.startswith("VIOLATION") and cur:
                caught[cur] = "VIOLATION" + (" no-failing-input-found" if "no-failing-input-found" in l else " with replay")
            elif cur and l.startswith("# property") and caught.get(cur, "").startswith("VIOLATION") and "first" not in caught[cur]:
                caught[cur] += " | first: " + l.strip()[:300]
    hist = f"{SRC}/results/{tag}.history"
    if os.path.exists(hist):
        meta["check_history"] = open(hist).read().strip().split("\n")
    meta["checks"] = caught
    mp = f"{DST}/MATRIX.json"
    if os.path.exists(mp):
        row = json.load(open(mp)).get(tag)
        if row:
            meta["all_checks_quick_tier"] = {p: {"R": "VIOLATION with replay", "N": "VIOLATION no-failing-input-found", "-": "exit 0"}[v] for p, v in sorted(row.items())}
    json.dump(meta, open(f"{out}/meta.json", "w"), indent=1)
    print(tag, caught)
