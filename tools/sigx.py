#!/usr/bin/env python3
"""sigx.py -- declarations -> Gallina (property C16).

Reads the type declarations of hashbrown (every `struct`/`enum` of the listed files, their generic
parameters and field types, and every `unsafe impl ... Send/Sync for X<..> where ..`) and writes them
as data (`gen_decls : list decl`) into coq/theories/Gen/GenTypes.v.  Paths are resolved through the
`use` declarations of each file (and the re-exports of lib.rs, which also give the public path of
every exported type), so `Iter` in set.rs and `Iter` in map.rs are different declarations.

Nothing is assumed about a type that is not declared in the files read, except for the short list
of std / back-end leaves in EXTERNAL and ASSUMED_PRIM below; anything else is reported as
`UNTRANSLATED <item>: why` (exit status 2) and the declaration is emitted as a comment, so that
every proof that depends on it fails to compile.

usage: sigx.py [out.v]        (source root from $HV_REPO, default /repo)"""
import os, sys
sys.path.insert(0, os.path.dirname(os.path.abspath(__file__)))
from rsparse import tokenize, Tok, match_close, ParseError

REPO = os.environ.get("HV_REPO", "/repo")
ROOT = os.path.dirname(os.path.dirname(os.path.abspath(__file__)))
OUT_DEFAULT = os.path.join(ROOT, "coq", "theories", "Gen", "GenTypes.v")

# file -> module path; `decls` = declarations of the file are emitted, otherwise only its `use`s
# and inline modules are read (to resolve paths and public names)
FILES = [
    ("lib.rs", (), False),
    ("control/mod.rs", ("control",), False),
    ("map.rs", ("map",), True),
    ("set.rs", ("set",), True),
    ("table.rs", ("table",), True),
    ("raw/mod.rs", ("raw",), True),
    ("raw_entry.rs", ("raw_entry",), True),
    ("rustc_entry.rs", ("rustc_entry",), True),
    ("scopeguard.rs", ("scopeguard",), True),
    ("control/bitmask.rs", ("control", "bitmask"), True),
    ("control/tag.rs", ("control", "tag"), True),
    ("external_trait_impls/rayon/raw.rs", ("external_trait_impls", "rayon", "raw"), True),
    ("external_trait_impls/rayon/map.rs", ("external_trait_impls", "rayon", "map"), True),
    ("external_trait_impls/rayon/set.rs", ("external_trait_impls", "rayon", "set"), True),
    ("external_trait_impls/rayon/table.rs", ("external_trait_impls", "rayon", "table"), True),
]
FEATURES = {"rayon", "raw-entry", "rustc-internal-api", "default-hasher", "inline-more",
            "allocator-api2", "equivalent"}
EXTERN_CRATES = {"core", "alloc", "std", "rayon", "allocator_api2", "foldhash", "equivalent", "serde"}

PRIMS = {"u8", "u16", "u32", "u64", "u128", "usize", "i8", "i16", "i32", "i64", "i128", "isize",
         "bool", "char", "str", "f32", "f64"}
# std types, by (crate-independent) last two path segments; value = how the type is represented
#   "id"      : structurally its single argument (same auto traits, covariant)
#   "phantom" : PhantomData
#   "nonnull" : NonNull
#   "tuple"   : structurally the tuple of its arguments (plain struct of these fields)
#   "prim"    : plain data, Send + Sync, no parameters
EXTERNAL = {
    ("marker", "PhantomData"): "phantom", ("ptr", "NonNull"): "nonnull",
    ("option", "Option"): "id", ("mem", "ManuallyDrop"): "id", ("mem", "MaybeUninit"): "id",
    ("iter", "Chain"): "tuple", ("alloc", "Layout"): "prim",
}
PRELUDE = {"Option": ("core", "option", "Option"), "Send": ("core", "marker", "Send"),
           "Sync": ("core", "marker", "Sync"), "Sized": ("core", "marker", "Sized")}
# leaves that live in files this tool does not read (the SIMD back ends are selected by cfg_if!):
# plain integer / vector data.  The rustc probes (tools/c16_probes.py) check the consequences.
ASSUMED_PRIM = {("control", "group", "Group"), ("control", "group", "BitMaskWord"),
                ("control", "group", "NonZeroBitMaskWord")}


class Untranslated(Exception):
    pass


# ------------------------------------------------------------------------------------------------
# token cursor
# ------------------------------------------------------------------------------------------------
def split_angles(toks):
    out = []
    for t in toks:
        if t.k == "op" and t.v in (">>", "<<"):
            out.append(Tok("op", t.v[0], t.pos)); out.append(Tok("op", t.v[0], t.pos))
        elif t.k == "op" and t.v == ">>=":
            out.append(Tok("op", ">", t.pos)); out.append(Tok("op", ">=", t.pos))
        else:
            out.append(t)
    return out


class Cur:
    def __init__(self, toks, i=0, end=None):
        self.t, self.i, self.end = toks, i, len(toks) if end is None else end
    def peek(self, o=0):
        j = self.i + o
        return self.t[j] if j < self.end else Tok("eof", "", -1)
    def at(self, v, o=0):
        p = self.peek(o)
        return p.k in ("op", "id") and p.v == v
    def opt(self, v):
        if self.at(v):
            self.i += 1
            return True
        return False
    def eat(self, v):
        if not self.at(v):
            raise Untranslated(f"expected `{v}` got `{self.peek().v}`")
        self.i += 1
    def ident(self):
        p = self.peek()
        if p.k != "id":
            raise Untranslated(f"expected identifier got `{p.v}`")
        self.i += 1
        return p.v
    def eof(self):
        return self.i >= self.end
    def text(self, a, b):
        return " ".join(x.v for x in self.t[a:b])


# ------------------------------------------------------------------------------------------------
# syntax: types, generics, bounds  (unresolved: paths are kept as segment lists)
#   type ::= ("param"/"path", segs, [type args]) | ("ref", t) | ("refmut", t) | ("ptrc", t) | ("ptrm", t)
#          | ("tuple", [t]) | ("fn", [t], t) | ("prim",)
# ------------------------------------------------------------------------------------------------
def parse_type(c):
    if c.opt("&"):
        if c.peek().k == "lifetime":
            c.i += 1
        if c.opt("mut"):
            return ("refmut", parse_type(c))
        return ("ref", parse_type(c))
    if c.at("&&"):
        c.i += 1
        if c.peek().k == "lifetime":
            c.i += 1
        inner = ("refmut", parse_type(c)) if c.opt("mut") else ("ref", parse_type(c))
        return ("ref", inner)
    if c.opt("*"):
        if c.opt("const"):
            return ("ptrc", parse_type(c))
        c.eat("mut")
        return ("ptrm", parse_type(c))
    if c.opt("("):
        ts, trailing = [], False
        while not c.at(")"):
            ts.append(parse_type(c))
            trailing = c.opt(",")
            if not trailing:
                break
        c.eat(")")
        if len(ts) == 1 and not trailing:
            return ts[0]
        return ("tuple", ts)
    if c.opt("["):
        t = parse_type(c)
        if c.opt(";"):
            d = 0
            while not (c.at("]") and d == 0):
                if c.at("["): d += 1
                if c.at("]"): d -= 1
                c.i += 1
        c.eat("]")
        return ("tuple", [t])                 # [T; N] and [T]: same auto traits and variance as T
    if c.opt("!"):
        return ("prim",)
    if c.at("unsafe") or c.at("extern") or c.at("fn"):
        c.opt("unsafe")
        if c.opt("extern") and c.peek().k == "str":
            c.i += 1
        c.eat("fn")
        c.eat("(")
        args = []
        while not c.at(")"):
            if c.peek().k == "id" and c.at(":", 1):
                c.i += 2
            args.append(parse_type(c))
            if not c.opt(","):
                break
        c.eat(")")
        ret = ("tuple", [])
        if c.opt("->"):
            ret = parse_type(c)
        return ("fn", args, ret)
    if c.at("dyn") or c.at("impl") or c.at("for") or c.at("<"):
        raise Untranslated(f"type form `{c.peek().v} ...` (trait object / impl trait / qualified path)")
    # path
    segs, args = [], []
    c.opt("::")
    while True:
        segs.append(c.ident())
        if c.at("::") and c.at("<", 1):
            c.i += 1
        if c.at("<"):
            if args:
                raise Untranslated("generic arguments on two path segments")
            args = parse_generic_args(c)
        if c.at("::") and c.peek(1).k == "id":
            c.i += 1
            continue
        break
    return ("path", segs, args)


def parse_generic_args(c):
    c.eat("<")
    args = []
    while not c.at(">"):
        p = c.peek()
        if p.k == "lifetime":
            c.i += 1
        elif p.k == "num" or p.v == "{":
            raise Untranslated("const generic argument")
        elif p.k == "id" and c.at("=", 1):
            raise Untranslated("associated type binding in a field type")
        else:
            args.append(parse_type(c))
        if not c.opt(","):
            break
    c.eat(">")
    return args


def split_top(toks, seps):
    """split a token list on the separators that are outside <>, (), [], {}."""
    out, cur, d = [], [], 0
    for t in toks:
        if t.k == "op":
            if t.v in ("<", "(", "[", "{"): d += 1
            elif t.v in (">", ")", "]", "}"): d -= 1
            if d == 0 and t.v in seps:
                out.append(cur); cur = []
                continue
        cur.append(t)
    out.append(cur)
    return out


def parse_bounds(toks):
    """`A + B<..> + 'a + ?Sized` -> list of trait paths (segment lists); lifetimes and ?Trait dropped."""
    out = []
    for b in split_top(toks, ("+",)):
        if not b or b[0].k == "lifetime":
            continue
        if b[0].v == "?":
            continue
        if b[0].v == "!":
            raise Untranslated("negative bound")
        if b[0].v == "for":          # for<'a> Fn(..)
            c = Cur(b, 1)
            c.eat("<")
            while not c.at(">"):
                c.i += 1
            c.eat(">")
            b = b[c.i:]
        if b and b[0].v == "(":
            b = b[1:-1]
        segs = []
        for x in b:
            if x.k == "id":
                segs.append(x.v)
            elif x.v == "::":
                continue
            else:
                break
        out.append(segs)
    return out


def parse_generics(c):
    """at `<`: returns (lifetimes, [(param, bound token list)])"""
    lts, params = [], []
    if not c.at("<"):
        return lts, params
    c.eat("<")
    while not c.at(">"):
        while c.at("#"):
            c.i += 1
            c.i = match_close(c.t, c.i) + 1
        p = c.peek()
        if p.k == "lifetime":
            c.i += 1
            lts.append(p.v[1:])
            if c.opt(":"):
                while c.peek().k == "lifetime" or c.at("+"):
                    c.i += 1
        elif p.v == "const":
            raise Untranslated("const generic parameter")
        else:
            name = c.ident()
            btoks = []
            if c.opt(":"):
                d = 0
                while not (d == 0 and (c.at(",") or c.at(">") or c.at("="))):
                    if c.peek().v in ("<", "(", "["): d += 1
                    if c.peek().v in (">", ")", "]"): d -= 1
                    btoks.append(c.peek()); c.i += 1
            if c.opt("="):                       # default: dropped
                d = 0
                while not (d == 0 and (c.at(",") or c.at(">"))):
                    if c.peek().v in ("<", "(", "["): d += 1
                    if c.peek().v in (">", ")", "]"): d -= 1
                    c.i += 1
            params.append((name, btoks))
        if not c.opt(","):
            break
    c.eat(">")
    return lts, params


def parse_where(toks):
    """where-clause tokens -> [(lhs type, [trait path])]"""
    out = []
    for pred in split_top(toks, (",",)):
        if not pred or pred[0].k == "lifetime":
            continue
        if pred[0].v == "for":
            c = Cur(pred, 1)
            c.eat("<")
            while not c.at(">"):
                c.i += 1
            c.eat(">")
            pred = pred[c.i:]
        parts = split_top(pred, (":",))
        if len(parts) < 2:
            raise Untranslated("where-predicate without `:`: " + " ".join(x.v for x in pred))
        lhs = parse_type(Cur(parts[0]))
        rest = [t for p in parts[1:] for t in p]
        out.append((lhs, parse_bounds(rest)))
    return out


def parse_use_tree(c, prefix, out):
    """appends (alias or '*', [segments]) to out"""
    segs = list(prefix)
    c.opt("::")
    while True:
        if c.opt("{"):
            while not c.at("}"):
                parse_use_tree(c, segs, out)
                if not c.opt(","):
                    break
            c.eat("}")
            return
        if c.opt("*"):
            out.append(("*", segs))
            return
        s = c.ident()
        if s == "self" and segs:
            alias = segs[-1]
            if c.opt("as"):
                alias = c.ident()
            out.append((alias, list(segs)))
            return
        segs.append(s)
        if c.opt("::"):
            continue
        alias = s
        if c.opt("as"):
            alias = c.ident()
        out.append((alias, segs))
        return


# ------------------------------------------------------------------------------------------------
# cfg evaluation
# ------------------------------------------------------------------------------------------------
def eval_cfg(c):
    """returns True / False / None (unknown)"""
    name = c.ident()
    if c.opt("("):
        vals = []
        while not c.at(")"):
            vals.append(eval_cfg(c))
            if not c.opt(","):
                break
        c.eat(")")
        if name == "not":
            return None if vals[0] is None else (not vals[0])
        if name == "all":
            if any(v is False for v in vals): return False
            return None if any(v is None for v in vals) else True
        if name == "any":
            if any(v is True for v in vals): return True
            return None if any(v is None for v in vals) else False
        return None
    if c.opt("="):
        v = c.peek().v.strip('"')
        c.i += 1
        if name == "feature":
            return v in FEATURES
        return None
    if name in ("test", "doctest", "doc", "miri"):
        return False
    return None


def attrs_cfg(attrs):
    """conjunction of the #[cfg(..)] attributes of an item"""
    res = True
    for a in attrs:
        if a and a[0].v == "cfg" and len(a) > 1 and a[1].v == "(":
            v = eval_cfg(Cur(a, 2))
            if v is False:
                return False
            if v is None:
                res = None
    return res


# ------------------------------------------------------------------------------------------------
# item scanner
# ------------------------------------------------------------------------------------------------
class Decl:
    def __init__(self, mod, name, kind, vis, lts, params, fields, src):
        self.mod, self.name, self.kind, self.vis = mod, name, kind, vis
        self.lts, self.params, self.fields, self.src = lts, params, fields, src
        self.send = self.sync = None          # None | [(ty, "MSend"/"MSync")]   (resolved)
        self.impl_src = {}
        self.error = None
        self.rfields = None
        self.pub_paths = []
    @property
    def key(self):
        m = self.mod[-2:] if len(self.mod) > 2 else self.mod
        return "::".join(m + (self.name,))


class Module:
    def __init__(self, path, emit):
        self.path, self.emit = path, emit
        self.decls = {}
        self.uses = {}       # alias -> (segments, is_pub)
        self.globs = []      # (segments, is_pub)
        self.pub = False
        self.impls = []      # (generics, trait name, self type, preds, src text)
        self.inherent = []   # (header tokens, all tokens, index of `{`, index of `}`) of inherent impl blocks
        self.errors = []


MODULES = {}


def skip_item(c):
    """skip to the end of an item we do not read: `;` or a balanced `{..}` at bracket depth 0"""
    while not c.eof():
        p = c.peek()
        if p.k == "op" and p.v in ("(", "["):
            c.i = match_close(c.t, c.i) + 1
            continue
        if p.k == "op" and p.v == "{":
            c.i = match_close(c.t, c.i) + 1
            return
        if p.k == "op" and p.v == ";":
            c.i += 1
            return
        c.i += 1


def parse_fields_named(c, close):
    """c just after `{`; returns [(name, type, text)] and leaves c after `}`"""
    fields = []
    while c.i < close:
        while c.at("#"):
            c.i += 1
            c.i = match_close(c.t, c.i) + 1
        if c.i >= close:
            break
        if c.opt("pub") and c.at("("):
            c.i = match_close(c.t, c.i) + 1
        name = c.ident()
        c.eat(":")
        a = c.i
        ty = parse_type(c)
        fields.append((name, ty, c.text(a, c.i)))
        if not c.opt(","):
            break
    if c.i != close:
        raise Untranslated(f"field list: unexpected `{c.peek().v}`")
    c.i = close + 1
    return fields


def parse_fields_tuple(c, close, prefix=""):
    fields, n = [], 0
    while c.i < close:
        while c.at("#"):
            c.i += 1
            c.i = match_close(c.t, c.i) + 1
        if c.opt("pub") and c.at("("):
            c.i = match_close(c.t, c.i) + 1
        a = c.i
        ty = parse_type(c)
        fields.append((f"{prefix}{n}", ty, c.text(a, c.i)))
        n += 1
        if not c.opt(","):
            break
    if c.i != close:
        raise Untranslated(f"tuple field list: unexpected `{c.peek().v}`")
    c.i = close + 1
    return fields


def scan_items(c, mod, end):
    m = MODULES[mod]
    while c.i < end:
        attrs = []
        while c.at("#"):
            j = c.i + 1
            if c.t[j].v == "!":
                j += 1
            e = match_close(c.t, j)
            attrs.append(c.t[j + 1:e])
            c.i = e + 1
        if c.i >= end:
            break
        cfg = attrs_cfg(attrs)
        start = c.i
        vis = ""
        if c.opt("pub"):
            vis = "pub"
            if c.at("("):
                e = match_close(c.t, c.i)
                vis = "pub(" + c.text(c.i + 1, e) + ")"
                c.i = e + 1
        p = c.peek()
        kw = p.v if p.k == "id" else ""
        if cfg is False:
            skip_item(c)
            continue
        try:
            if kw == "use":
                c.i += 1
                uses = []
                parse_use_tree(c, [], uses)
                c.eat(";")
                if cfg is None:
                    continue                       # names under an unknown cfg stay unresolved
                for alias, segs in uses:
                    if alias == "*":
                        m.globs.append((segs, vis == "pub"))
                    else:
                        m.uses[alias] = (segs, vis == "pub")
            elif kw == "mod":
                c.i += 1
                name = c.ident()
                if c.opt(";"):
                    continue
                close = match_close(c.t, c.i)
                sub = mod + (name,)
                if cfg is None:
                    c.i = close + 1
                    continue
                MODULES[sub] = Module(sub, m.emit)
                MODULES[sub].pub = vis == "pub"
                c.i += 1
                scan_items(c, sub, close)
                c.i = close + 1
            elif kw in ("struct", "enum", "union"):
                c.i += 1
                name = c.ident()
                try:
                    if cfg is None:
                        raise Untranslated("declared under a cfg this tool cannot evaluate")
                    if kw == "union":
                        raise Untranslated("union")
                    lts, params = parse_generics(c)
                    if c.at("where"):
                        while not (c.at("{") or c.at(";")):
                            if c.at("(") or c.at("["):
                                c.i = match_close(c.t, c.i)
                            c.i += 1
                    fields = []
                    if kw == "struct":
                        if c.at("{"):
                            close = match_close(c.t, c.i); c.i += 1
                            fields = parse_fields_named(c, close)
                        elif c.at("("):
                            close = match_close(c.t, c.i); c.i += 1
                            fields = parse_fields_tuple(c, close)
                            skip_item(c)
                        else:
                            c.eat(";")
                    else:
                        close = match_close(c.t, c.i); c.i += 1
                        while c.i < close:
                            while c.at("#"):
                                c.i += 1
                                c.i = match_close(c.t, c.i) + 1
                            v = c.ident()
                            if c.at("("):
                                e = match_close(c.t, c.i); c.i += 1
                                fields += parse_fields_tuple(c, e, v + ".")
                            elif c.at("{"):
                                e = match_close(c.t, c.i); c.i += 1
                                fields += [(v + "." + n, t, s) for n, t, s in parse_fields_named(c, e)]
                            if c.opt("="):
                                while not (c.at(",") or c.i >= close):
                                    c.i += 1
                            if not c.opt(","):
                                break
                        if c.i != close:
                            raise Untranslated(f"enum body: unexpected `{c.peek().v}`")
                        c.i = close + 1
                    d = Decl(mod, name, kw, vis, lts, [p for p, _ in params], fields, c.text(start, c.i))
                except (Untranslated, ParseError, IndexError) as ex:
                    d = Decl(mod, name, kw, vis, [], [], [], "")
                    d.error = str(ex)
                    c.i = start
                    skip_item(c)
                m.decls[name] = d
            elif kw in ("unsafe", "impl") and (kw == "impl" or c.at("impl", 1)):
                # find the body, look for `Send for` / `Sync for` in the header
                h0 = c.i
                j = c.i
                while not (c.t[j].k == "op" and c.t[j].v == "{"):
                    if c.t[j].k == "op" and c.t[j].v in ("(", "["):
                        j = match_close(c.t, j)
                    j += 1
                body = j
                hdr = c.t[h0:body]
                marker = None
                d = 0
                for k, x in enumerate(hdr):
                    if x.k == "op" and x.v == "<": d += 1
                    elif x.k == "op" and x.v == ">": d -= 1
                    elif d == 0 and x.k == "id" and x.v in ("Send", "Sync") and k + 1 < len(hdr) and hdr[k + 1].v == "for":
                        marker = x.v
                c.i = match_close(c.t, body) + 1
                is_trait_impl = False
                d = 0
                for k, x in enumerate(hdr):
                    if x.k == "op" and x.v == "<": d += 1
                    elif x.k == "op" and x.v == ">": d -= 1
                    elif x.k == "id" and x.v == "where" and d == 0: break
                    elif d == 0 and x.k == "id" and x.v == "for": is_trait_impl = True
                if not is_trait_impl and m.emit and cfg is not False:
                    m.inherent.append((hdr, c.t, body, c.i - 1))
                if marker and m.emit:
                    src = " ".join(x.v for x in hdr)
                    try:
                        if cfg is None:
                            raise Untranslated("impl under a cfg this tool cannot evaluate")
                        hc = Cur(hdr)
                        hc.opt("unsafe")
                        hc.eat("impl")
                        lts, params = parse_generics(hc)
                        if hc.at("!"):
                            raise Untranslated("negative impl")
                        while not hc.at("for"):
                            hc.i += 1
                        hc.eat("for")
                        selfty = parse_type(hc)
                        preds = [(("path", [pn], []), parse_bounds(bt)) for pn, bt in params if bt]
                        if hc.opt("where"):
                            preds += parse_where(hdr[hc.i:])
                        elif not hc.eof():
                            raise Untranslated(f"impl header: unexpected `{hc.peek().v}`")
                        m.impls.append(([p for p, _ in params], marker, selfty, preds, src, None))
                    except (Untranslated, ParseError, IndexError) as ex:
                        m.impls.append(([], marker, None, [], src, str(ex)))
            else:
                skip_item(c)
        except (Untranslated, ParseError, IndexError) as ex:
            m.errors.append(f"{'::'.join(mod)}: item at `{c.text(start, start + 6)}`: {ex}")
            c.i = max(c.i, start + 1)
            skip_item(c)


# ------------------------------------------------------------------------------------------------
# name resolution
# ------------------------------------------------------------------------------------------------
def lookup(mod, name, seen):
    """name in the scope of module `mod` -> ('decl', Decl) | ('mod', path) | ('ext', segs) | ('unknown', segs)"""
    if (mod, name) in seen:
        return None
    seen = seen | {(mod, name)}
    m = MODULES.get(mod)
    if m is None:
        return None
    if name in m.decls:
        return ("decl", m.decls[name])
    if mod + (name,) in MODULES:
        return ("mod", mod + (name,))
    if name in m.uses:
        return walk_from(mod, m.uses[name][0], seen)
    for segs, _ in m.globs:
        r = walk_from(mod, segs, seen)
        if r and r[0] == "mod":
            x = lookup(r[1], name, seen)
            if x and x[0] != "unknown":
                return x
    return None


def walk_from(mod, segs, seen=frozenset()):
    segs = list(segs)
    if segs[0] == "crate":
        cur, rest = (), segs[1:]
    elif segs[0] == "self":
        cur, rest = mod, segs[1:]
    elif segs[0] == "super":
        cur, rest = mod[:-1], segs[1:]
        while rest and rest[0] == "super":
            cur, rest = cur[:-1], rest[1:]
    else:
        r = lookup(mod, segs[0], seen)
        if r is None:
            if segs[0] in EXTERN_CRATES:
                return ("ext", tuple(segs))
            if len(segs) == 1 and segs[0] in PRELUDE:
                return ("ext", PRELUDE[segs[0]])
            return ("unknown", mod + tuple(segs))
        if len(segs) == 1 or r[0] in ("ext", "unknown"):
            return r if len(segs) == 1 else (r[0], tuple(r[1]) + tuple(segs[1:]))
        if r[0] == "decl":
            return ("unknown", mod + tuple(segs))      # Enum::Variant etc.
        cur, rest = r[1], segs[1:]
    for i, s in enumerate(rest):
        if cur + (s,) in MODULES:
            cur = cur + (s,)
            continue
        if cur not in MODULES:
            if cur == () or (len(cur) >= 1 and cur[0] in EXTERN_CRATES):
                return ("ext", cur + tuple(rest[i:]))
            return ("unknown", cur + tuple(rest[i:]))
        r = lookup(cur, s, seen)
        if r is None:
            if cur == () and s in EXTERN_CRATES:
                return ("ext", tuple(rest[i:]))
            return ("unknown", cur + tuple(rest[i:]))
        if i == len(rest) - 1:
            return r
        if r[0] == "mod":
            cur = r[1]
            continue
        if r[0] == "decl":
            return ("unknown", cur + tuple(rest[i:]))
        return (r[0], tuple(r[1]) + tuple(rest[i + 1:]))
    return ("mod", cur)


def resolve_type(t, mod, params):
    k = t[0]
    if k in ("ref", "refmut", "ptrc", "ptrm"):
        return (k, resolve_type(t[1], mod, params))
    if k == "tuple":
        return ("tuple", [resolve_type(x, mod, params) for x in t[1]])
    if k == "fn":
        return ("fn", [resolve_type(x, mod, params) for x in t[1]], resolve_type(t[2], mod, params))
    if k == "prim":
        return t
    segs, args = t[1], [resolve_type(a, mod, params) for a in t[2]]
    if len(segs) == 1 and segs[0] in params:
        if args:
            raise Untranslated(f"type parameter `{segs[0]}` with arguments")
        return ("param", segs[0])
    if len(segs) == 1 and segs[0] in PRIMS:
        return ("prim",)
    if segs[0] == "Self":
        raise Untranslated("`Self` in a field type")
    r = walk_from(mod, segs)
    name = "::".join(segs)
    if r[0] == "decl":
        d = r[1]
        if len(args) != len(d.params):
            raise Untranslated(f"`{name}`: {len(args)} type arguments for {len(d.params)} parameters (defaults are not expanded)")
        return ("app", d.key, args)
    if r[0] == "ext":
        how = EXTERNAL.get(tuple(r[1][-2:])) if len(r[1]) >= 2 else None
        if len(r[1]) >= 2 and r[1][-1] in PRIMS:
            how = "prim"
        if how == "phantom" and len(args) == 1:
            return ("phantom", args[0])
        if how == "nonnull" and len(args) == 1:
            return ("nonnull", args[0])
        if how == "id" and len(args) == 1:
            return args[0]
        if how == "tuple":
            return ("tuple", args)
        if how == "prim" and not args:
            return ("prim",)
        raise Untranslated(f"external type `{'::'.join(r[1])}` is not in sigx.EXTERNAL")
    if r[0] == "unknown" and tuple(r[1]) in ASSUMED_PRIM and not args:
        return ("prim",)
    raise Untranslated(f"cannot resolve `{name}` ({r[0]} {'::'.join(r[1])})")


def marker_of(path, mod):
    """trait path -> 'MSend' | 'MSync' | None (some other trait)"""
    if path[-1] not in ("Send", "Sync"):
        return None
    r = walk_from(mod, path)
    if r[0] == "ext" and tuple(r[1][-2:]) == ("marker", path[-1]):
        return "M" + path[-1]
    raise Untranslated(f"bound `{'::'.join(path)}` does not resolve to core::marker::{path[-1]}")


def subst(t, ren):
    k = t[0]
    if k == "param":
        return ("param", ren[t[1]])
    if k in ("ref", "refmut", "ptrc", "ptrm", "phantom", "nonnull"):
        return (k, subst(t[1], ren))
    if k == "tuple":
        return ("tuple", [subst(x, ren) for x in t[1]])
    if k == "fn":
        return ("fn", [subst(x, ren) for x in t[1]], subst(t[2], ren))
    if k == "app":
        return ("app", t[1], [subst(x, ren) for x in t[2]])
    return t


# ------------------------------------------------------------------------------------------------
# public names (through the re-exports of lib.rs)
# ------------------------------------------------------------------------------------------------
def pub_names(mod, seen=frozenset()):
    """{public name: Decl} of module `mod` (declarations and `pub use`)"""
    if mod in seen or mod not in MODULES:
        return {}
    seen = seen | {mod}
    m = MODULES[mod]
    out = {}
    for segs, is_pub in m.globs:
        if is_pub:
            r = walk_from(mod, segs)
            if r[0] == "mod":
                out.update(pub_names(r[1], seen))
    for alias, (segs, is_pub) in m.uses.items():
        if is_pub:
            r = walk_from(mod, segs)
            if r[0] == "decl":
                out[alias] = r[1]
    for n, d in m.decls.items():
        if d.vis == "pub":
            out[n] = d
    return out


def collect_pub_paths(mod=()):
    for n, d in sorted(pub_names(mod).items()):
        d.pub_paths.append("::".join(mod + (n,)))
    for sub in sorted(MODULES):
        if len(sub) == len(mod) + 1 and sub[:len(mod)] == mod and MODULES[sub].pub:
            collect_pub_paths(sub)


# ------------------------------------------------------------------------------------------------
# output
# ------------------------------------------------------------------------------------------------
def q(s):
    return '"' + s + '"'

def coq_list(xs):
    return "[" + "; ".join(xs) + "]"

def coq_ty(t):
    k = t[0]
    if k == "param":   return f"TParam {q(t[1])}"
    if k == "ref":     return f"TRef ({coq_ty(t[1])})"
    if k == "refmut":  return f"TRefMut ({coq_ty(t[1])})"
    if k == "ptrc":    return f"TPtrConst ({coq_ty(t[1])})"
    if k == "ptrm":    return f"TPtrMut ({coq_ty(t[1])})"
    if k == "nonnull": return f"TNonNull ({coq_ty(t[1])})"
    if k == "phantom": return f"TPhantom ({coq_ty(t[1])})"
    if k == "tuple":   return f"TTuple {coq_list([coq_ty(x) for x in t[1]])}"
    if k == "app":     return f"TApp {q(t[1])} {coq_list([coq_ty(x) for x in t[2]])}"
    if k == "fn":      return f"TFnPtr {coq_list([coq_ty(x) for x in t[1]])} ({coq_ty(t[2])})"
    if k == "prim":    return "TPrim"
    raise Untranslated(f"type node {k}")

HEADER = """(* GENERATED by tools/sigx.py from the hashbrown sources -- do not edit.
   The type declarations of the crate as data: generic parameters, field types, and the explicit
   `unsafe impl Send/Sync` with their bounds.  Lifetimes are erased from the types (they play no
   role in Send/Sync nor in the variance of the *type* parameters); the lifetime parameters of each
   declaration are kept in d_lts. *)
From Coq Require Import String List.
Import ListNotations.
Open Scope string_scope.

Inductive ty :=
| TParam (p : string)                   (* a generic parameter of the enclosing declaration *)
| TRef (t : ty)                         (* &'a T *)
| TRefMut (t : ty)                      (* &'a mut T *)
| TPtrConst (t : ty)                    (* *const T *)
| TPtrMut (t : ty)                      (* *mut T *)
| TNonNull (t : ty)                     (* core::ptr::NonNull<T> *)
| TPhantom (t : ty)                     (* core::marker::PhantomData<T> *)
| TTuple (l : list ty)                  (* (A, B, ..), [T; N], and plain std structs of these fields (Chain) *)
| TApp (name : string) (args : list ty) (* a declaration of this crate applied to type arguments *)
| TPrim                                 (* integers, bool, Layout, the SIMD group word: plain data *)
| TFnPtr (args : list ty) (ret : ty).   (* fn(A, ..) -> R *)

Inductive marker := MSend | MSync.

Record decl := mkDecl {
  d_name   : string;                          (* module-qualified name *)
  d_pub    : list string;                     (* public paths in the crate (empty: not exported) *)
  d_lts    : list string;                     (* lifetime parameters *)
  d_params : list string;                     (* type parameters, in order *)
  d_fields : list (string * ty);              (* fields (of all variants, for an enum) *)
  d_send   : option (list (ty * marker));     (* bounds of the explicit `unsafe impl Send`, if any *)
  d_sync   : option (list (ty * marker));     (* bounds of the explicit `unsafe impl Sync`, if any *)
}.
"""


def build():
    MODULES.clear()
    errors = []
    for rel, mod, emit in FILES:
        path = os.path.join(REPO, "src", rel)
        try:
            src = open(path).read()
        except OSError as ex:
            errors.append((rel, f"cannot read: {ex}"))
            continue
        if mod not in MODULES:
            MODULES[mod] = Module(mod, emit)
        MODULES[mod].emit = emit
        try:
            toks = split_angles(tokenize(src))
            scan_items(Cur(toks), mod, len(toks))
        except (ParseError, Untranslated, IndexError) as ex:
            errors.append((rel, f"scan failed: {ex}"))
    for path in list(MODULES):                 # `mod x;` levels whose mod.rs is not read
        for n in range(1, len(path)):
            MODULES.setdefault(path[:n], Module(path[:n], False))
    for m in MODULES.values():
        for e in m.errors:
            errors.append(("item", e))
    collect_pub_paths()
    decls = [d for mod in MODULES.values() if mod.emit for d in mod.decls.values()]
    # resolve fields
    for d in decls:
        if d.error:
            continue
        try:
            d.rfields = [(n, resolve_type(t, d.mod, d.params), s) for n, t, s in d.fields]
        except Untranslated as ex:
            d.error = str(ex)
    # attach the explicit marker impls
    for m in MODULES.values():
        for iparams, marker, selfty, preds, src, err in m.impls:
            try:
                if err:
                    raise Untranslated(err)
                st = resolve_type(selfty, m.path, iparams)
                if st[0] != "app":
                    raise Untranslated("self type is not a declaration of this crate")
                d = next(x for x in decls if x.key == st[1])
                names = [a[1] if a[0] == "param" else None for a in st[2]]
                if None in names or len(set(names)) != len(names):
                    raise Untranslated("self type arguments are not distinct impl parameters (specialised impl)")
                ren = dict(zip(names, d.params))
                bounds = []
                for lhs, traits in preds:
                    lt = None
                    for tr in traits:
                        mk = marker_of(tr, m.path)
                        if mk:
                            if lt is None:
                                lt = subst(resolve_type(lhs, m.path, iparams), ren)
                            bounds.append((lt, mk))
                slot = "send" if marker == "Send" else "sync"
                if getattr(d, slot) is not None:
                    raise Untranslated(f"second explicit {marker} impl for {d.key}")
                setattr(d, slot, bounds)
                d.impl_src[slot] = src
            except (Untranslated, StopIteration, KeyError) as ex:
                errors.append((f"impl `{src[:70]}`", str(ex)))
    # which declarations are needed: exported ones and everything reachable from their fields
    bykey = {}
    for d in decls:
        if d.key in bykey:
            errors.append((d.key, "two declarations with the same qualified name"))
        bykey[d.key] = d
    needed = set()
    def reach(t):
        if t[0] == "app":
            mark(bykey[t[1]])
        for x in t[1:]:
            if isinstance(x, tuple):
                reach(x)
            elif isinstance(x, list):
                for y in x:
                    if isinstance(y, tuple):
                        reach(y)
    def mark(d):
        if d.key in needed:
            return
        needed.add(d.key)
        for _, t, _ in (d.rfields or []):
            reach(t)
    for d in decls:
        if d.pub_paths or d.vis.startswith("pub"):
            mark(d)
    lines = [HEADER]
    emitted = []
    for d in decls:
        if d.error:
            if d.key in needed:
                errors.append((d.key, d.error))
            lines.append(f"(* UNTRANSLATED {d.key}: {d.error} *)\n")
            continue
        gen = ", ".join(["'" + l for l in d.lts] + d.params)
        lines.append(f"(* {d.vis + ' ' if d.vis else ''}{d.kind} {d.name}<{gen}>   [src/{'/'.join(d.mod)}]")
        for n, _, s in d.rfields:
            lines.append(f"     {n}: {s}")
        for slot in ("send", "sync"):
            if slot in d.impl_src:
                lines.append(f"     {d.impl_src[slot]}")
        lines.append("*)")
        def bl(b):
            if b is None:
                return "None"
            return "(Some " + coq_list([f"({coq_ty(t)}, {mk})" for t, mk in b]) + ")"
        ident = "d_" + d.key.replace("::", "_")
        lines.append(f"Definition {ident} : decl := mkDecl {q(d.key)}")
        lines.append(f"  {coq_list([q(p) for p in d.pub_paths])} {coq_list([q(l) for l in d.lts])} {coq_list([q(p) for p in d.params])}")
        lines.append("  " + coq_list([f"({q(n)}, {coq_ty(t)})" for n, t, _ in d.rfields]))
        lines.append(f"  {bl(d.send)} {bl(d.sync)}.\n")
        emitted.append(ident)
    lines.append("Definition gen_decls : list decl :=\n  [ " + ";\n    ".join(emitted) + " ].\n")
    lines.append(f"(* leaves assumed to be plain data: {', '.join('::'.join(x) for x in sorted(ASSUMED_PRIM))} *)")
    for item, why in errors:
        lines.append(f"(* UNTRANSLATED {item}: {why} *)")
    if errors:
        lines.append("\n(* some needed declaration could not be translated: make every dependent proof fail *)")
        lines.append("Definition gen_types_complete : True := sigx_reported_untranslated_items.")
    else:
        lines.append("\nDefinition gen_types_complete : True := I.")
    return "\n".join(lines) + "\n", errors, decls


# ------------------------------------------------------------------------------------------------
# public method signatures (C16, the borrow clause): token-level, tolerant of const generics
# ------------------------------------------------------------------------------------------------
def impl_self_decl(hdr, mod):
    """inherent impl header -> (Decl of the self type | None, impl-level lifetimes)"""
    c = Cur(hdr)
    c.opt("unsafe")
    c.eat("impl")
    lts = []
    if c.at("<"):
        e = match_close_angle(hdr, c.i)
        d = 0
        for k in range(c.i, e + 1):
            x = hdr[k]
            if x.k == "op" and x.v == "<": d += 1
            elif x.k == "op" and x.v == ">": d -= 1
            elif x.k == "lifetime" and d == 1 and hdr[k - 1].v in ("<", ","):
                lts.append(x.v[1:])
        c.i = e + 1
    segs = []
    c.opt("::")
    while c.peek().k == "id":
        segs.append(c.ident())
        if c.at("::") and c.peek(1).k == "id":
            c.i += 1
            continue
        break
    if not segs:
        return None, lts
    r = walk_from(mod, segs)
    return (r[1] if r and r[0] == "decl" else None), lts


def match_close_angle(toks, i):
    d = 0
    for k in range(i, len(toks)):
        x = toks[k]
        if x.k == "op" and x.v == "<": d += 1
        elif x.k == "op" and x.v == ">":
            d -= 1
            if d == 0:
                return k
        elif x.k == "op" and x.v in ("(", "[", "{"):
            pass
    raise Untranslated("unbalanced <>")


def scan_pub_fns(toks, lo, hi, mod, owner, impl_lts):
    """pub fns directly inside the impl body toks[lo+1:hi] -> list of signature dicts"""
    out = []
    i = lo + 1
    while i < hi:
        x = toks[i]
        if x.k == "op" and x.v == "#":
            j = i + 1
            if toks[j].v == "!":
                j += 1
            i = match_close(toks, j) + 1
            continue
        # one item: [pub [(..)]] [const] [unsafe] [extern "C"] fn name ...   | const / type items
        start = i
        vis = ""
        if x.k == "id" and x.v == "pub":
            vis = "pub"
            i += 1
            if toks[i].v == "(":
                i = match_close(toks, i) + 1
                vis = "pub(restricted)"
        while toks[i].k == "id" and toks[i].v in ("const", "unsafe", "default", "async") and not (toks[i].v == "const" and toks[i + 1].k == "id" and toks[i + 1].v not in ("fn", "unsafe")):
            i += 1
        if not (toks[i].k == "id" and toks[i].v == "fn"):
            # not a fn: skip to `;` or a balanced `{}`
            while i < hi and not (toks[i].k == "op" and toks[i].v in (";", "{")):
                if toks[i].k == "op" and toks[i].v in ("(", "["):
                    i = match_close(toks, i)
                i += 1
            i = (match_close(toks, i) if toks[i].v == "{" else i) + 1
            continue
        i += 1
        name = toks[i].v
        i += 1
        fn_lts = []
        if toks[i].k == "op" and toks[i].v == "<":
            e = match_close_angle(toks, i)
            d = 0
            for k in range(i, e + 1):
                y = toks[k]
                if y.k == "op" and y.v == "<": d += 1
                elif y.k == "op" and y.v == ">": d -= 1
                elif y.k == "lifetime" and d == 1 and toks[k - 1].v in ("<", ","):
                    fn_lts.append(y.v[1:])
            i = e + 1
        if not (toks[i].k == "op" and toks[i].v == "("):
            raise Untranslated(f"fn {name}: expected `(`")
        pe = match_close(toks, i)
        params = toks[i + 1:pe]
        i = pe + 1
        # receiver
        recv, k = "RecvNone", 0
        pv = [t.v for t in params[:5]]
        if pv[:1] == ["self"] or pv[:2] == ["mut", "self"]:
            recv = "RecvOwn"; k = 1 if pv[:1] == ["self"] else 2
        elif pv[:1] == ["&"]:
            j = 1
            if len(params) > j and params[j].k == "lifetime":
                j += 1
            if len(params) > j and params[j].v == "mut" and len(params) > j + 1 and params[j + 1].v == "self":
                recv = "RecvMut"; k = j + 2
            elif len(params) > j and params[j].v == "self":
                recv = "RecvRef"; k = j + 1
        in_lts = sorted({t.v[1:] for t in params if t.k == "lifetime" and t.v not in ("'_", "'static")})
        args_borrow = any((t.k == "op" and t.v in ("&", "&&")) or t.k == "lifetime" for t in params[k:])
        # return type
        ret = []
        if toks[i].k == "op" and toks[i].v == "->":
            i += 1
            d = 0
            while not (d == 0 and ((toks[i].k == "id" and toks[i].v == "where") or (toks[i].k == "op" and toks[i].v in ("{", ";")))):
                if toks[i].k == "op" and toks[i].v in ("<", "(", "["): d += 1
                elif toks[i].k == "op" and toks[i].v in (">", ")", "]"): d -= 1
                ret.append(toks[i]); i += 1
        while not (toks[i].k == "op" and toks[i].v in ("{", ";")):
            if toks[i].k == "op" and toks[i].v in ("(", "["):
                i = match_close(toks, i)
            i += 1
        i = (match_close(toks, i) if toks[i].v == "{" else i) + 1
        if vis != "pub":
            continue
        refmut = any(t.k == "op" and t.v in ("&", "&&") and (
            (n + 1 < len(ret) and ret[n + 1].v == "mut") or
            (n + 2 < len(ret) and ret[n + 1].k == "lifetime" and ret[n + 2].v == "mut")) for n, t in enumerate(ret))
        ref = any(t.k == "op" and t.v in ("&", "&&") for t in ret)
        elided = any(t.k == "lifetime" and t.v == "'_" for t in ret)
        ret_lts = sorted({t.v[1:] for t in ret if t.k == "lifetime" and t.v not in ("'_", "'static")})
        heads = []
        for n, t in enumerate(ret):
            if t.k != "id" or (n > 0 and ret[n - 1].v == "::"):
                continue
            if t.v == "Self":
                key = owner.key
            else:
                r = lookup(mod, t.v, frozenset())
                key = r[1].key if r and r[0] == "decl" else None
            if key and key not in heads:
                heads.append(key)
        out.append(dict(owner=owner.key, name=name, recv=recv, impl_lts=impl_lts, fn_lts=fn_lts, in_lts=in_lts,
                        args_borrow=args_borrow, refmut=refmut, ref=ref, elided=elided, ret_lts=ret_lts, heads=heads,
                        src=" ".join(t.v for t in toks[start:pe + 1]) + ((" -> " + " ".join(t.v for t in ret)) if ret else "")))
    return out


SIG_HEADER = """
(* ---------------------------------------------------------------------------------------------
   The PUBLIC METHOD SIGNATURES of the exported types (inherent `pub fn`s), for the borrow clause
   of C16: receiver kind, the lifetimes declared on the fn / mentioned in its inputs / in its
   return type, whether the return type contains `&mut`, `&`, an elided lifetime, and which
   declarations of this crate it mentions.
   --------------------------------------------------------------------------------------------- *)
Inductive recv := RecvNone | RecvRef | RecvMut | RecvOwn.

Record fsig := mkSig {
  s_owner : string;            (* declaration the method belongs to *)
  s_name : string;
  s_recv : recv;               (* none | &self | &mut self | self *)
  s_impl_lts : list string;    (* lifetime parameters of the impl block *)
  s_fn_lts : list string;      (* lifetime parameters declared on the fn itself *)
  s_in_lts : list string;      (* named lifetimes mentioned in the receiver / argument types *)
  s_args_borrow : bool;        (* some non-receiver argument is or contains a borrow *)
  s_ret_refmut : bool;         (* the return type contains `&mut` *)
  s_ret_ref : bool;            (* the return type contains `&` *)
  s_ret_elided : bool;         (* the return type contains the elided lifetime '_ *)
  s_ret_lts : list string;     (* named lifetimes in the return type *)
  s_ret_heads : list string;   (* declarations of this crate mentioned in the return type *)
}.
"""


def build_sigs(decls):
    sigs, errors = [], []
    for m in MODULES.values():
        if not m.emit:
            continue
        for hdr, toks, lo, hi in m.inherent:
            try:
                owner, impl_lts = impl_self_decl(hdr, m.path)
                if owner is None or not owner.pub_paths:
                    continue
                sigs += scan_pub_fns(toks, lo, hi, m.path, owner, impl_lts)
            except (Untranslated, ParseError, IndexError) as ex:
                errors.append((f"impl `{' '.join(x.v for x in hdr)[:70]}`", f"signatures: {ex}"))
    lines = [SIG_HEADER]
    names = []
    def b(x): return "true" if x else "false"
    for n, g in enumerate(sigs):
        ident = f"sig_{n}"
        lines.append(f"(* {g['src'][:200]} *)")
        lines.append(f"Definition {ident} : fsig := mkSig {q(g['owner'])} {q(g['name'])} {g['recv']} {coq_list([q(x) for x in g['impl_lts']])} "
                     f"{coq_list([q(x) for x in g['fn_lts']])} {coq_list([q(x) for x in g['in_lts']])} {b(g['args_borrow'])} "
                     f"{b(g['refmut'])} {b(g['ref'])} {b(g['elided'])} {coq_list([q(x) for x in g['ret_lts']])} {coq_list([q(x) for x in g['heads']])}.")
        names.append(ident)
    lines.append("\nDefinition gen_sigs : list fsig :=\n  [ " + ";\n    ".join(names) + " ].\n")
    for item, why in errors:
        lines.append(f"(* UNTRANSLATED {item}: {why} *)")
    if errors:
        lines.append("Definition gen_sigs_complete : True := sigx_reported_untranslated_signatures.")
    else:
        lines.append("Definition gen_sigs_complete : True := I.")
    return "\n".join(lines) + "\n", errors


def main(argv):
    out = argv[1] if len(argv) > 1 else OUT_DEFAULT
    text, errors, decls = build()
    stext, serrors = build_sigs(decls)
    text += stext
    errors = errors + serrors
    old = None
    if os.path.exists(out):
        old = open(out).read()
    if old != text:
        os.makedirs(os.path.dirname(out), exist_ok=True)
        tmp = out + ".tmp"
        open(tmp, "w").write(text)
        os.replace(tmp, out)
        print(f"sigx: wrote {out} ({sum(1 for d in decls if not d.error)} declarations)")
    else:
        print(f"sigx: {out} unchanged ({sum(1 for d in decls if not d.error)} declarations)")
    for item, why in errors:
        print(f"UNTRANSLATED {item}: {why}")
    return 2 if errors else 0


if __name__ == "__main__":
    sys.exit(main(sys.argv))
