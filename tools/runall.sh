#!/bin/bash
# runall.sh [tier]: every check on the current tree, one line each
cd /verif
for i in 01 02 03 04 05 06 07 08 09 10 11 12 13 14 15 16 17 18 19 20; do
  s=$(date +%s)
  out=$(./hv check C$i ${1:+--tier $1} 2>&1); rc=$?
  echo "C$i exit=$rc $(( $(date +%s) - s ))s $(echo "$out" | grep -E 'VIOLATION|KNOWN' | head -2 | tr '\n' ' ')"
done
