#!/usr/bin/env python3
"""gen_table.py -- histories for HashTable (explicit-hash API): duplicates of identical ids,
value-class predicates that match several entries, get_many_mut with colliding requests,
remove + re-insert through the returned VacantEntry, iter_hash."""
import random, sys
from gen_map import plan_hash, PLANS

KINDS = ["table-drop", "table-drop", "table-plain", "table-200", "table-a64"]

def make_script(rng, name, kind=None, plan=None, nkeys=None, length=None):
    kind = kind or rng.choice(KINDS)
    plan = plan or rng.choice(PLANS)
    nkeys = nkeys or rng.choice([4, 8, 20, 50, 110])
    length = length or rng.choice([40, 80, 140])
    salt = rng.getrandbits(32)
    lines = [f"kind {kind}"] + [f"hash {k} {plan_hash(plan, k, rng, salt)}" for k in range(nkeys + 4)]
    stamp = 0
    def key():
        return rng.randrange(nkeys + 2)
    def pred(k=None):
        if rng.random() < 0.75:
            return f"id {key() if k is None else k}"
        m = rng.choice([2, 3, 5])
        return f"valmod {m} {rng.randrange(m)}"
    steps = 0
    while steps < length:
        phase = rng.choice(["fill", "fill", "dup", "churn", "lookup", "misc", "misc"])
        for _ in range(rng.randrange(1, 14)):
            stamp += 1
            k = key()
            v = rng.randrange(100)
            if phase == "fill":
                lines.append(rng.choice([f"tentryorinsert {k} {stamp} {v}", f"tentryinsert {k} {stamp} {v}", f"tinsertunique {k} {stamp} {v}"]))
            elif phase == "dup":
                lines.append(f"tinsertunique {k % 3} {stamp} {v}")
            elif phase == "churn":
                lines.append(rng.choice([f"tfindentryremove {k} id {k}", f"tinsertunique {k} {stamp} {v}",
                                         f"tremovereinsert {k} id {k} {stamp} {v}", f"tentryinsert {k} {stamp} {v}"]))
            elif phase == "lookup":
                lines.append(rng.choice([f"tfind {k} {pred(k)}", f"tfind {k} {pred()}", f"tfindmut {k} {pred(k)} {v}", f"titerhash {k}", f"tentrydrop {k}", "tclone"]))
            else:
                c = rng.choice(["tretain", "textractif", "tdrain", "tclear", "treserve", "ttryreserve", "tshrinkto", "tshrinktofit",
                                "tgetmanymut", "tgetmanymut", "titer", "tlen", "tcapacity", "tallocsize", "tdrop", "twithcap", "tintoiter"])
                if c == "tretain":
                    keep = [x for x in range(nkeys + 2) if rng.random() < rng.choice([0.2, 0.8])]
                    lines.append(f"tretain {rng.randrange(3)} " + " ".join(map(str, keep)))
                elif c == "textractif":
                    sel = [x for x in range(nkeys + 2) if rng.random() < 0.4]
                    lines.append(f"textractif {rng.choice([0, 1, 2, 1000])} " + " ".join(map(str, sel)))
                elif c == "tdrain":
                    lines.append(f"tdrain {rng.choice([0, 1, 3, 1000])}")
                elif c == "tintoiter":
                    if rng.random() < 0.3:
                        lines.append(rng.choice(["tclear", "tdrain 1000"]))
                    lines.append(f"tintoiter {rng.choice([0, 1, 2, 3, 1000])}")
                elif c in ("treserve", "ttryreserve", "tshrinkto", "twithcap"):
                    lines.append(f"{c} {rng.choice([0, 1, 3, 4, 7, 8, 14, 15, 28, 29, 57, rng.randrange(200)])}")
                elif c == "tgetmanymut":
                    cnt = rng.randrange(0, 5)
                    reqs = []
                    base = key()
                    for j in range(cnt):
                        kk = base if rng.random() < 0.25 else key()
                        reqs.append(f"{kk} {pred(kk)}")
                    lines.append(f"tgetmanymut {rng.randrange(4)} {cnt} " + " ".join(reqs))
                else:
                    lines.append(c)
            steps += 1
    return f"=== {name} plan={plan} nkeys={nkeys}\n" + "\n".join(lines) + "\n"

def make_run_script(rng, name, kind=None):
    """Collision runs for HashTable: n elements under ONE hash (or hashes sharing a probe start),
    n from below a group to several groups (7/14/28/56 fill a table exactly), removals inside the
    run (tombstones in groups without EMPTY), then find / find_mut / entry / iter_hash / get_many_mut /
    remove+reinsert on elements stored beyond the tombstones, before and after an in-place rehash."""
    kind = kind or rng.choice(["table-drop", "table-plain", "table-200"])
    plan = rng.choice(["zero", "max", "lowpos", "twotags", "wrap", "sametag"])
    n = rng.choice([9, 14, 14, 15, 16, 17, 18, 24, 28, 28, 31, 33, 40, 56, 57])
    salt = rng.getrandbits(32)
    lines = [f"kind {kind}"] + [f"hash {k} {plan_hash(plan, k, rng, salt)}" for k in range(n + 8)]
    stamp = [0]
    def st():
        stamp[0] += 1
        return stamp[0]
    live = set()
    for k in range(n):
        lines.append(f"tinsertunique {k} {st()} {rng.randrange(100)}"); live.add(k)
    for k in rng.sample(range(n), rng.choice([1, 1, 2, 3, max(1, n // 3), n // 2 + 1, max(1, n - 2), max(1, n - 5)])):
        lines.append(f"tfindentryremove {k} id {k}"); live.discard(k)
    def probes():
        keys = list(range(n + 4))
        rng.shuffle(keys)
        for k in keys[: rng.choice([6, 12, n + 4])]:
            c = rng.choice(["tfind", "tfind", "tfindmut", "tentryorinsert", "tentryinsert", "tentrydrop", "titerhash", "titerhash",
                            "tremovereinsert", "tgetmanymut", "tinsertunique", "tfindentryremove", "titer", "tlen", "tclone"])
            v = rng.randrange(100)
            if c in ("tfind",):
                lines.append(f"tfind {k} id {k}")
            elif c == "tfindmut":
                lines.append(f"tfindmut {k} id {k} {v}")
            elif c in ("tentryorinsert", "tentryinsert"):
                lines.append(f"{c} {k} {st()} {v}"); live.add(k)
            elif c == "tentrydrop":
                lines.append(f"tentrydrop {k}")
            elif c == "titerhash":
                lines.append(f"titerhash {k}")
            elif c == "tremovereinsert":
                lines.append(f"tremovereinsert {k} id {k} {st()} {v}")
            elif c == "tgetmanymut":
                k2 = rng.choice(keys)
                lines.append(f"tgetmanymut {rng.randrange(4)} 2 {k} id {k} {k2} id {k2}")
            elif c == "tinsertunique":
                if k not in live:
                    lines.append(f"tinsertunique {k} {st()} {v}"); live.add(k)
            elif c == "tfindentryremove":
                lines.append(f"tfindentryremove {k} id {k}"); live.discard(k)
            else:
                lines.append(c)
    probes()
    if rng.random() < 0.6:
        lv = list(live)
        rng.shuffle(lv)
        for k in lv[: max(0, len(lv) - rng.choice([1, 2, 4, 7]))]:
            lines.append(f"tfindentryremove {k} id {k}"); live.discard(k)
        for _ in range(rng.choice([4, 10, 30])):
            absent = [k for k in range(n + 4) if k not in live]
            if not absent:
                break
            k = rng.choice(absent)
            lines.append(f"tentryorinsert {k} {st()} {rng.randrange(100)}"); live.add(k)
            if rng.random() < 0.3 and live:
                k = rng.choice(list(live))
                lines.append(f"tfindentryremove {k} id {k}"); live.discard(k)
        probes()
    lines.append("titer")
    return f"=== {name} plan={plan} nkeys={n + 6}\n" + "\n".join(lines) + "\n"

def make_last_script(rng, name, kind=None):
    """C06: the LAST element of a table full of tombstones.  n elements under one hash (or hashes sharing
    a probe start), n above one group, so that late elements live in a later probe group; all but one
    (usually a late one) are removed one by one -- the groups in front of the survivor hold only
    DELETED bytes; then the survivor is removed and an element re-inserted through the VacantEntry that
    OccupiedEntry::remove returned (the slot it names was only valid because of those tombstones), and
    looked up through find / iter_hash / entry; then the table is refilled."""
    kind = kind or rng.choice(["table-drop", "table-plain", "table-200"])
    plan = rng.choice(["zero", "zero", "max", "lowpos", "twotags", "wrap", "sametag"])
    n = rng.choice([9, 12, 17, 18, 20, 24, 28, 33, 40, 56])
    salt = rng.getrandbits(32)
    lines = [f"kind {kind}"] + [f"hash {k} {plan_hash(plan, k, rng, salt)}" for k in range(n + 8)]
    stamp = [0]
    def st():
        stamp[0] += 1
        return stamp[0]
    if rng.random() < 0.3:
        lines.append(f"twithcap {rng.choice([n, 2 * n, 57])}")
    for k in range(n):
        lines.append(f"tinsertunique {k} {st()} {rng.randrange(100)}")
    keepn = rng.choice([1, 1, 1, 2, 3])
    survivors = sorted(rng.sample(range(n), keepn)) if rng.random() < 0.3 else list(range(n - keepn, n))
    order = [k for k in range(n) if k not in survivors]
    if rng.random() < 0.5:
        rng.shuffle(order)
    for k in order:
        lines.append(rng.choice([f"tfindentryremove {k} id {k}", f"tfindentryremove {k} id {k}", f"tremovereinsert {k} id {k} {st()} 0\ntfindentryremove {k} id {k}"]))
    lines.append("tlen"); lines.append("tcapacity")
    for k in survivors:
        lines.append(f"tremovereinsert {k} id {k} {st()} {rng.randrange(100)}")
        lines.append(f"tfind {k} id {k}"); lines.append(f"titerhash {k}"); lines.append(f"tentrydrop {k}")
    lines.append("titer"); lines.append("tlen")
    for k in rng.sample(range(n + 4), min(n + 4, rng.choice([2, 5, n // 2]))):
        lines.append(rng.choice([f"tentryorinsert {k} {st()} {rng.randrange(100)}", f"tfind {k} id {k}", f"tinsertunique {k} {st()} 1"]))
    for k in survivors:
        lines.append(f"tfind {k} id {k}")
    lines.append("titer")
    return f"=== {name} plan={plan} nkeys={n + 6}\n" + "\n".join(lines) + "\n"

def make_foreign_script(rng, name, kind=None):
    """C05 for HashTable: the caller looks elements up under ANOTHER element's hash (hashes = bucket
    positions, one tag for everybody, so a lookup under hash h reaches every element stored in h's probe
    window): find / find_mut / find_entry + remove / remove + re-insert through the returned VacantEntry /
    get_many_mut / entry with foreign hashes, on a table filled to exact capacity (growth_left = 0) whose
    only EMPTY bytes sit in front of a long run.  Results are unspecified; every operation must return and
    leave the counters exact."""
    kind = kind or rng.choice(["table-plain", "table-drop", "table-6"])
    nb = rng.choice([32, 64])
    cap = nb * 7 // 8
    lo = nb - cap
    lines = [f"kind {kind}"] + [f"hash {k} {k}" for k in range(nb + 8)]
    stamp = [0]
    def st():
        stamp[0] += 1
        return stamp[0]
    lines.append(f"twithcap {cap}")
    for k in range(lo, nb):
        lines.append(f"tinsertunique {k} {st()} {k % 97}")
    lines.append("tcapacity"); lines.append("tlen")
    live = set(range(lo, nb))
    for _ in range(rng.choice([6, 12, 24])):
        e = rng.choice(sorted(live)) if live else lo
        h = rng.choice([e, max(0, e - rng.randrange(1, 15)), rng.randrange(0, e + 1), rng.randrange(0, lo + 1)])
        c = rng.choice(["tremovereinsert", "tremovereinsert", "tremovereinsert", "tfind", "tfindmut", "tfindentryremove", "tgetmanymut", "tentryorinsert", "titerhash"])
        if c == "tremovereinsert":
            lines.append(f"tremovereinsert {h} id {e} {st()} {rng.randrange(100)}")
        elif c == "tfind":
            lines.append(f"tfind {h} id {e}")
        elif c == "tfindmut":
            lines.append(f"tfindmut {h} id {e} {rng.randrange(100)}")
        elif c == "tfindentryremove":
            lines.append(f"tfindentryremove {h} id {e}"); lines.append(f"tinsertunique {e} {st()} 1")
        elif c == "tgetmanymut":
            e2 = rng.choice(sorted(live))
            lines.append(f"tgetmanymut {rng.randrange(3)} 2 {h} id {e} {max(0, e2 - 3)} id {e2}")
        elif c == "tentryorinsert":
            lines.append(f"tentryorinsert {h} {st()} {rng.randrange(100)}")
        else:
            lines.append(f"titerhash {h}")
        lines.append("tlen")
    lines.append("tcapacity"); lines.append("titer")
    for k in rng.sample(range(nb + 4), 8):
        lines.append(f"tentryorinsert {k} {st()} 3")
    lines.append("tlen"); lines.append("titer")
    return f"=== {name} plan=positions nkeys={nb + 6}\n" + "\n".join(lines) + "\n"

def make_many_script(rng, name, kind=None):
    """C15: get_many_mut on small and medium tables whose elements share a tag (so that a lookup under
    ANOTHER element's hash reaches them), with closures from exact (id) to sloppy (value classes,
    always-true): 0..4 requests, repeated / adjacent / non-adjacent duplicates, absent hashes."""
    kind = kind or rng.choice(["table-drop", "table-plain", "table-200", "table-a64"])
    plan = rng.choice(["sametag", "sametag", "zero", "twotags", "lowpos", "mix"])
    n = rng.choice([1, 2, 3, 5, 8, 13, 20])
    salt = rng.getrandbits(32)
    lines = [f"kind {kind}"] + [f"hash {k} {plan_hash(plan, k, rng, salt)}" for k in range(n + 8)]
    stamp = 0
    for k in range(n):
        stamp += 1
        lines.append(f"tinsertunique {k} {stamp} {rng.randrange(10)}")
    def pred(k):
        x = rng.random()
        if x < 0.4: return f"id {k}"
        if x < 0.7: return "valmod 1 0"                      # |_| true
        m = rng.choice([2, 3]); return f"valmod {m} {rng.randrange(m)}"
    for _ in range(rng.choice([10, 20, 40])):
        cnt = rng.choice([0, 1, 2, 2, 3, 3, 4, 4])
        base = [rng.randrange(n + 3) for _ in range(cnt)]
        shape = rng.random()
        if cnt >= 2 and shape < 0.25: base[-1] = base[0]          # non-adjacent (or adjacent for 2) repeat
        elif cnt >= 3 and shape < 0.4: base[1] = base[0]          # adjacent repeat
        elif cnt >= 4 and shape < 0.5: base[3] = base[1]
        reqs = [f"{k} {pred(k)}" for k in base]
        lines.append(f"tgetmanymut {rng.randrange(4)} {cnt} " + " ".join(reqs))
        if rng.random() < 0.2:
            k = rng.randrange(n + 3)
            stamp += 1
            lines.append(rng.choice([f"tfindentryremove {k} id {k}", f"tinsertunique {k} {stamp} {rng.randrange(10)}", "titer"]))
    return f"=== {name} plan={plan} nkeys={n + 6}\n" + "\n".join(lines) + "\n"

def make_removal_script(rng, name, kind=None):
    """C10 for HashTable: retain / extract_if / drain on collision runs, then refill and observe."""
    kind = kind or rng.choice(["table-drop", "table-plain", "table-200", "table-zst", "table-zst64", "table-1", "table-3", "table-17"])
    plan = rng.choice(["zero", "max", "lowpos", "twotags", "wrap", "sametag", "mix", "seq"])
    n = rng.choice([3, 7, 9, 14, 16, 17, 24, 28, 33, 40, 56, 57])
    salt = rng.getrandbits(32)
    lines = [f"kind {kind}"] + [f"hash {k} {plan_hash(plan, k, rng, salt)}" for k in range(n + 8)]
    stamp = [0]
    def st():
        stamp[0] += 1
        return stamp[0]
    live = set()
    for rnd in range(rng.choice([1, 2, 3])):
        for k in range(n):
            if k not in live:
                lines.append(f"tinsertunique {k} {st()} {rng.randrange(100)}"); live.add(k)
        if rng.random() < 0.25:
            # everything removed one by one first: an empty table that still holds removed-slot markers
            for k in sorted(live):
                lines.append(f"tfindentryremove {k} id {k}")
            live = set()
        c = rng.choice(["tretain", "tretain", "textractif", "textractif", "tdrain"])
        lv = sorted(live)
        mode = rng.choice(["none", "one", "some", "all"])
        pick = [] if mode == "none" else ([rng.choice(lv)] if mode == "one" and lv else ([x for x in lv if rng.random() < 0.5] if mode == "some" else lv))
        if c == "tretain":
            lines.append(f"tretain {rng.randrange(3)} " + " ".join(map(str, pick))); live = set(pick)
        elif c == "textractif":
            take = rng.choice([0, 1, len(pick) // 2, len(pick), 1000])
            lines.append(f"textractif {take} " + " ".join(map(str, pick)))
            if take >= len(pick):
                live -= set(pick)
            else:
                lines += ["titer", "tlen", "tcapacity", "tclear"]; live = set()
        else:
            lines.append(f"tdrain {rng.choice([0, 1, len(lv) // 2, len(lv), 1000])}"); live = set()
        lines += ["tlen", "tcapacity", "titer"]
        for k in rng.sample(range(n + 4), min(n + 4, rng.choice([1, 3, n // 2 + 1, n + 4]))):
            if k not in live:
                lines.append(f"tentryorinsert {k} {st()} {rng.randrange(100)}"); live.add(k)
        for k in rng.sample(range(n + 4), min(4, n)):
            lines.append(rng.choice([f"tfind {k} id {k}", f"titerhash {k}"]))
        lines += ["tlen", "tcapacity", "titer"]
    return f"=== {name} plan={plan} nkeys={n + 6}\n" + "\n".join(lines) + "\n"

def make_layout_script(rng, name, kind):
    """C08 / C17 deterministically for one element kind: tables of every small bucket count (with_capacity
    1, 3, 4, 7, 8, 14, 15, 28, 29) with allocation_size / capacity read right after the allocation, after a
    few insertions, after removals and after shrink_to_fit -- element sizes that are no multiple of the
    control-byte alignment make the data part of 4- and 8-bucket tables need padding."""
    plan = rng.choice(["seq", "mix", "zero"])
    salt = rng.getrandbits(32)
    lines = [f"kind {kind}"] + [f"hash {k} {plan_hash(plan, k, rng, salt)}" for k in range(40)]
    st = 0
    for cap in [1, 3, 4, 7, 8, 14, 15, 28, 29]:
        lines += [f"twithcap {cap}", "tallocsize", "tcapacity", "tlen"]
        for k in range(min(cap, rng.choice([1, 2, 3, cap]))):
            st += 1
            lines.append(f"tinsertunique {k} {st} {k}")
        lines += ["tallocsize", "tcapacity", "titer"]
        if cap >= 7:
            lines += [f"tfindentryremove 0 id 0", "tshrinktofit", "tallocsize", "tcapacity"]
        lines += [f"treserve {cap + 1}", "tallocsize", "tcapacity", "tclear", "tallocsize"]
    lines.append("tdrop")
    return f"=== {name} plan={plan} nkeys=40\n" + "\n".join(lines) + "\n"

def make_table_fault_script(rng, name):
    """C04 for HashTable: a destructor (of a rejected / overwritten / cleared element) or the caller's
    predicate panics at its k-th call inside retain / extract_if / clear / drain / entry-insert on a
    present key / clone / drop; afterwards the table is observed through every observer."""
    plan = rng.choice(["seq", "mix", "zero", "lowpos"])
    salt = rng.getrandbits(32)
    lines = ["kind table-drop"] + [f"hash {k} {plan_hash(plan, k, rng, salt)}" for k in range(48)]
    st = 0
    for rnd in range(rng.choice([3, 4, 6])):
        n = rng.choice([3, 7, 12, 20, 28])
        lines.append("tclear")
        for k in range(n):
            st += 1
            lines.append(f"tinsertunique {k} {st} {k}")
        if rng.random() < 0.5:
            for k in rng.sample(range(n), max(1, n // 3)):
                lines.append(f"tfindentryremove {k} id {k}")
        arm = rng.choice(["droppanic_nth", "droppanic_nth", "predpanic_nth"])
        kth = rng.choice([0, 0, 1, 2, 3])
        keep = [x for x in range(n) if rng.random() < rng.choice([0.0, 0.3, 0.7])]
        if arm == "predpanic_nth":
            op = rng.choice([f"tretain {rng.randrange(3)} " + " ".join(map(str, keep)), f"textractif {rng.choice([1, 3, 1000])} " + " ".join(map(str, keep))])
        else:
            st += 1
            op = rng.choice([f"tretain {rng.randrange(3)} " + " ".join(map(str, keep)), "tclear", f"tdrain {rng.choice([0, 1, 1000])}",
                             f"tentryinsert {rng.randrange(n)} {st} 5", "tclone", "tdrop", f"twithcap {rng.choice([0, 8])}"])
        lines += [f"arm {arm} {kth}", op, "tlen", "titer"]
        for k in rng.sample(range(n), min(n, 3)):
            lines.append(f"tfind {k} id {k}")
    lines.append("tdrop")
    return f"=== {name} plan={plan} nkeys=48\n" + "\n".join(lines) + "\n"

def make_tomb_shrink_script(rng, name, kind=None):
    """C08 deterministically: a table filled to exact capacity under identity-like hashes, all but a few
    elements removed one by one (every removal leaves a removed-slot marker, so capacity() falls to
    len()), then shrink_to_fit / shrink_to(m): the allocation must come down to that of a fresh table."""
    kind = kind or rng.choice(["table-plain", "table-drop", "table-6"])
    lines = [f"kind {kind}"] + [f"hash {k} {plan_hash('seq', k, rng, 0)}" for k in range(120)]
    st = 0
    for n in [28, 56, 112]:
        lines += ["tdrop", f"treserve {n}"]
        for k in range(n):
            st += 1
            lines.append(f"tinsertunique {k} {st} {k}")
        keepn = rng.choice([0, 1, 5])
        for k in range(n - keepn):
            lines.append(f"tfindentryremove {k} id {k}")
        lines += ["tlen", "tcapacity", "tallocsize", rng.choice(["tshrinktofit", "tshrinktofit", f"tshrinkto {rng.choice([0, keepn, keepn + 1])}"]), "tcapacity", "tallocsize", "titer"]
    return f"=== {name} plan=seq nkeys=120\n" + "\n".join(lines) + "\n"

def make_spare_capacity_script(rng, name, kind=None):
    """C08 deterministically: a table filled to exact capacity under identity-like hashes (one run of
    full buckets longer than a group), a clustered block removed from inside that run (removed-slot
    markers: the spare room does NOT come back), then capacity / len and a handful of absent keys
    inserted: an insertion may touch the allocator only when the collection's own capacity() - len()
    was 0 just before it."""
    kind = kind or rng.choice(["table-plain", "table-drop", "table-6"])
    lines = [f"kind {kind}"] + [f"hash {k} {plan_hash('seq', k, rng, 0)}" for k in range(140)]
    st = 0
    for n in [28, 56, 112]:
        lines += ["tdrop", f"treserve {n}"]
        for k in range(n):
            st += 1
            lines.append(f"tinsertunique {k} {st} {k}")
        a = rng.choice([4, 8, 10]); w = rng.choice([3, 4, 6])
        for k in range(a, a + w):
            lines.append(f"tfindentryremove {k} id {k}")
        lines += ["tlen", "tcapacity", "tallocsize"]
        for j in range(w + 2):
            st += 1
            lines.append(f"tinsertunique {120 + j} {st} {j}")
            lines += ["tcapacity"]
        lines += ["tlen", "tallocsize", "titer"]
    return f"=== {name} plan=seq nkeys=140\n" + "\n".join(lines) + "\n"

def make_chain_extract_script(rng, name, kind=None):
    """C10 deterministically: one collision chain longer than a group in a 32-bucket table, two removals
    (removed-slot markers, len() <= group width), then extract_if / retain taking an element from the
    FIRST group: every element not selected must still be found afterwards."""
    kind = kind or rng.choice(["table-plain", "table-drop"])
    lines = [f"kind {kind}"] + [f"hash {k} 0" for k in range(40)]
    st = 0
    for n in [18, 20, 26]:
        lines += ["tclear"]
        for k in range(n):
            st += 1
            lines.append(f"tinsertunique {k} {st} {k}")
        for k in rng.sample(range(1, 14), n - 16):
            lines.append(f"tfindentryremove {k} id {k}")
        lines.append(rng.choice(["textractif 1 0", "textractif 1000 0 14", "tretain 0 " + " ".join(str(k) for k in range(1, n))]))
        lines += ["tlen", "titer"]
        for k in range(n):
            lines.append(f"tfind {k} id {k}")
    return f"=== {name} plan=zero nkeys=40\n" + "\n".join(lines) + "\n"

def make_zst_removal_script(rng, name, kind):
    """C10 deterministically for zero-sized (and 1-byte) elements: retain / extract_if / drain on tables
    whose elements sit in many different buckets (for a zero-sized type the bucket 'pointer' is its index)."""
    plan = rng.choice(["seq", "mix"])
    salt = rng.getrandbits(32)
    lines = [f"kind {kind}"] + [f"hash {k} {plan_hash(plan, k, rng, salt)}" for k in range(64)]
    st = 0
    for n, op in [(5, "tretain 0"), (12, "textractif 1000 0 1 2 3 4 5 6 7 8 9 10 11 12"), (20, "tretain 1"), (9, "tdrain 3"),
                  (28, "textractif 2 0 1 2 3"), (16, "tretain 0 0 1 2 3 4 5 6 7 8 9 10 11 12 13 14 15")]:
        for k in range(n):
            st += 1
            lines.append(f"tinsertunique {k} {st} 0")
        if n in (12, 28):
            # single removals through find_entry(..).remove(): Bucket -> index -> control byte
            for k in (1, n - 2):
                lines.append(f"tfindentryremove {k} id {0 if kind.startswith('table-zst') else k}")
        lines += ["tlen", "tclone", "tlen", op, "tlen", "titer", "tcapacity", "tclone"]
        for k in range(min(n, 4)):
            lines.append(f"tfind {k} id {k}")
        lines += ["tclear"]
    lines.append("tdrop")
    return f"=== {name} plan={plan} nkeys=64\n" + "\n".join(lines) + "\n"

if __name__ == "__main__":
    seed, count = int(sys.argv[1]), int(sys.argv[2])
    rng = random.Random(seed)
    sys.stdout.write("".join(make_script(rng, f"t{seed}_{i}") for i in range(count)))
