#!/bin/bash
# seedregress.sh [jobs] [pattern]: every stored seeded change against the CURRENT check of its own property
# (quick tier, default seed), `jobs` at a time; one line per seed in /tmp/seedregress/summary.txt
J=${1:-4}; PAT=${2:-C}
mkdir -p /tmp/seedregress; : > /tmp/seedregress/summary.txt
ls -d /verif/seeded/${PAT}*_m* | xargs -P $J -I{} bash -c '
  d={}; tag=$(basename $d); p=${tag%%_*}
  out=/tmp/seedregress/$tag.txt
  /verif/tools/mutcheck.sh $d/patch.diff -- $p > $out 2>&1
  if grep -q "^VIOLATION.*no-failing-input-found" $out; then r=NOINPUT; elif grep -q "^VIOLATION" $out; then r=REPLAY; else r=MISSED; fi
  echo "$tag $r" >> /tmp/seedregress/summary.txt'
sort /tmp/seedregress/summary.txt | awk "{print \$2}" | sort | uniq -c
grep -v REPLAY /tmp/seedregress/summary.txt | sort
