#!/usr/bin/env python3
"""gen_spec.py -- the table of source items that rs2v.py translates into Gen.v, and the
command-line entry point `gen_spec.py <out.v>`.  Exit status 0 = all items translated;
2 = some item left the translatable subset (the names are printed as `UNTRANSLATED <item>: why`
and the item is emitted as a comment so that every proof depending on it fails to compile)."""
import sys, os
sys.path.insert(0, os.path.dirname(os.path.abspath(__file__)))
import rs2v
from rs2v import Unit, translate_fn, translate_const, Unsupported, ALL_UNITS
from rsparse import ParseError

def build():
    out = []        # list of (section title, [GenDef | (name, error)])
    errors = []

    def unit(key, path, prefix, **kw):
        u = Unit(path, prefix, **{k: v for k, v in kw.items() if k not in ("self_name", "self_inner", "self_size", "const_values")})
        u.self_name = kw.get("self_name")
        u.self_inner = kw.get("self_inner")
        u.self_size = kw.get("self_size")
        u.const_values = kw.get("const_values", {})
        ALL_UNITS[key] = u
        return u

    def fn(u, qual, name, register=None, **kw):
        try:
            d = translate_fn(u, qual, name, **kw)
            u.defs[register or qual] = d
            cur.append(d)
        except (Unsupported, ParseError, KeyError, IndexError, TypeError, AttributeError) as ex:
            errors.append((name, f"{type(ex).__name__}: {ex}"))
            cur.append((name, f"{u.path}: {qual}: {type(ex).__name__}: {ex}"))

    def const(u, qual, name, register=None):
        try:
            d = translate_const(u, qual, name)
            u.defs[register or qual] = d
            cur.append(d)
        except (Unsupported, ParseError, KeyError, IndexError, TypeError, AttributeError) as ex:
            errors.append((name, f"{type(ex).__name__}: {ex}"))
            cur.append((name, f"{u.path}: const {qual}: {type(ex).__name__}: {ex}"))

    # ------------------------------------------------------------------ control/tag.rs
    cur = []
    out.append(("control/tag.rs", cur))
    tag = unit("tag", "control/tag.rs", "tag_", self_ty="Tag", self_name="Tag", self_inner="u8",
               newtypes={"Tag": "u8"})
    const(tag, "Tag::EMPTY", "tag_EMPTY")
    const(tag, "Tag::DELETED", "tag_DELETED")
    fn(tag, "Tag::is_full", "tag_is_full")
    fn(tag, "Tag::is_special", "tag_is_special")
    fn(tag, "Tag::special_is_empty", "tag_special_is_empty")
    fn(tag, "Tag::full", "tag_full")

    # ------------------------------------------------------------------ control/bitmask.rs
    cur = []
    out.append(("control/bitmask.rs (parametric in the back-end constants)", cur))
    bm = unit("bitmask", "control/bitmask.rs", "bm_", self_ty="BitMask", self_name="BitMask",
              self_inner="BitMaskWord",
              const_params=["BITMASK_STRIDE", "BITMASK_MASK", "BITMASK_ITER_MASK"],
              newtypes={"BitMask": "BitMaskWord"})
    fn(bm, "BitMask::invert", "bm_invert")
    fn(bm, "BitMask::remove_lowest_bit", "bm_remove_lowest_bit")
    fn(bm, "BitMask::any_bit_set", "bm_any_bit_set")
    fn(bm, "BitMask::nonzero_trailing_zeros", "bm_nonzero_trailing_zeros", param_ty={"nonzero": "BitMaskWord"})
    fn(bm, "BitMask::lowest_set_bit", "bm_lowest_set_bit")
    fn(bm, "BitMask::trailing_zeros", "bm_trailing_zeros")
    fn(bm, "BitMask::leading_zeros", "bm_leading_zeros")
    fn(bm, "BitMask::into_iter", "bm_into_iter")

    # ------------------------------------------------------------------ control/group/generic.rs
    cur = []
    out.append(("control/group/generic.rs (64-bit GroupWord)", cur))
    gen = unit("generic", "control/group/generic.rs", "generic_", self_ty="u64", self_name="Group",
               self_inner="u64", group_ty="u64", self_size=8, const_values={"BITMASK_BITS": "64"},
               type_alias={"GroupWord": "u64", "BitMaskWord": "u64"},
               newtypes={"Group": "u64", "BitMask": "u64", "Tag": "u8"})
    const(gen, "BITMASK_STRIDE", "generic_BITMASK_STRIDE")
    const(gen, "BITMASK_MASK", "generic_BITMASK_MASK")
    const(gen, "BITMASK_ITER_MASK", "generic_BITMASK_ITER_MASK")
    const(gen, "Group::WIDTH", "generic_WIDTH")
    fn(gen, "repeat", "generic_repeat", param_ty={"tag": "Tag"})
    fn(gen, "Group::match_tag", "generic_match_tag", param_ty={"tag": "Tag"})
    fn(gen, "Group::match_empty", "generic_match_empty")
    fn(gen, "Group::match_empty_or_deleted", "generic_match_empty_or_deleted")
    fn(gen, "Group::match_full", "generic_match_full")
    fn(gen, "Group::convert_special_to_empty_and_full_to_deleted", "generic_convert")

    # ------------------------------------------------------------------ control/group/sse2.rs
    cur = []
    out.append(("control/group/sse2.rs (intrinsics are the byte-wise functions of Base/Sse2.v)", cur))
    sse = unit("sse2", "control/group/sse2.rs", "sse2_", self_ty="m128", self_name="Group",
               self_inner="m128", group_ty="m128", self_size=16, const_values={"BITMASK_BITS": "16"},
               type_alias={"BitMaskWord": "u16"},
               newtypes={"Group": "m128", "BitMask": "u16", "Tag": "u8"})
    const(sse, "BITMASK_STRIDE", "sse2_BITMASK_STRIDE")
    const(sse, "BITMASK_MASK", "sse2_BITMASK_MASK")
    const(sse, "BITMASK_ITER_MASK", "sse2_BITMASK_ITER_MASK")
    const(sse, "Group::WIDTH", "sse2_WIDTH")
    fn(sse, "Group::match_tag", "sse2_match_tag", param_ty={"tag": "Tag"})
    fn(sse, "Group::match_empty", "sse2_match_empty")
    fn(sse, "Group::match_empty_or_deleted", "sse2_match_empty_or_deleted")
    fn(sse, "Group::match_full", "sse2_match_full")
    fn(sse, "Group::convert_special_to_empty_and_full_to_deleted", "sse2_convert")

    # ------------------------------------------------------------------ raw/mod.rs
    cur = []
    out.append(("raw/mod.rs", cur))
    raw = unit("raw", "raw/mod.rs", "", self_ty=None, self_name=None, self_inner=None,
               newtypes={"Tag": "u8"})
    fn(raw, "h1", "h1")
    raw.self_name = "ProbeSeq"
    fn(raw, "ProbeSeq::move_next", "probe_move_next", ret_fields=["pos", "stride"])
    raw.self_name = None
    fn(raw, "capacity_to_buckets", "capacity_to_buckets")
    fn(raw, "bucket_mask_to_capacity", "bucket_mask_to_capacity")
    raw.self_ty = ("struct", "TableLayout")
    raw.self_name = "TableLayout"
    fn(raw, "TableLayout::new", "table_layout_new", skip_lets=["layout"],
       opaque={"layout.size()": ("layout_size", "usize"), "layout.align()": ("layout_align", "usize")},
       ret_ty="TableLayout")
    fn(raw, "TableLayout::calculate_layout_for", "calculate_layout_for")
    raw.self_ty = None
    raw.self_name = "RawTableInner"
    fn(raw, "RawTableInner::probe_seq", "probe_seq", ret_ty="ProbeSeq")
    fn(raw, "RawTableInner::set_ctrl", "set_ctrl_index2", extract=("let", "index2"))
    fn(raw, "RawTableInner::erase", "erase_index_before", extract=("let", "index_before"))
    fn(raw, "RawTableInner::erase", "erase_choose_deleted", extract=("ifcond", 0),
       opaque={"empty_before.leading_zeros()": ("empty_before_leading_zeros", "usize"),
               "empty_after.trailing_zeros()": ("empty_after_trailing_zeros", "usize")})
    fn(raw, "RawTableInner::is_in_same_group", "is_in_same_group")
    fn(raw, "RawTableInner::record_item_insert_at", "record_item_insert_at",
       ret_fields=["growth_left", "items"], skip_calls=["set_ctrl_hash"],
       opaque={"old_ctrl.special_is_empty()": ("old_ctrl_special_is_empty", "bool")})
    fn(raw, "RawTableInner::clear_no_drop", "clear_no_drop_accounting",
       ret_fields=["items", "growth_left"], skip_calls=["fill_empty"])
    fn(raw, "RawTableInner::num_ctrl_bytes", "num_ctrl_bytes")
    fn(raw, "RawTableInner::reserve_rehash_inner", "reserve_rehash_new_items", extract=("matchscrut", 0))
    fn(raw, "RawTableInner::reserve_rehash_inner", "reserve_rehash_full_capacity", extract=("let", "full_capacity"))
    fn(raw, "RawTableInner::reserve_rehash_inner", "reserve_rehash_in_place", extract=("ifcond", 0))
    fn(raw, "RawTableInner::reserve_rehash_inner", "reserve_rehash_resize_target", extract=("callarg", ("resize_inner", 1)))
    raw.self_name = "RawIterRange"
    fn(raw, "RawIterRange::split", "split_mid", extract=("let", "mid"))
    # structural fact: in rehash_in_place's unwind guard, does the loop that resets DELETED
    # bytes run regardless of `drop` (for-loop outside `if let Some(drop) = drop`)?
    try:
        cur.append(rs2v.rehash_guard_fact(raw))
    except Exception as ex:
        errors.append(("rehash_guard_unconditional", str(ex)))
        cur.append(("rehash_guard_unconditional", str(ex)))
    raw.self_name = "RawTable"
    fn(raw, "RawTable::capacity", "raw_capacity")

    # ------------------------------------------------------------------ serde
    cur = []
    out.append(("external_trait_impls/serde.rs", cur))
    ser = unit("serde", "external_trait_impls/serde.rs", "serde_")
    ser.self_name = None
    ser.self_inner = None
    fn(ser, "cautious", "serde_cautious", param_ty={"hint": "Option<usize>"})

    # ------------------------------------------------------------------ set.rs
    cur = []
    out.append(("set.rs (the size comparisons that choose the iteration strategy)", cur))
    st = unit("set", "set.rs", "set_")
    st.self_name = "HashSet"
    lens = {"self.len()": ("self_len", "usize"), "other.len()": ("other_len", "usize"), "rhs.len()": ("rhs_len", "usize")}
    fn(st, "HashSet::intersection", "set_intersection_self_smaller", extract=("ifcond", 0), opaque=lens)
    fn(st, "HashSet::union", "set_union_self_smaller", extract=("ifcond", 0), opaque=lens)
    fn(st, "HashSet::sub_assign", "set_sub_assign_remove_branch", extract=("ifcond", 0), opaque=lens)
    fn(st, "Difference::size_hint", "set_difference_size_hint_lower", extract=("tuple0", 0),
       opaque={"self.other.len()": ("other_len", "usize")}, param_ty={"lower": "usize", "upper": "usize"})
    # ------------------------------------------------------------------ map.rs
    cur = []
    out.append(("map.rs", cur))
    mp = unit("map", "map.rs", "map_")
    mp.self_name = "HashMap"
    fn(mp, "HashMap::extend", "map_extend_reserve", extract=("let", "reserve"),
       opaque={"self.is_empty()": ("self_is_empty", "bool"), "iter.size_hint().0": ("hint_lower", "usize")})

    return out, errors

def render(out):
    lines = ["(* GENERATED by tools/gen_spec.py (rs2v.py) from the Rust sources under /repo/src.",
             "   DO NOT EDIT.  Regenerated on every check; Model/*.v and Proofs/*.v import it. *)",
             "From Coq Require Import ZArith List Bool.",
             "From HB Require Import RsPrelude Sse2.",
             "Import ListNotations.",
             "Open Scope Z_scope.",
             ""]
    for title, defs in out:
        lines.append(f"(* ===== {title} ===== *)")
        for d in defs:
            if isinstance(d, tuple):
                lines.append(f"(* UNTRANSLATED {d[0]}: {d[1].replace('*)', '* )')} *)")
            else:
                lines.append(d.render())
        lines.append("")
    return "\n".join(lines)

def main():
    outp = sys.argv[1] if len(sys.argv) > 1 else None
    out, errors = build()
    text = render(out)
    for n, e in errors:
        print(f"UNTRANSLATED {n}: {e}")
    if outp:
        old = open(outp).read() if os.path.exists(outp) else None
        if old != text:
            os.makedirs(os.path.dirname(outp), exist_ok=True)
            open(outp, "w").write(text)
            print(f"wrote {outp}")
        else:
            print(f"unchanged {outp}")
    else:
        print(text)
    sys.exit(2 if errors else 0)

if __name__ == "__main__":
    main()
