#!/usr/bin/env python3
"""rsparse.py -- a tokenizer and recursive-descent parser for the subset of Rust that the
pure-arithmetic core of hashbrown is written in.  Used by rs2v.py (Rust -> Gallina) and
sigx.py (declarations -> Gallina).  It does not try to be a Rust front end: anything outside
the subset raises ParseError, which the callers report as a broken tie for that function."""
import re

class ParseError(Exception):
    pass

TOKEN_RE = re.compile(r"""
    (?P<ws>\s+)
  | (?P<lcomment>//[^\n]*)
  | (?P<bcomment>/\*.*?\*/)
  | (?P<str>b?"(?:\\.|[^"\\])*")
  | (?P<char>b?'(?:\\.|[^'\\])')
  | (?P<lifetime>'[A-Za-z_][A-Za-z0-9_]*)
  | (?P<num>0x[0-9a-fA-F_]+(?:[ui](?:8|16|32|64|128|size))?|0b[01_]+(?:[ui](?:8|16|32|64|128|size))?|[0-9][0-9_]*(?:[ui](?:8|16|32|64|128|size))?)
  | (?P<id>[A-Za-z_][A-Za-z0-9_]*!?)
  | (?P<op>\.\.=|\.\.\.|<<=|>>=|::|->|=>|==|!=|<=|>=|&&|\|\||<<|>>|\+=|-=|\*=|/=|%=|&=|\|=|\^=|\.\.|[-+*/%&|^!<>=.,;:(){}\[\]#?@$])
""", re.X | re.S)

class Tok:
    __slots__ = ("k", "v", "pos")
    def __init__(self, k, v, pos):
        self.k, self.v, self.pos = k, v, pos
    def __repr__(self):
        return f"{self.k}:{self.v}"

def tokenize(src):
    out = []
    i = 0
    n = len(src)
    while i < n:
        m = TOKEN_RE.match(src, i)
        if not m:
            raise ParseError(f"cannot tokenize at {i}: {src[i:i+30]!r}")
        k = m.lastgroup
        if k not in ("ws", "lcomment", "bcomment"):
            v = m.group(k)
            if k == "id" and v.endswith("!") and src[m.end():m.end()+1] == "=":
                # `x!=` is `x !=`
                v = v[:-1]
                out.append(Tok("id", v, i))
                i = i + len(v)
                continue
            out.append(Tok(k, v, i))
        i = m.end()
    return out

def parse_int(v):
    v = re.sub(r"[ui](8|16|32|64|128|size)$", "", v).replace("_", "")
    if v.startswith("0x"):
        return int(v, 16)
    if v.startswith("0b"):
        return int(v, 2)
    return int(v)

def match_close(toks, i):
    """toks[i] is an opening bracket; returns index of its matching close."""
    pairs = {"(": ")", "{": "}", "[": "]"}
    o = toks[i].v
    c = pairs[o]
    depth = 0
    j = i
    while j < len(toks):
        if toks[j].k == "op":
            if toks[j].v == o:
                depth += 1
            elif toks[j].v == c:
                depth -= 1
                if depth == 0:
                    return j
        j += 1
    raise ParseError("unbalanced bracket")

BINOPS = [  # (precedence, ops) lowest first
    (1, ["||"]), (2, ["&&"]), (3, ["==", "!=", "<", ">", "<=", ">="]),
    (4, ["|"]), (5, ["^"]), (6, ["&"]), (7, ["<<", ">>"]), (8, ["+", "-"]), (9, ["*", "/", "%"]),
]
PREC = {op: p for p, ops in BINOPS for op in ops}
ASSIGN_OPS = {"=", "+=", "-=", "*=", "/=", "%=", "&=", "|=", "^=", "<<=", ">>="}

class Parser:
    def __init__(self, toks):
        self.t = toks
        self.i = 0

    # -- helpers
    def peek(self, o=0):
        j = self.i + o
        return self.t[j] if j < len(self.t) else Tok("eof", "", -1)
    def at(self, v, o=0):
        p = self.peek(o)
        return p.k in ("op", "id") and p.v == v
    def eat(self, v):
        if not self.at(v):
            raise ParseError(f"expected {v!r} got {self.peek()!r} at token {self.i}")
        self.i += 1
    def opt(self, v):
        if self.at(v):
            self.i += 1
            return True
        return False
    def ident(self):
        p = self.peek()
        if p.k != "id":
            raise ParseError(f"expected identifier got {p!r}")
        self.i += 1
        return p.v

    # -- types: parsed to a string, generics kept verbatim
    def parse_type(self):
        start = self.i
        depth = 0
        while True:
            p = self.peek()
            if p.k == "eof":
                break
            if p.k == "op":
                if p.v in ("(", "[", "<"):
                    depth += 1
                elif p.v in (")", "]", ">"):
                    if depth == 0:
                        break
                    depth -= 1
                elif p.v == ">>":
                    if depth < 2:
                        break
                    depth -= 2
                elif depth == 0 and p.v in (",", ";", "=", "{", "|", "=>"):
                    break
            elif p.k == "id" and depth == 0 and p.v in ("where",):
                break
            self.i += 1
        return " ".join(x.v for x in self.t[start:self.i])

    # -- patterns
    def parse_pattern(self):
        p = self.peek()
        if p.k == "op" and p.v == "&":
            self.i += 1
            self.opt("mut")
            return self.parse_pattern()
        if p.k == "id" and p.v in ("ref", "mut"):
            self.i += 1
            return self.parse_pattern()
        if p.k == "id" and p.v == "_":
            self.i += 1
            return ("pwild",)
        if p.k == "num":
            self.i += 1
            lo = parse_int(p.v)
            if self.at("..="):
                self.i += 1
                hi = parse_int(self.peek().v); self.i += 1
                return ("prange", lo, hi)
            return ("pnum", lo)
        if p.k == "op" and p.v == "(":
            self.i += 1
            ps = []
            while not self.at(")"):
                ps.append(self.parse_pattern())
                if not self.opt(","):
                    break
            self.eat(")")
            return ("ptuple", ps)
        if p.k == "id":
            path = [self.ident()]
            while self.at("::"):
                self.i += 1
                path.append(self.ident())
            if self.at("("):
                self.i += 1
                ps = []
                while not self.at(")"):
                    ps.append(self.parse_pattern())
                    if not self.opt(","):
                        break
                self.eat(")")
                return ("pctor", path, ps)
            if self.at("{"):
                self.i += 1
                fs = []
                while not self.at("}"):
                    if self.opt(".."):
                        break
                    f = self.ident()
                    if self.opt(":"):
                        fs.append((f, self.parse_pattern()))
                    else:
                        fs.append((f, ("pid", f)))
                    if not self.opt(","):
                        break
                self.eat("}")
                return ("pstruct", path, fs)
            if len(path) == 1 and (path[0][0].islower() or path[0][0] == "_"):
                return ("pid", path[0])
            return ("ppath", path)
        raise ParseError(f"pattern: unexpected {p!r}")

    # -- expressions
    def parse_expr(self, minprec=0, nostruct=False):
        lhs = self.parse_unary(nostruct)
        while True:
            p = self.peek()
            if p.k == "id" and p.v == "as":
                self.i += 1
                ty = self.parse_cast_type()
                lhs = ("cast", lhs, ty)
                continue
            if p.k == "op" and p.v in PREC and PREC[p.v] > minprec:
                # `a < b` vs generics: we only parse expressions, so `<` is always comparison
                op = p.v
                self.i += 1
                rhs = self.parse_expr(PREC[op], nostruct)
                lhs = ("binop", op, lhs, rhs)
                continue
            break
        return lhs

    def parse_cast_type(self):
        # a simple path type, possibly with generic args
        self.opt("*");
        if self.at("const") or self.at("mut"):
            self.i += 1
        ty = self.ident()
        while self.at("::"):
            self.i += 1
            ty += "::" + self.ident()
        if self.at("<"):
            j = self.i
            depth = 0
            while True:
                v = self.t[j].v
                if v == "<": depth += 1
                elif v == ">": depth -= 1
                elif v == ">>": depth -= 2
                j += 1
                if depth <= 0:
                    break
            self.i = j
        return ty

    def parse_unary(self, nostruct):
        p = self.peek()
        if p.k == "op" and p.v in ("!", "-"):
            self.i += 1
            return ("unop", p.v, self.parse_unary(nostruct))
        if p.k == "op" and p.v in ("*",):
            self.i += 1
            return self.parse_unary(nostruct)          # deref: transparent
        if p.k == "op" and p.v in ("&", "&&"):
            self.i += 1
            self.opt("mut")
            return self.parse_unary(nostruct)          # borrow: transparent
        return self.parse_postfix(self.parse_primary(nostruct), nostruct)

    def parse_args(self):
        self.eat("(")
        args = []
        while not self.at(")"):
            args.append(self.parse_expr())
            if not self.opt(","):
                break
        self.eat(")")
        return args

    def skip_turbofish(self):
        if self.at("::") and self.at("<", 1):
            self.i += 1
            j = self.i
            depth = 0
            while True:
                v = self.t[j].v
                if v == "<": depth += 1
                elif v == ">": depth -= 1
                elif v == ">>": depth -= 2
                j += 1
                if depth <= 0:
                    break
            targs = " ".join(x.v for x in self.t[self.i + 1:j - 1])
            self.i = j
            return targs
        return None

    def parse_postfix(self, e, nostruct):
        while True:
            if self.at("?"):
                self.i += 1
                e = ("try", e)
            elif self.at("."):
                self.i += 1
                p = self.peek()
                if p.k == "num":
                    self.i += 1
                    e = ("field", e, p.v)
                else:
                    name = self.ident()
                    targs = self.skip_turbofish()
                    if self.at("("):
                        e = ("mcall", e, name, self.parse_args(), targs)
                    else:
                        e = ("field", e, name)
            elif self.at("("):
                e = ("call", e, self.parse_args())
            elif self.at("["):
                self.i += 1
                idx = self.parse_expr()
                self.eat("]")
                e = ("index", e, idx)
            else:
                return e

    def parse_block(self):
        self.eat("{")
        stmts = []
        tail = None
        while not self.at("}"):
            if self.at("#"):
                self.i += 1
                self.opt("!")
                self.i = match_close(self.t, self.i) + 1
                continue
            if self.opt(";"):
                continue
            if self.at("let"):
                self.i += 1
                pat = self.parse_pattern()
                ty = None
                if self.opt(":"):
                    ty = self.parse_type()
                self.eat("=")
                e = self.parse_expr()
                self.eat(";")
                stmts.append(("let", pat, ty, e))
                continue
            if self.at("const"):
                self.i += 1
                name = self.ident()
                self.eat(":")
                ty = self.parse_type()
                self.eat("=")
                e = self.parse_expr()
                self.eat(";")
                stmts.append(("let", ("pid", name), ty, e))
                continue
            if self.at("use") or self.at("struct") or self.at("fn"):
                # nested items: skip to end of item
                while not (self.at(";") or self.at("{")):
                    self.i += 1
                if self.at("{"):
                    self.i = match_close(self.t, self.i) + 1
                else:
                    self.i += 1
                continue
            if self.peek().k == "lifetime" and self.at(":", 1):
                self.i += 2                                  # loop label
            e = self.parse_expr()
            p = self.peek()
            if p.k == "op" and p.v in ASSIGN_OPS:
                self.i += 1
                rhs = self.parse_expr()
                self.opt(";")
                stmts.append(("assign", p.v, e, rhs))
                continue
            if self.opt(";"):
                stmts.append(("expr", e))
                continue
            if self.at("}"):
                tail = e
                break
            if e[0] in ("if", "iflet", "match", "block", "loop", "for", "while"):
                stmts.append(("expr", e))
                continue
            raise ParseError(f"block: unexpected {p!r} after expression {e[0]}")
        self.eat("}")
        return ("block", stmts, tail)

    def parse_primary(self, nostruct):
        p = self.peek()
        if p.k == "num":
            self.i += 1
            return ("num", parse_int(p.v), p.v)
        if p.k == "op" and p.v == "(":
            self.i += 1
            if self.at(")"):
                self.i += 1
                return ("tuple", [])
            e = self.parse_expr()
            if self.at(","):
                es = [e]
                while self.opt(","):
                    if self.at(")"):
                        break
                    es.append(self.parse_expr())
                self.eat(")")
                return ("tuple", es)
            self.eat(")")
            return ("paren", e)
        if p.k == "op" and p.v == "[":
            self.i += 1
            e = self.parse_expr()
            if self.opt(";"):
                n = self.parse_expr()
                self.eat("]")
                return ("array_rep", e, n)
            es = [e]
            while self.opt(","):
                if self.at("]"):
                    break
                es.append(self.parse_expr())
            self.eat("]")
            return ("array", es)
        if p.k == "op" and p.v == "{":
            return self.parse_block()
        if p.k == "op" and p.v in ("|", "||"):
            params = []
            if p.v == "||":
                self.i += 1
            else:
                self.i += 1
                while not self.at("|"):
                    pat = self.parse_pattern()
                    ty = None
                    if self.opt(":"):
                        ty = self.parse_type()
                    params.append((pat, ty))
                    if not self.opt(","):
                        break
                self.eat("|")
            body = self.parse_expr()
            return ("closure", params, body)
        if p.k == "id":
            v = p.v
            if v == "unsafe":
                self.i += 1
                return self.parse_block()
            if v == "move":
                self.i += 1
                return self.parse_primary(nostruct)
            if v == "if":
                self.i += 1
                if self.at("let"):
                    self.i += 1
                    pat = self.parse_pattern()
                    self.eat("=")
                    e = self.parse_expr(nostruct=True)
                    th = self.parse_block()
                    el = None
                    if self.opt("else"):
                        el = self.parse_primary(nostruct) if self.at("if") else self.parse_block()
                    return ("iflet", pat, e, th, el)
                c = self.parse_expr(nostruct=True)
                th = self.parse_block()
                el = None
                if self.opt("else"):
                    el = self.parse_primary(nostruct) if self.at("if") else self.parse_block()
                return ("if", c, th, el)
            if v == "match":
                self.i += 1
                e = self.parse_expr(nostruct=True)
                self.eat("{")
                arms = []
                while not self.at("}"):
                    pat = self.parse_pattern()
                    while self.opt("|"):
                        pat = ("por", pat, self.parse_pattern())
                    guard = None
                    if self.opt("if"):
                        guard = self.parse_expr()
                    self.eat("=>")
                    body = self.parse_expr()
                    arms.append((pat, guard, body))
                    self.opt(",")
                self.eat("}")
                return ("match", e, arms)
            if v == "return":
                self.i += 1
                if self.at(";") or self.at("}") or self.at(","):
                    return ("return", None)
                return ("return", self.parse_expr())
            if v in ("loop", "while", "for"):
                # loops are outside the translatable subset; keep them opaque
                self.i += 1
                while not self.at("{"):
                    self.i += 1
                j = match_close(self.t, self.i)
                self.i = j + 1
                return ("loop",)
            if v in ("continue", "break"):
                self.i += 1
                if self.peek().k == "lifetime":
                    self.i += 1
                return (v,)
            if v.endswith("!"):
                self.i += 1
                j = match_close(self.t, self.i)
                inner = self.t[self.i + 1:j]
                self.i = j + 1
                return ("macro", v[:-1], inner)
            if v in ("true", "false"):
                self.i += 1
                return ("bool", v == "true")
            # path
            path = [self.ident()]
            targs = []
            while True:
                ta = self.skip_turbofish()
                if ta is not None:
                    targs.append(ta)
                    continue
                if self.at("::"):
                    self.i += 1
                    path.append(self.ident())
                    continue
                break
            if self.at("{") and not nostruct and path[-1][0].isupper():
                # struct literal
                self.i += 1
                fs = []
                while not self.at("}"):
                    f = self.ident()
                    if self.opt(":"):
                        fs.append((f, self.parse_expr()))
                    else:
                        fs.append((f, ("path", [f], [])))
                    if not self.opt(","):
                        break
                self.eat("}")
                return ("struct", path, fs)
            return ("path", path, targs)
        raise ParseError(f"primary: unexpected {p!r} at token {self.i}")


# ---------------------------------------------------------------------------------------------
# item index: functions, consts, structs, impls
# ---------------------------------------------------------------------------------------------

class FnItem:
    def __init__(self, qual, name, params, ret, body_toks, attrs, generics, where_, vis, is_unsafe):
        self.qual, self.name, self.params, self.ret = qual, name, params, ret
        self.body_toks, self.attrs = body_toks, attrs
        self.generics, self.where_, self.vis, self.is_unsafe = generics, where_, vis, is_unsafe

def index_items(src):
    """Returns dict with 'fns': {qualname: FnItem}, 'consts': {qualname: (ty, expr_toks)}.
    qualname is `Impl::name` for items in an `impl` (or trait) block, plain `name` otherwise;
    module nesting is ignored (names are unique enough in the files we read)."""
    toks = tokenize(src)
    fns, consts = {}, {}
    ctx = []     # stack of (close_index, name or None)
    i = 0
    n = len(toks)
    pending_attrs = []
    while i < n:
        t = toks[i]
        while ctx and i > ctx[-1][0]:
            ctx.pop()
        if t.k == "op" and t.v == "#":
            j = i + 1
            if toks[j].v == "!":
                j += 1
            e = match_close(toks, j)
            pending_attrs.append(" ".join(x.v for x in toks[j + 1:e]))
            i = e + 1
            continue
        if t.k == "id" and t.v in ("impl", "trait", "mod") :
            # find the opening brace (or `;` for `mod x;`)
            j = i + 1
            depth = 0
            while j < n:
                v = toks[j].v
                if toks[j].k == "op":
                    if v == "<": depth += 1
                    elif v == ">": depth -= 1
                    elif v == ">>": depth -= 2
                    elif v in ("{", ";") and depth <= 0:
                        break
                j += 1
            if j >= n or toks[j].v == ";":
                i = j + 1
                pending_attrs = []
                continue
            hdr = toks[i + 1:j]
            name = None
            if t.v == "impl":
                # self type = first identifier after `for` if present, else first identifier after generics
                k = 0
                d = 0
                names = []
                after_for = None
                while k < len(hdr):
                    h = hdr[k]
                    if h.k == "op" and h.v == "<": d += 1
                    elif h.k == "op" and h.v == ">": d -= 1
                    elif h.k == "op" and h.v == ">>": d -= 2
                    elif h.k == "id" and d == 0:
                        if h.v == "for":
                            after_for = k
                        elif h.v == "where":
                            break
                        else:
                            names.append((k, h.v))
                    k += 1
                if after_for is not None:
                    cands = [v for (kk, v) in names if kk > after_for]
                else:
                    cands = [v for (kk, v) in names]
                cands = [c for c in cands if c not in ("unsafe", "const", "crate", "super", "self", "dyn")]
                # last path segment of the first path
                name = cands[0] if cands else None
                # handle paths a::b::C : take the segment before generics
                if cands:
                    # walk: find contiguous `::`-joined path starting at first cand
                    idx0 = [kk for (kk, v) in names if v == cands[0] and (after_for is None or kk > after_for)][0]
                    kk = idx0
                    while kk + 2 < len(hdr) and hdr[kk + 1].v == "::" and hdr[kk + 2].k == "id":
                        kk += 2
                    name = hdr[kk].v
            else:
                name = hdr[0].v if hdr else None
            close = match_close(toks, j)
            ctx.append((close, name if t.v != "mod" else None, t.v))
            i = j + 1
            pending_attrs = []
            continue
        if t.k == "id" and t.v == "fn" and i + 1 < n and toks[i + 1].k == "id":
            name = toks[i + 1].v
            # visibility / unsafe: look back a few tokens
            back = [x.v for x in toks[max(0, i - 6):i]]
            vis = "pub" if "pub" in back[-5:] and not any(b in (";", "}", "{") for b in back[back.index("pub") if "pub" in back else 0:]) else ""
            is_unsafe = "unsafe" in back[-3:]
            j = i + 2
            generics = ""
            if toks[j].v == "<":
                d = 0
                k = j
                while True:
                    v = toks[k].v
                    if v == "<": d += 1
                    elif v == ">": d -= 1
                    elif v == ">>": d -= 2
                    k += 1
                    if d <= 0:
                        break
                generics = " ".join(x.v for x in toks[j + 1:k - 1])
                j = k
            if toks[j].v != "(":
                i += 1
                continue
            pe = match_close(toks, j)
            ptoks = toks[j + 1:pe]
            # split params on top-level commas
            params = []
            cur = []
            d = 0
            for x in ptoks:
                if x.k == "op" and x.v in ("(", "[", "<", "{"): d += 1
                elif x.k == "op" and x.v in (")", "]", ">", "}"): d -= 1
                elif x.k == "op" and x.v == ">>": d -= 2
                if x.k == "op" and x.v == "," and d == 0:
                    params.append(cur); cur = []
                else:
                    cur.append(x)
            if cur:
                params.append(cur)
            pl = []
            for pt in params:
                vs = [x.v for x in pt]
                if "self" in vs and ":" not in vs:
                    pl.append(("self", " ".join(vs)))
                else:
                    ci = vs.index(":")
                    nm = [v for v in vs[:ci] if v not in ("mut", "ref")]
                    pl.append((" ".join(nm), " ".join(vs[ci + 1:])))
            k = pe + 1
            ret = None
            where_ = ""
            if toks[k].v == "->":
                k += 1
                st = k
                d = 0
                while not ((toks[k].v in ("{", ";") and d <= 0) or (toks[k].v == "where" and d <= 0)):
                    v = toks[k].v
                    if toks[k].k == "op":
                        if v in ("<", "(", "["): d += 1
                        elif v in (">", ")", "]"): d -= 1
                        elif v == ">>": d -= 2
                    k += 1
                ret = " ".join(x.v for x in toks[st:k])
            if toks[k].v == "where":
                st = k + 1
                while toks[k].v not in ("{", ";"):
                    k += 1
                where_ = " ".join(x.v for x in toks[st:k])
            body = None
            if toks[k].v == "{":
                be = match_close(toks, k)
                body = toks[k:be + 1]
                nxt = be + 1
            else:
                nxt = k + 1
            owner = None
            for c in reversed(ctx):
                if c[1] is not None and c[2] in ("impl", "trait"):
                    owner = c[1]
                    break
            qual = f"{owner}::{name}" if owner else name
            item = FnItem(qual, name, pl, ret, body, pending_attrs, generics, where_, vis, is_unsafe)
            fns.setdefault(qual, item)
            pending_attrs = []
            i = nxt
            continue
        if t.k == "id" and t.v == "const" and i + 2 < n and toks[i + 1].k == "id" and toks[i + 2].v == ":":
            name = toks[i + 1].v
            j = i + 3
            st = j
            d = 0
            while not (toks[j].v == "=" and d == 0):
                if toks[j].v in ("<", "(", "["): d += 1
                elif toks[j].v in (">", ")", "]"): d -= 1
                j += 1
            ty = " ".join(x.v for x in toks[st:j])
            j += 1
            st = j
            d = 0
            while not (toks[j].v == ";" and d == 0):
                if toks[j].k == "op" and toks[j].v in ("(", "[", "{"): d += 1
                elif toks[j].k == "op" and toks[j].v in (")", "]", "}"): d -= 1
                j += 1
            owner = None
            for c in reversed(ctx):
                if c[1] is not None and c[2] in ("impl", "trait"):
                    owner = c[1]
                    break
            qual = f"{owner}::{name}" if owner else name
            consts.setdefault(qual, (ty, toks[st:j]))
            i = j + 1
            pending_attrs = []
            continue
        if t.k == "op" and t.v in (";", "}"):
            pending_attrs = []
        i += 1
    return {"fns": fns, "consts": consts, "toks": toks}
