#!/usr/bin/env python3
"""gen_map.py -- structured history generator for the HashMap correspondence check.
All randomness derives from one seed.  Prints scripts (`=== name` separated) for `hbx run`."""
import random, sys

M64 = (1 << 64) - 1

def mix64(x):
    x = (x + 0x9E3779B97F4A7C15) & M64
    x = ((x ^ (x >> 30)) * 0xBF58476D1CE4E5B9) & M64
    x = ((x ^ (x >> 27)) * 0x94D049BB133111EB) & M64
    return x ^ (x >> 31)

PLANS = ["mix", "zero", "max", "lowpos", "sametag", "wrap", "twotags", "seq"]

def plan_hash(plan, k, rng, salt):
    """64-bit hash of key k: low bits choose the probe start, the top 7 bits the tag."""
    if plan == "mix":
        return mix64(k ^ salt)
    if plan == "zero":
        return 0
    if plan == "max":
        return M64
    if plan == "lowpos":          # 4 start positions, well-mixed tags
        return (mix64(k ^ salt) & ~0xFFFF & M64) | (mix64(k + salt) & 3)
    if plan == "sametag":         # spread positions, one tag for everybody
        return (0x55 << 57) | (mix64(k ^ salt) & ((1 << 57) - 1))
    if plan == "wrap":            # positions at the very end of every power-of-two table
        return (mix64(k ^ salt) & ~0xFFFF & M64) | (0xFFFF - (mix64(k + salt) % 3))
    if plan == "twotags":         # tags t and t^1 (the portable scanner's false positive), 2 positions
        t = 0x2A ^ (mix64(k ^ salt) & 1)
        return (t << 57) | ((mix64(k + salt) & 1) * 9)
    if plan == "seq":             # identity-like: consecutive positions
        return ((mix64(k) & 0x7F) << 57) | k
    raise ValueError(plan)

class Gen:
    def __init__(self, rng, nkeys, plan, kind):
        self.rng, self.nkeys, self.plan, self.kind = rng, nkeys, plan, kind
        self.contents = {}       # k -> (stamp, v)
        self.lines = []
        self.stamp = 0
        self.salt = rng.getrandbits(32)

    def header(self):
        self.lines.append(f"kind {self.kind}")
        for k in range(self.nkeys + 8):
            self.lines.append(f"hash {k} {plan_hash(self.plan, k, self.rng, self.salt)}")

    def absent(self):
        c = [k for k in range(self.nkeys) if k not in self.contents]
        return self.rng.choice(c) if c else None
    def present(self):
        return self.rng.choice(list(self.contents)) if self.contents else None
    def anykey(self):
        return self.rng.randrange(self.nkeys + 4)
    def st(self):
        self.stamp += 1
        return self.stamp
    def val(self):
        return self.rng.randrange(1000)

    def emit(self, s):
        self.lines.append(s)

    # --- single operations (keep the abstract contents in sync) ---
    def op_insert(self, k=None):
        if k is None:
            k = self.anykey()
        s, v = self.st(), self.val()
        self.emit(f"insert {k} {s} {v}")
        if k in self.contents:
            self.contents[k] = (self.contents[k][0], v)
        else:
            self.contents[k] = (s, v)
    def op_remove(self, k=None):
        if k is None:
            k = self.anykey()
        self.emit(self.rng.choice(["remove", "removeentry", "removeb"]) + f" {k}")
        self.contents.pop(k, None)
    def op_lookup(self):
        k = self.present() if self.rng.random() < 0.6 and self.contents else self.anykey()
        # half of the lookups go through a borrowed form of the key (another type, Equivalent<K>)
        self.emit(self.rng.choice(["get", "getkv", "contains", "getb", "getkvb", "containsb"]) + f" {k}")
    def op_misc(self, force=None):
        r = self.rng
        if getattr(self, "many", False) and r.random() < 0.5:
            n = r.randrange(0, 5)
            base = self.present() if self.contents else self.anykey()
            ks = []
            for _ in range(n):
                x = r.random()
                ks.append(base if x < 0.2 else (self.present() if x < 0.7 and self.contents else self.anykey()))
            add = r.randrange(4)
            self.emit(f"getmanymut {add} " + " ".join(map(str, ks)))
            pres = [k for k in ks if k in self.contents]
            if len(set(pres)) == len(pres):
                for k in pres:
                    self.contents[k] = (self.contents[k][0], (self.contents[k][1] + add) & M64)
            return
        if getattr(self, "forget", False) and r.random() < 0.2:
            c = r.choice(["forget_drain", "forget_iter", "forget_entry", "forget_extractif"])
            if c in ("forget_drain", "forget_iter"):
                n = r.choice([0, 1, 2, len(self.contents) // 2, len(self.contents), len(self.contents) + 3])
                self.emit(f"{c} {n}"); self.contents = {}
            elif c == "forget_entry":
                k = self.present() if r.random() < 0.5 and self.contents else self.anykey()
                self.emit(f"forget_entry {k} {self.st()}")
            else:
                sel = [x for x in range(self.nkeys) if r.random() < 0.4]
                nsel = len([x for x in sel if x in self.contents])
                n = r.choice([0, 1, nsel // 2 + 1, nsel + 2])
                self.emit(f"forget_extractif {n} " + " ".join(map(str, sel)))
                self.resync = True
            return
        c = r.choice(["getmut", "tryinsert", "entry_or_insert", "entry_insert", "entry_remove", "entry_and_modify",
                      "entry_drop", "retain", "extend", "drain", "extractif", "iter", "iterfold", "reserve",
                      "tryreserve", "shrinkto", "shrinktofit", "clear", "len", "capacity", "allocsize", "withcap",
                      "dropmap", "iter", "iterfold", "retain", "extractif", "intoiter", "intokeys", "intovalues", "fromiter",
                      "entry_replace", "entry_and_replace", "raw_replace", "raw_and_replace", "eref_or_insert", "eref_insert",
                      "raw_or_insert", "raw_insert", "raw_remove", "rentry_or_insert", "rentry_insert", "rentry_remove",
                      "raw_hash_insert", "raw_rename"])
        if force:
            c = force
        k = self.present() if r.random() < 0.5 and self.contents else self.anykey()
        if c == "getmut":
            v = self.val(); self.emit(f"getmut {k} {v}")
            if k in self.contents: self.contents[k] = (self.contents[k][0], v)
        elif c in ("tryinsert", "entry_or_insert"):
            s, v = self.st(), self.val(); self.emit(f"{c} {k} {s} {v}")
            if k not in self.contents: self.contents[k] = (s, v)
        elif c in ("eref_or_insert", "raw_or_insert", "rentry_or_insert"):
            s, v = self.st(), self.val(); self.emit(f"{c} {k} {s} {v}")
            if k not in self.contents: self.contents[k] = (s, v)
        elif c in ("entry_insert", "eref_insert", "raw_insert", "rentry_insert"):
            s, v = self.st(), self.val(); self.emit(f"{c} {k} {s} {v}")
            self.contents[k] = (self.contents[k][0] if k in self.contents else s, v)
        elif c in ("raw_remove", "rentry_remove"):
            self.emit(f"{c} {k} {self.st()}"); self.contents.pop(k, None)
        elif c == "raw_hash_insert":
            # from_hash(hash of ANOTHER key hk, matcher on k): lawful use = k absent (Vacant whatever hk is) or hk == k
            hk = k if (k in self.contents or r.random() < 0.3) else self.anykey()
            s, v = self.st(), self.val(); self.emit(f"raw_hash_insert {hk} {k} {s} {v}")
            self.contents[k] = (self.contents[k][0] if k in self.contents else s, v)
        elif c == "raw_rename":
            # from_key(k) -> replace_entry_with(None) -> Vacant -> insert(k2): k2 must not be stored (k2 == k allowed)
            a = self.absent()
            k2 = k if (a is None or r.random() < 0.25) else a
            s, s2, v2 = self.st(), self.st(), self.val()
            self.emit(f"raw_rename {k} {s} {k2} {s2} {v2}")
            self.contents.pop(k, None); self.contents[k2] = (s2, v2)
        elif c in ("entry_replace", "entry_and_replace", "raw_replace", "raw_and_replace"):
            # replace_entry_with: Some(v) = overwrite in place (removed and put back), None = remove
            s, v = self.st(), self.val()
            some = r.random() < 0.7
            self.emit(f"{c} {k} {s} {'some' if some else 'none'} {v if some else 0}")
            if k in self.contents:
                if some: self.contents[k] = (self.contents[k][0], v)
                else: self.contents.pop(k)
        elif c == "entry_remove":
            self.emit(f"{c} {k} {self.st()}"); self.contents.pop(k, None)
        elif c == "entry_and_modify":
            s, add, v = self.st(), r.randrange(5), self.val(); self.emit(f"{c} {k} {s} {add} {v}")
            if k in self.contents: self.contents[k] = (self.contents[k][0], (self.contents[k][1] + add) & M64)
            else: self.contents[k] = (s, v)
        elif c == "entry_drop":
            self.emit(f"{c} {k} {self.st()}")
        elif c == "retain":
            p = r.choice([0.0, 0.3, 0.7, 1.0])
            keep = [x for x in self.contents if r.random() < p]
            bump = r.randrange(3)
            self.emit(f"retain {bump} " + " ".join(map(str, keep)))
            self.contents = {x: (self.contents[x][0], (self.contents[x][1] + bump) & M64) for x in keep}
        elif c == "fromiter":
            n = r.choice([0, 1, 3, 7, 8, 15, 29])
            items = {}
            toks = []
            for _ in range(n):
                kk, st, v = self.anykey(), self.st(), self.val()
                toks.append(f"{kk}:{st}:{v}")
                items[kk] = (items[kk][0] if kk in items else st, v)
            self.emit("fromiter " + " ".join(toks) if toks else "fromiter")
            self.contents = items
        elif c == "extend":
            n = r.randrange(1, 12)
            items = []
            for _ in range(n):
                kk, s, v = self.anykey(), self.st(), self.val()
                items.append(f"{kk}:{s}:{v}")
                if kk in self.contents: self.contents[kk] = (self.contents[kk][0], v)
                else: self.contents[kk] = (s, v)
            self.emit("extend " + " ".join(items))
        elif c == "drain":
            n = r.choice([0, 1, 2, len(self.contents) // 2, len(self.contents), len(self.contents) + 3])
            self.emit(f"drain {n}"); self.contents = {}
        elif c in ("intoiter", "intokeys", "intovalues"):
            # owning iterators: often on an EMPTIED but still allocated map (clear / drain first)
            if r.random() < 0.3:
                self.emit(r.choice(["clear", "drain 1000", "retain 0"]))
                self.contents = {}
            n = r.choice([0, 1, 2, len(self.contents) // 2, len(self.contents), len(self.contents) + 3])
            if r.random() < 0.4:
                # consumed through for_each by a consumer that panics at its k-th call (or never)
                k = r.choice([0, 1, 2, len(self.contents) // 2, 1000000, 1000000])
                self.emit(f"{r.choice([c, c, 'drain'])}fold {r.choice([0, 0, 1, 2, len(self.contents) // 2])} {k}")
            else:
                self.emit(f"{c} {n}")
            self.contents = {}
        elif c == "extractif":
            sel = [x for x in range(self.nkeys) if r.random() < 0.4]
            nsel = len([x for x in sel if x in self.contents])
            n = r.choice([0, 1, nsel // 2 + 1, nsel + 2])
            self.emit(f"extractif {n} " + " ".join(map(str, sel)))
            # which ones go is the implementation's choice: resynchronise through the trace
            self.resync = True
        elif c in ("iter", "len", "capacity", "allocsize", "shrinktofit", "clear", "dropmap"):
            self.emit(c)
            if c in ("clear", "dropmap"): self.contents = {}
        elif c == "iterfold":
            self.emit(f"iterfold {r.randrange(0, len(self.contents) + 2)}")
        elif c in ("reserve", "tryreserve", "shrinkto"):
            self.emit(f"{c} {r.choice([0, 1, 2, 3, 7, 8, 14, 15, 28, 29, 56, 57, r.randrange(0, 4 * (len(self.contents) + 4))])}")
        elif c == "withcap":
            self.emit(f"withcap {r.choice([0, 1, 3, 4, 7, 8, 14, 15, 28, 29, 56, 100])}"); self.contents = {}

def make_shrink_script(rng, name, kind=None):
    """C08: shrink_to(m) / shrink_to_fit on tables whose capacity() has been lowered by tombstones:
    fill to the full load of 16 / 32 / 64 / 128 buckets (with_capacity or growth), remove most keys
    one by one under colliding hashes (DELETED bytes: capacity() = len + growth_left drops far below
    what the bucket array could hold), then shrink to an m anywhere in [0, filled] -- in particular
    len <= capacity() <= m < full capacity of a smaller table."""
    kind = kind or rng.choice(["map-drop", "map-plain"])
    plan = rng.choice(["zero", "max", "lowpos", "twotags", "sametag", "mix", "seq", "wrap"])
    n = rng.choice([7, 14, 28, 56, 112, 20, 40, 100])
    g = Gen(rng, n + 6, plan, kind)
    g.resync = False; g.many = False; g.forget = False
    g.header()
    if rng.random() < 0.5:
        g.emit(f"withcap {n}")
    for k in range(n):
        g.op_insert(k)
    keepn = rng.choice([0, 0, 1, 2, 3, 5, n // 8, n // 4])
    order = list(range(n)); rng.shuffle(order)
    for k in order[:n - keepn]:
        g.op_remove(k)
    g.emit("len"); g.emit("capacity"); g.emit("allocsize")
    m = rng.choice([0, keepn, keepn + 1, rng.randrange(0, n + 1), rng.randrange(0, n + 1), rng.randrange(0, n // 2 + 1), n])
    g.emit(rng.choice([f"shrinkto {m}", f"shrinkto {m}", f"shrinkto {m}", "shrinktofit"]))
    g.emit("len"); g.emit("capacity"); g.emit("allocsize"); g.emit("iter")
    for k in rng.sample(range(n + 4), min(n + 4, rng.choice([1, 3, n // 2 + 1]))):
        g.op_insert(k)
    g.emit("shrinktofit"); g.emit("capacity"); g.emit("allocsize")
    for k in rng.sample(range(n + 4), min(4, n)):
        g.emit(rng.choice(["get", "contains", "getkv"]) + f" {k}")
    return f"=== {name} plan={plan} nkeys={n + 6}\n" + "\n".join(g.lines) + "\n"

def make_rehash_script(rng, name, table=False, kind=None, fresh="any", switch_rule=None, arm=None):
    """In-place rehash with SWAPS: fill a table of 16 / 32 / 64 / 128 buckets exactly to capacity under
    hashes whose home positions are spread over the table (well mixed, sequential, or crowded at the end
    of the table so that probe windows wrap), remove more than half one by one (tombstones inside full
    runs), insert new keys until growth_left is used up and the next insertion rehashes in place: elements
    whose ideal slot holds a not-yet-processed element are swapped and the displaced element is re-hashed
    in turn.  The fresh keys come in through every insertion API (`fresh`): insert, the entry families,
    reserve / try_reserve + insert, extend; optionally the hasher turns inconsistent first (`switch_rule`)
    or a callback fault is armed before some insertions (`arm`).  Afterwards every key is looked up."""
    kind = kind or (rng.choice(["table-plain", "table-drop", "table-6"]) if table else rng.choice(["map-drop", "map-plain"]))
    plan = rng.choice(["endmix", "endmix", "endmix", "wrap", "wrap", "mix", "seq", "lowpos", "twotags", "zero"])
    n = rng.choice([14, 28, 28, 56, 56, 112])
    nb = n * 8 // 7
    salt = rng.getrandbits(32)
    def hv(k):
        if plan == "endmix":      # homes in the last 24 buckets of the table, well-mixed tags
            return (mix64(k ^ salt) & ~0xFFFF & M64) | (nb - 1 - (mix64(k + salt) % min(24, nb)))
        return plan_hash(plan, k, rng, salt)
    nk = 2 * n + 8
    lines = [f"kind {kind}"] + [f"hash {k} {hv(k)}" for k in range(nk)]
    stamp = [0]
    def st():
        stamp[0] += 1
        return stamp[0]
    def ins(k):
        lines.append(f"tinsertunique {k} {st()} {k % 97}" if table else f"insert {k} {st()} {k % 97}")
    def rem(k):
        lines.append(f"tfindentryremove {k} id {k}" if table else f"remove {k}")
    def get(k):
        lines.append(f"tfind {k} id {k}" if table else f"get {k}")
    MAPFORMS = ["insert", "insert", "entry_or_insert", "entry_insert", "tryinsert", "entry_and_modify", "rentry_or_insert", "rentry_insert",
                "rentry_drop", "raw_or_insert", "raw_insert", "eref_or_insert", "eref_insert", "reserve", "tryreserve", "extend"]
    def ins_fresh(k):
        # HashTable::insert_unique reuses a tombstone without reserving; entry() and reserve(1) do
        # reserve when growth_left is 0 -- that is what rehashes in place
        if arm and rng.random() < 0.3:
            lines.append(f"arm {arm} {rng.choice([0, 1, 2, 3, 5, 8, 13])}")
        if not table:
            c = rng.choice(MAPFORMS) if fresh == "any" else fresh
            if c == "insert":
                ins(k)
            elif c in ("reserve", "tryreserve"):
                lines.append(f"{c} 1"); ins(k)
            elif c == "extend":
                lines.append(f"extend {k}:{st()}:{k % 97}")
            elif c == "entry_and_modify":
                lines.append(f"entry_and_modify {k} {st()} 1 {k % 97}")
            elif c == "rentry_drop":
                lines.append(f"rentry_drop {k} {st()}"); ins(k)
            else:
                lines.append(f"{c} {k} {st()} {k % 97}")
        else:
            c = rng.choice(["entry", "entry", "reserve", "tryreserve"])
            if c in ("reserve", "tryreserve"):
                lines.append(f"t{c} 1"); ins(k)
            else:
                lines.append(f"{rng.choice(['tentryorinsert', 'tentryinsert'])} {k} {st()} {k % 97}")
    lines.append(f"twithcap {n}" if table else f"withcap {n}")
    live = list(range(n))
    for k in live:
        ins(k)
    rng.shuffle(live)
    gone = live[: n // 2 + 1 + rng.randrange(0, max(1, n // 4))]
    for k in gone:
        rem(k)
    live = [k for k in live if k not in gone]
    lines.append("tcapacity" if table else "capacity")
    if switch_rule:
        lines += switch_rule.split(";")     # from here on the hasher / Eq is inconsistent
    nxt = n
    for _ in range(rng.choice([n // 2, n // 2 + 2])):     # uses up growth_left, then rehashes in place
        if len(live) >= n - 1:
            break
        ins_fresh(nxt); live.append(nxt); nxt += 1
        if rng.random() < 0.15 and live:
            k = live.pop(rng.randrange(len(live))); rem(k)
    lines.append("tcapacity" if table else "capacity")
    for k in range(nxt + 2):
        get(k)
    if table:
        for k in rng.sample(range(nxt), min(6, nxt)):
            lines.append(f"titerhash {k}")
        lines.append("titer"); lines.append("tlen")
    else:
        lines.append("iter"); lines.append("len")
    return f"=== {name} plan={plan} nkeys={nk}\n" + "\n".join(lines) + "\n"

def make_stale_slot_script(rng, name, gw=16, kind=None):
    """A VacantEntry whose insertion rehashes in place: the table is at exact capacity with at least half
    tombstones; the new key's home group is full of live elements that are DISPLACED there (their home is
    the last group, now all tombstones), so its probe passes that group and finds a true EMPTY byte in the
    next one; growth_left is 0, so the insertion reserves first, which rehashes in place: the displaced
    elements go home, the new key's home group becomes EMPTY, and the slot found before the reserve is no
    longer on the key's probe chain.  Every entry-style insertion API is used for the new key."""
    kind = kind or rng.choice(["map-drop", "map-plain"])
    nb = rng.choice([4 * gw, 8 * gw] if gw == 16 else [4 * gw, 8 * gw, 16 * gw])
    cap = nb * 7 // 8
    amin = max(gw - nb // 8, 2)
    a = rng.randrange(amin, max(amin + 1, gw - 3))
    nfill = cap - 2 * gw - a
    tags = list(range(1, 120)); rng.shuffle(tags)
    def hv(i, pos):
        return ((tags[i % len(tags)] & 0x7F) << 57) | ((rng.getrandbits(30) << 20) & ~(nb - 1) & ((1 << 57) - 1)) | pos
    keys, hashes = [], {}
    C = list(range(0, 2 * gw))                                   # home: the last group
    A = list(range(2 * gw, 2 * gw + a))                          # home: bucket 0 (group 0 is taken by displaced C's)
    F = list(range(2 * gw + a, 2 * gw + a + nfill))              # fillers at their own homes after group 1
    fresh = list(range(2 * gw + a + nfill, 2 * gw + a + nfill + 3))
    for i, k in enumerate(C): hashes[k] = hv(k, nb - gw)
    for k in A: hashes[k] = hv(k, 0)
    for j, k in enumerate(F): hashes[k] = hv(k, 2 * gw + j)
    for k in fresh: hashes[k] = hv(k, rng.choice([0, 0, 1, gw - 1]))
    nk = fresh[-1] + 3
    for k in range(nk):
        hashes.setdefault(k, hv(k, rng.randrange(nb)))
    lines = [f"kind {kind}"] + [f"hash {k} {hashes[k]}" for k in range(nk)]
    stamp = [0]
    def st():
        stamp[0] += 1
        return stamp[0]
    lines.append(f"withcap {cap}")
    for k in C + A + F:
        lines.append(f"insert {k} {st()} {k % 97}")
    lines.append("capacity"); lines.append("len")
    # tombstones: the C's that sit in their home group, and fillers, until the next insertion rehashes in place
    need = cap // 2 + 1
    gone = C[:gw] + F[: max(0, need - gw)]
    if rng.random() < 0.5:
        rng.shuffle(gone)
    for k in gone:
        lines.append(f"remove {k}")
    lines.append("capacity")
    k = fresh[0]
    c = rng.choice(["entry_or_insert", "entry_insert", "tryinsert", "entry_and_modify", "eref_or_insert", "eref_insert", "raw_or_insert", "raw_insert",
                    "rentry_or_insert", "rentry_insert", "insert"])
    if c == "entry_and_modify":
        lines.append(f"entry_and_modify {k} {st()} 1 {k % 97}")
    else:
        lines.append(f"{c} {k} {st()} {k % 97}")
    for q in [k] + rng.sample(C[gw:] + A, 4) + [fresh[1]]:
        lines.append(rng.choice(["get", "contains", "getkv"]) + f" {q}")
    lines.append(f"entry_drop {k} {st()}"); lines.append(f"entry_or_insert {k} {st()} 5")
    lines.append("len"); lines.append("iter")
    for q in range(nk):
        lines.append(f"get {q}")
    return f"=== {name} plan=stale nkeys={nk}\n" + "\n".join(lines) + "\n"

ARMS = ["hashpanic_nth", "hashpanic_nth", "hashpanic_key", "eqpanic_nth", "droppanic_nth", "clonepanic_nth", "predpanic_nth", "refuse_nth"]

def make_script(rng, name, kind=None, plan=None, nkeys=None, length=None, clone_ops=False, faults=0.0, calldep=None, arms=None, many=False, forget=False):
    """faults: probability that an operation is preceded by an `arm` line (the k-th callback of a
    class panics / the allocator refuses); calldep: "hash" / "eq" / "both" = inconsistent Hash / Eq."""
    kind = kind or rng.choice(["map-drop", "map-drop", "map-plain"])
    plan = plan or rng.choice(PLANS)
    nkeys = nkeys or rng.choice([6, 12, 24, 40, 80, 130])
    length = length or rng.choice([40, 80, 160])
    g = Gen(rng, nkeys, plan, kind)
    g.resync = False
    g.many = many
    g.forget = forget
    g.header()
    if calldep in ("hash", "both"):
        g.emit("hashrule calldep")
    if calldep in ("hash_near", "both_near"):
        g.emit("hashrule calldep_near")
    if calldep in ("eq", "both", "both_near"):
        g.emit("eqrule calldep")
    steps = 0
    while steps < length:
        phase = rng.choice(["fill", "fill", "churn", "churn", "remove", "lookup", "misc", "misc", "tomb"])
        n = rng.randrange(1, 16)
        for _ in range(n):
            if g.resync:
                # extract_if made the generator's view stale: emit a clear to get back in sync
                g.emit("clear"); g.contents = {}; g.resync = False; steps += 1
            if faults and rng.random() < faults:
                a = rng.choice(arms or ARMS)
                if a == "hashpanic_key":
                    g.emit(f"arm hashpanic_key {g.anykey()}")
                elif a == "refuse_nth":
                    # only fallible requests may be refused (an infallible one aborts the process)
                    g.emit(f"arm refuse_nth {rng.choice([0, 0, 1])}")
                    g.emit(f"tryreserve {rng.choice([1, 2, 8, 29, 57, 100, 1000, rng.randrange(0, 4 * (len(g.contents) + 4)), (1 << 64) - 1, (1 << 63), (1 << 61) - 1, (1 << 60)])}")
                    steps += 1
                    continue
                else:
                    g.emit(f"arm {a} {rng.choice([0, 0, 1, 2, 3, 5, 8, 13])}")
                    if a == "clonepanic_nth" and clone_ops:
                        # Clone only runs inside clone / clone_from: make it the armed operation
                        c = rng.choice(["o_clone", "o_clone_from", "o_clone_from"])
                        g.emit(c)
                        g.resync = True
                        steps += 1
                        continue
                # make the armed operation one that actually runs the armed callback
                if rng.random() < 0.7:
                    tgt = {"droppanic_nth": ["retain", "clear", "drain", "dropmap", "withcap", "ins_present", "rem_present", "extend", "intoiter"],
                           "predpanic_nth": ["retain", "extractif", "entry_and_modify"],
                           "eqpanic_nth": ["ins_present", "rem_present", "get_present", "entry_insert", "entry_remove"],
                           "hashpanic_nth": ["ins_absent", "ins_absent", "reserve", "entry_or_insert", "shrinktofit", "extend", "tryinsert"],
                           "hashpanic_key": ["ins_absent", "reserve", "shrinktofit"]}.get(a)
                    if tgt:
                        c = rng.choice(tgt)
                        if c == "ins_present" and g.contents: g.op_insert(g.present())
                        elif c == "rem_present" and g.contents: g.op_remove(g.present())
                        elif c == "get_present" and g.contents: g.emit(f"get {g.present()}")
                        elif c == "ins_absent": g.op_insert(g.absent() if g.absent() is not None else g.anykey())
                        elif c in ("ins_present", "rem_present", "get_present"): g.op_insert(g.anykey())
                        else: g.op_misc(force=c)
                        g.resync = True
                        steps += 1
                        continue
                g.resync = True          # after a possible unwind the generator's view is stale
            if clone_ops and rng.random() < 0.12:
                c = rng.choice(["o_clone", "o_clone_from", "o_swap", "o_eq", "o_eq", "o_clone_from", "o_clone"])
                g.emit(c)
                if c == "o_clone":
                    g.other = dict(g.contents)
                elif c == "o_clone_from":
                    g.contents = dict(getattr(g, "other", {}))
                elif c == "o_swap":
                    g.contents, g.other = dict(getattr(g, "other", {})), dict(g.contents)
                steps += 1
                continue
            if phase == "fill":
                k = g.absent()
                g.op_insert(k if k is not None else None)
            elif phase == "churn":
                if rng.random() < 0.5 and g.contents:
                    g.op_remove(g.present())
                else:
                    g.op_insert(g.absent())
            elif phase == "remove":
                g.op_remove(g.present() if rng.random() < 0.8 else None)
            elif phase == "tomb":
                # fill up then delete most: leaves DELETED runs and growth_left = 0 states
                k = g.absent()
                if k is not None and len(g.contents) < nkeys - 1:
                    g.op_insert(k)
                else:
                    g.op_remove(g.present())
            elif phase == "lookup":
                g.op_lookup()
            else:
                g.op_misc()
            steps += 1
    return f"=== {name} plan={plan} nkeys={nkeys}\n" + "\n".join(g.lines) + "\n"

def main():
    seed = int(sys.argv[1]); count = int(sys.argv[2])
    rng = random.Random(seed)
    out = []
    for i in range(count):
        out.append(make_script(rng, f"g{seed}_{i}"))
    sys.stdout.write("".join(out))

if __name__ == "__main__":
    main()


def make_churn_script(rng, name, table=False, length=None):
    """C13: insert/remove interleavings of bounded live size (no reserve), all hash plans."""
    kind = rng.choice(["table-plain", "table-drop"]) if table else rng.choice(["map-drop", "map-plain"])
    plan = rng.choice(PLANS)
    live = rng.choice([1, 2, 3, 5, 7, 12, 14, 15, 27, 28, 29, 50])
    nkeys = live * rng.choice([2, 4, 9]) + 3
    length = length or rng.choice([300, 600])
    salt = rng.getrandbits(32)
    lines = [f"kind {kind}"] + [f"hash {k} {plan_hash(plan, k, rng, salt)}" for k in range(nkeys + 2)]
    present = []
    stamp = 0
    style = rng.choice(["fifo", "random", "lifo", "sawtooth"])
    for step in range(length):
        stamp += 1
        want_insert = len(present) < live and (not present or rng.random() < (0.9 if style == "sawtooth" and (step // live) % 2 == 0 else 0.55))
        if want_insert:
            k = rng.choice([x for x in range(nkeys) if x not in present])
            present.append(k)
            if table:
                lines.append(f"tinsertunique {k} {stamp} {stamp % 97}")
            else:
                lines.append(rng.choice([f"insert {k} {stamp} {stamp % 97}", f"entry_or_insert {k} {stamp} {stamp % 97}"]))
        else:
            i = 0 if style == "fifo" else len(present) - 1 if style == "lifo" else rng.randrange(len(present))
            k = present.pop(i)
            lines.append(f"tfindentryremove {k} id {k}" if table else rng.choice([f"remove {k}", f"removeentry {k}"]))
        if present and rng.random() < 0.12:
            # an update in place of a live element (the live size does not change): through the entry
            # closures that take the element out and put it back, get_mut, overwrite, remove + re-insert
            k = rng.choice(present)
            stamp += 1
            if table:
                lines.append(rng.choice([f"tremovereinsert {k} id {k} {stamp} {stamp % 97}", f"tfindmut {k} id {k} {stamp % 97}"]))
            else:
                lines.append(rng.choice([f"entry_replace {k} {stamp} some {stamp % 97}", f"entry_and_replace {k} {stamp} some {stamp % 97}",
                                         f"raw_replace {k} {stamp} some {stamp % 97}", f"raw_and_replace {k} {stamp} some {stamp % 97}",
                                         f"entry_and_modify {k} {stamp} 1 0", f"getmut {k} {stamp % 97}", f"insert {k} {stamp} {stamp % 97}",
                                         f"entry_insert {k} {stamp} {stamp % 97}"]))
        if step % 50 == 49:
            lines.append(("tfind {0} id {0}" if table else "get {0}").format(nkeys + 1))      # absent key in a tombstone-laden table
    return f"=== {name} plan={plan} live={live}\n" + "\n".join(lines) + "\n"


def make_run_script(rng, name, kind=None, switch_rule=None):
    """Collision runs: n keys sharing a probe start (n from below one group to several groups),
    removals INSIDE the run (tombstones in groups without an EMPTY byte), then every lookup /
    insert / entry / remove API on keys stored BEYOND the tombstone and on absent keys; optionally
    an in-place rehash afterwards (remove most, insert again) and the same probes again."""
    kind = kind or rng.choice(["map-drop", "map-plain"])
    plan = rng.choice(["zero", "max", "lowpos", "twotags", "wrap", "sametag"])
    # 7, 14, 28, 56 fill a table exactly (growth_left = 0): removals then leave tombstones only, and
    # the next insertion of a new key rehashes in place when at most half the capacity is live
    n = rng.choice([9, 14, 14, 15, 16, 17, 18, 24, 28, 28, 28, 31, 33, 40, 56, 56, 57])
    if switch_rule and rng.random() < 0.7:
        n = rng.choice([14, 28, 28, 56])
    g = Gen(rng, n + 6, plan, kind)
    g.resync = False
    g.many = False
    g.forget = False
    g.header()
    for k in range(n):
        g.op_insert(k)
    victims = rng.sample(range(n), rng.choice([1, 1, 2, 3, max(1, n // 3), n // 2 + 1, n // 2 + 1, max(1, n - 2), max(1, n - 5)]))
    if switch_rule and n in (14, 28, 56) and rng.random() < 0.8:
        victims = rng.sample(range(n), rng.randrange(n // 2 + 1, n - 1))
    for k in victims:
        g.op_remove(k)
    if switch_rule:
        # the table was built lawfully (exact capacity, tombstones); from here on Hash / Eq misbehave:
        # the next insertion re-hashes every element in place with answers it has never given before
        for l in switch_rule.split(";"):
            g.emit(l)
    def probes():
        keys = list(range(n + 4))
        rng.shuffle(keys)
        for k in keys[: rng.choice([6, 12, n + 4])]:
            c = rng.choice(["insert", "insert", "get", "getkv", "contains", "getmut", "tryinsert", "entry_or_insert", "entry_insert",
                            "entry_and_modify", "entry_drop", "remove_reinsert", "iter", "len", "iterfold", "iterfold"])
            if c == "insert":
                g.op_insert(k)
            elif c in ("get", "getkv", "contains"):
                g.emit(f"{c} {k}")
            elif c == "getmut":
                v = g.val(); g.emit(f"getmut {k} {v}")
                if k in g.contents: g.contents[k] = (g.contents[k][0], v)
            elif c in ("tryinsert", "entry_or_insert"):
                st, v = g.st(), g.val(); g.emit(f"{c} {k} {st} {v}")
                if k not in g.contents: g.contents[k] = (st, v)
            elif c == "entry_insert":
                st, v = g.st(), g.val(); g.emit(f"{c} {k} {st} {v}")
                g.contents[k] = (g.contents[k][0] if k in g.contents else st, v)
            elif c == "entry_and_modify":
                st, add, v = g.st(), rng.randrange(5), g.val(); g.emit(f"{c} {k} {st} {add} {v}")
                if k in g.contents: g.contents[k] = (g.contents[k][0], (g.contents[k][1] + add) & M64)
                else: g.contents[k] = (st, v)
            elif c == "entry_drop":
                g.emit(f"{c} {k} {g.st()}")
            elif c == "remove_reinsert":
                g.op_remove(k); g.op_insert(k)
            elif c == "iterfold":
                g.emit(f"iterfold {rng.choice([0, 0, 1, 3, len(g.contents) // 2])}")
            else:
                g.emit(c)
    probes()
    if rng.random() < 0.6:
        # tombstone-saturate, then force an in-place rehash (items + 1 <= capacity / 2)
        live = list(g.contents)
        rng.shuffle(live)
        for k in live[: max(0, len(live) - rng.choice([1, 2, 4, 7]))]:
            g.op_remove(k)
        for _ in range(rng.choice([4, 10, 30])):
            k = g.absent()
            if k is None:
                k = g.present()
                g.op_remove(k)
            g.op_insert(k)
            if rng.random() < 0.3 and g.contents:
                g.op_remove(g.present())
        probes()
    g.emit("iter")
    return f"=== {name} plan={plan} nkeys={n + 6}\n" + "\n".join(g.lines) + "\n"


def make_window_script(rng, name, kind=None):
    """C05: a table built LAWFULLY with consecutive positions up to exact capacity (EMPTY bytes only at
    the end), tombstones from removals, then the hasher turns inconsistent *inside a window of
    positions around the EMPTY bytes*: a new key inserted through the entry path (RawTable::insert:
    slot search, reserve(1) = in-place rehash, slot search AGAIN) is first offered an EMPTY slot, and the
    in-place rehash then moves stored elements into exactly those slots."""
    kind = kind or rng.choice(["map-drop", "map-drop", "map-plain"])
    n = rng.choice([28, 28, 56, 14])
    g = Gen(rng, n + 12, "seq", kind)
    g.resync = False
    g.many = False
    g.forget = False
    g.header()
    for k in range(n):
        g.op_insert(k)
    keep_top = rng.choice([2, 4, 4, 6])
    lo = list(range(n - keep_top))
    victims = rng.sample(lo, rng.randrange(n // 2 + 1, len(lo) + 1)) if len(lo) > n // 2 + 1 else lo
    for k in victims:
        g.op_remove(k)
    base = max(0, n - keep_top - rng.choice([0, 0, 2, 4]))
    g.emit(f"hashrule calldep_win:{base}:{rng.choice([4, 8, 8, 12])}")
    for _ in range(rng.choice([2, 4, 8])):
        k = g.absent()
        if k is None:
            break
        c = rng.choice(["entry_or_insert", "entry_or_insert", "tryinsert", "entry_insert", "entry_and_modify", "insert"])
        st, v = g.st(), g.val()
        if c == "entry_and_modify":
            g.emit(f"{c} {k} {st} 1 {v}")
        elif c == "insert":
            g.op_insert(k)
        else:
            g.emit(f"{c} {k} {st} {v}")
        g.contents[k] = (st, v)
        g.emit(rng.choice(["iter", "len", "iterfold 0"]))
    g.emit("iter")
    g.emit("drain 0" if rng.random() < 0.3 else "len")
    return f"=== {name} plan=seq nkeys={n + 12}\n" + "\n".join(g.lines) + "\n"


def make_sparse_script(rng, name, kind=None):
    """Large, sparsely filled tables (whole groups EMPTY between occupied ones, first / last bucket
    occupied or not) with every iterator flavour: next-only, fold after a prefix, clone, owning."""
    kind = kind or rng.choice(["map-drop", "map-plain"])
    plan = rng.choice(["seq", "seq", "mix", "wrap"])
    cap = rng.choice([57, 100, 113, 200, 449])
    nb = 1
    while nb * 7 // 8 < cap:
        nb *= 2
    g = Gen(rng, nb, plan, kind)
    g.resync = False; g.many = False; g.forget = False
    g.header()
    g.emit(f"withcap {cap}")
    # a few clusters of consecutive positions
    keys = set()
    for _ in range(rng.choice([1, 2, 3, 5])):
        base = rng.choice([0, 1, 15, 16, 17, 31, 32, 47, 48, 63, 64, nb // 2, nb - 17, nb - 16, nb - 2, nb - 1, rng.randrange(nb)])
        for j in range(rng.choice([1, 1, 2, 3, 7])):
            keys.add((base + j) % nb)
    for k in sorted(keys, key=lambda _: rng.random()):
        g.op_insert(k)
    for _ in range(rng.choice([2, 4, 8])):
        c = rng.choice(["iter", "iterfold", "iterfold", "iterfold", "remove", "insert", "len"])
        if c == "iterfold":
            g.emit(f"iterfold {rng.choice([0, 0, 1, 2, len(g.contents)])}")
        elif c == "remove" and g.contents:
            g.op_remove(g.present())
        elif c == "insert":
            g.op_insert(rng.randrange(nb))
        else:
            g.emit(c if c in ("iter", "len") else "iter")
    n = len(g.contents)
    g.emit(rng.choice([f"intoiter {rng.choice([0, 1, n, n + 3])}", f"intokeys {rng.choice([0, 1, n])}", f"intovalues {rng.choice([0, 2, n])}",
                       f"drain {rng.choice([0, 1, n + 1])}", "iter"]))
    return f"=== {name} plan={plan} nkeys={nb}\n" + "\n".join(g.lines) + "\n"


def make_empty_refill_script(rng, name, table=False, kind=None):
    """C13: churn that empties the table completely again and again by INDIVIDUAL removals (the last removal
    happens on a table full of removed-slot markers), then refills it with other keys and looks up absent
    ones: the live size never exceeds n, nothing is reserved, the accounting must survive len() == 0."""
    kind = kind or (rng.choice(["table-plain", "table-drop"]) if table else rng.choice(["map-drop", "map-plain"]))
    plan = rng.choice(["seq", "seq", "zero", "lowpos", "wrap", "sametag", "mix"])
    n = rng.choice([7, 14, 20, 28, 40, 56])
    nk = 3 * n + 8
    salt = rng.getrandbits(32)
    lines = [f"kind {kind}"] + [f"hash {k} {plan_hash(plan, k, rng, salt)}" for k in range(nk)]
    stamp = [0]
    def st():
        stamp[0] += 1
        return stamp[0]
    base = 0
    for rnd in range(rng.choice([2, 3, 4])):
        keys = [(base + j) % nk for j in range(n)]
        for k in keys:
            lines.append(f"tinsertunique {k} {st()} {k % 97}" if table else f"insert {k} {st()} {k % 97}")
        order = list(keys)
        if rng.random() < 0.5:
            rng.shuffle(order)
        for k in order:
            lines.append(f"tfindentryremove {k} id {k}" if table else rng.choice([f"remove {k}", f"entry_remove {k} {st()}"]))
        lines += (["tlen", "tcapacity"] if table else ["len", "capacity"])
        base += n // 2 + 1
        # refill with (mostly) other keys; absent lookups must terminate
        for j in range(rng.choice([n // 4 + 1, n // 2 + 1, n])):
            k = (base + n + j) % nk
            lines.append(f"tentryorinsert {k} {st()} 5" if table else f"entry_or_insert {k} {st()} 5")
        for k in rng.sample(range(nk), 6):
            lines.append(f"tfind {k} id {k}" if table else f"get {k}")
        lines += (["tlen", "titer"] if table else ["len", "iter"])
        for j in range(n):
            k = (base + n + j) % nk
            lines.append(f"tfindentryremove {k} id {k}" if table else f"remove {k}")
    return f"=== {name} plan={plan} nkeys={nk}\n" + "\n".join(lines) + "\n"


def make_guard_script(rng, name, table=False, kind=None):
    """The unwind guard of the in-place rehash, deterministically: identity-like hashes, a table filled to
    exact capacity with the LAST bucket occupied (a key whose home is buckets-1) and bucket 0 occupied,
    more than half removed one by one inside the full run (all tombstones, growth_left stays 0), then a
    fresh key comes in (insert / entry / reserve) while the k-th hasher call panics, k = 1 .. 4: the
    guard must reset EVERY not yet re-hashed bucket, the first and the last included."""
    kind = kind or (rng.choice(["table-plain", "table-drop", "table-6"]) if table else rng.choice(["map-drop", "map-plain"]))
    n = rng.choice([28, 28, 56])
    nb = n * 8 // 7
    nk = nb + 40
    lines = [f"kind {kind}"] + [f"hash {k} {plan_hash('seq', k, rng, 0)}" for k in range(nk)]
    stamp = [0]
    def st():
        stamp[0] += 1
        return stamp[0]
    def ins(k):
        lines.append(f"tinsertunique {k} {st()} {k % 97}" if table else f"insert {k} {st()} {k % 97}")
    def rem(k):
        lines.append(f"tfindentryremove {k} id {k}" if table else f"remove {k}")
    for rnd in range(rng.choice([1, 2])):
        lines.append("tclear" if table else "clear")
        lines.append("tshrinktofit" if table else "shrinktofit")
        lines.append(f"treserve {n}" if table else f"reserve {n}")
        keys = list(range(n - 1)) + [nb - 1]
        for k in keys:
            ins(k)
        gone = list(range(1, n // 2 + rng.choice([3, 5, 8])))
        for k in gone:
            rem(k)
        lines.append("tcapacity" if table else "capacity")
        fresh = nb + 1 + rnd
        lines.append(f"arm hashpanic_nth {rng.choice([1, 1, 2, 3, 4])}")
        if table:
            lines.append(rng.choice([f"treserve 1", f"tentryorinsert {fresh} {st()} 7", f"ttryreserve 1"]))
        else:
            lines.append(rng.choice([f"insert {fresh} {st()} 7", f"entry_or_insert {fresh} {st()} 7", "reserve 1", "tryreserve 1",
                                     f"rentry_or_insert {fresh} {st()} 7", f"raw_insert {fresh} {st()} 7", f"extend {fresh}:{st()}:7"]))
        lines += (["tlen", "titer"] if table else ["len", "iter"])
        for k in [0, nb - 1, n - 2, fresh] + gone[:3]:
            lines.append(f"tfind {k} id {k}" if table else f"get {k}")
        ins(fresh + 20)
        lines += (["tlen", "titer"] if table else ["len", "iter"])
    return f"=== {name} plan=seq nkeys={nk}\n" + "\n".join(lines) + "\n"


def make_two_allocator_script(rng, name, kind=None):
    """clone_from between two maps that were constructed SEPARATELY (two allocator instances, not clones
    of one another) and hold different bucket counts, in both directions: every block must go back to
    the allocator instance it came from (the harness gives every separately constructed handle its own
    family number), contents must follow the source."""
    kind = kind or rng.choice(["map-drop", "map-plain", "map-nc"])
    plan = rng.choice(PLANS)
    g = Gen(rng, 64, plan, kind)
    g.resync = False; g.many = False; g.forget = False
    g.header()
    for rnd in range(rng.choice([2, 3, 4])):
        na, nb = rng.choice([(3, 20), (20, 3), (0, 9), (9, 0), (7, 8), (14, 15), (28, 29), (29, 28), (5, 50), (50, 5), (12, 12)])
        for k in rng.sample(range(64), na):
            g.op_insert(k)
        g.emit("o_swap"); g.contents, g.other = dict(getattr(g, "other", {})), dict(g.contents)
        for k in rng.sample(range(64), nb):
            g.op_insert(k)
        if rng.random() < 0.3 and g.contents:
            for k in list(g.contents)[: len(g.contents) // 2]:
                g.op_remove(k)
        g.emit("o_clone_from"); g.contents = dict(g.other)
        g.emit("len"); g.emit("iter"); g.emit("o_eq")
        if rng.random() < 0.5:
            g.emit("shrinktofit")
        g.emit("o_swap"); g.contents, g.other = dict(g.other), dict(g.contents)
        if rng.random() < 0.5:
            g.emit("o_clone_from"); g.contents = dict(g.other)
        g.emit(rng.choice(["dropmap", "clear", "len"]))
        if g.lines[-1] in ("dropmap", "clear"):
            g.contents = {}
    g.emit("dropmap")
    return f"=== {name} plan={plan} nkeys=64\n" + "\n".join(g.lines) + "\n"


def make_clone_from_capacity_script(rng, name, kind=None):
    """C11 deterministically: clone_from between two maps whose capacity() is EQUAL but whose bucket
    counts differ, because one of them was filled to its load limit and then half emptied by single
    removals (every removal leaves a removed-slot marker, so capacity() falls to len()): target
    tombstoned / source fresh, and the other way round.  Afterwards every source key must be found."""
    kind = kind or rng.choice(["map-drop", "map-plain"])
    plan = rng.choice(["zero", "seq", "seq"])
    g = Gen(rng, 120, plan, kind)
    g.resync = False; g.many = False; g.forget = False
    g.header()
    for n in [28, 56]:
        for tomb_is_target in (True, False):
            g.emit("dropmap"); g.contents = {}
            fresh_keys = list(range(60, 60 + n // 2))
            # the tombstoned map: n keys (exactly the load limit of 32 / 64 buckets), the first half removed one by one
            for k in range(n):
                g.op_insert(k)
            for k in range(n // 2):
                g.op_remove(k)
            g.emit("len"); g.emit("capacity")
            g.emit("o_swap"); g.contents, g.other = {}, dict(g.contents)
            g.emit("dropmap"); g.contents = {}
            # the fresh map: n/2 keys inserted one by one (capacity n/2 exactly, half the buckets)
            for k in fresh_keys:
                g.op_insert(k)
            g.emit("len"); g.emit("capacity")
            if tomb_is_target:
                g.emit("o_swap"); g.contents, g.other = dict(g.other), dict(g.contents)
            g.emit("o_clone_from"); g.contents = dict(g.other)
            g.emit("len"); g.emit("capacity"); g.emit("iter"); g.emit("o_eq")
            for k in sorted(g.contents):
                g.emit(f"get {k}")
            # both maps stay usable and independent
            g.op_insert(119); g.emit("o_eq"); g.op_remove(119); g.emit("o_eq")
    g.emit("dropmap")
    return f"=== {name} plan={plan} nkeys=120\n" + "\n".join(g.lines) + "\n"


FAULT_MATRIX = [
    # (arm, operation template) -- every callback class at every operation that runs it
    ("droppanic_nth", "retain"), ("droppanic_nth", "clear"), ("droppanic_nth", "drain"), ("droppanic_nth", "dropmap"),
    ("droppanic_nth", "ins_present"), ("droppanic_nth", "rem_present"), ("droppanic_nth", "intoiter"), ("droppanic_nth", "withcap"),
    ("droppanic_nth", "extend_present"), ("droppanic_nth", "o_clone_from"),
    ("predpanic_nth", "retain"), ("predpanic_nth", "extractif"),
    ("predpanic_nth", "entry_closure"), ("predpanic_nth", "entry_closure"), ("predpanic_nth", "foldconsumer"),
    ("eqpanic_nth", "ins_present"), ("eqpanic_nth", "rem_present"), ("eqpanic_nth", "get_present"), ("eqpanic_nth", "entry_present"),
    ("hashpanic_nth", "ins_absent"), ("hashpanic_nth", "reserve"), ("hashpanic_nth", "entry_absent"), ("hashpanic_nth", "shrinktofit"),
    ("hashpanic_nth", "extend_absent"), ("hashpanic_nth", "ins_absent_full"), ("hashpanic_nth", "rentry_absent_full"),
    ("clonepanic_nth", "o_clone"), ("clonepanic_nth", "o_clone_from"),
    # the iterator handed to extend panics after p pairs; the Into conversion of entry_ref panics
    ("iterpanic", "extendp"), ("iterpanic", "extendp"), ("iterpanic", "extendp_full"),
    ("intopanic", "eref_absent"), ("intopanic", "eref_present"), ("intopanic", "eref_absent_full"),
]

def make_fault_matrix_script(rng, name, kind=None, only_arm=None):
    """One block per (callback class, operation) pair: build a map (optionally at exact capacity and
    full of tombstones, so that the armed insertion rehashes in place), arm the k-th call, run the
    operation, look at the result (the checks run after every step), clear.
    only_arm: every pair of that callback class, each twice (deterministic coverage of the class)."""
    kind = kind or rng.choice(["map-drop", "map-drop", "map-plain"])
    plan = rng.choice(PLANS)
    g = Gen(rng, 64, plan, kind)
    g.resync = False; g.many = False; g.forget = False
    g.header()
    pairs = list(FAULT_MATRIX)
    rng.shuffle(pairs)
    if only_arm:
        pairs = [p for p in pairs if p[0] == only_arm] * 2
    else:
        pairs = pairs[: rng.choice([8, 12, len(pairs)])]
    for arm, op in pairs:
        full = op.endswith("_full")
        n = rng.choice([7, 14, 28, 56]) if full else rng.choice([3, 7, 12, 20, 28, 40])
        g.emit("dropmap"); g.contents = {}
        for k in range(n):
            g.op_insert(k)
        if full:
            # exact capacity, then mostly tombstones: the next insertion of a new key rehashes in place
            for k in rng.sample(range(n), n // 2 + 1 + rng.randrange(0, max(1, n // 2 - 1))):
                g.op_remove(k)
        elif rng.random() < 0.5 and n > 4:
            for k in rng.sample(range(n), rng.randrange(1, n // 2)):
                g.op_remove(k)
        if op == "o_clone_from":
            if rng.random() < 0.4:
                g.emit("o_salt 0")       # the source is a map that never allocated: clone_from only releases the target
            else:
                g.emit("o_clone")        # the other map gets contents to be cloned / dropped
                for k in rng.sample(range(60), 5):
                    g.op_insert(k)
        kth = rng.choice([0, 0, 1, 1, 2, 3, 5])
        if op == "entry_closure":
            kth = 0
        if arm == "intopanic":
            g.emit("arm intopanic")
        elif op != "foldconsumer" and arm != "iterpanic":
            g.emit(f"arm {arm} {kth}")
        pres = g.present() if g.contents else 0
        ab = g.absent()
        ab = ab if ab is not None else 63
        if op == "retain":
            keep = [x for x in g.contents if rng.random() < rng.choice([0.0, 0.3, 0.7])]
            g.emit(f"retain {rng.randrange(3)} " + " ".join(map(str, keep)))
        elif op in ("clear", "dropmap", "shrinktofit", "o_clone", "o_clone_from"):
            g.emit(op)
        elif op == "drain":
            g.emit(f"drain {rng.choice([0, 1, 2, 1000])}")
        elif op == "intoiter":
            g.emit(f"intoiter {rng.choice([0, 1, 2])}")
        elif op == "withcap":
            g.emit(f"withcap {rng.choice([0, 8])}")
        elif op == "extractif":
            sel = [x for x in range(64) if rng.random() < 0.5]
            g.emit(f"extractif {rng.choice([1, 3, 1000])} " + " ".join(map(str, sel)))
        elif op == "ins_present":
            g.emit(f"insert {pres} {g.st()} {g.val()}")
        elif op == "rem_present":
            g.emit(f"remove {pres}")
        elif op == "get_present":
            g.emit(f"get {pres}")
        elif op == "entry_present":
            g.emit(rng.choice([f"entry_insert {pres} {g.st()} {g.val()}", f"entry_remove {pres} {g.st()}", f"entry_or_insert {pres} {g.st()} {g.val()}"]))
        elif op in ("ins_absent", "ins_absent_full"):
            g.emit(f"insert {ab} {g.st()} {g.val()}")
        elif op == "entry_closure":
            # the closure handed to an entry method panics (it owns the value it was given); on an absent
            # key (one time in four) the closure must not run at all
            if rng.random() < 0.25:
                pres = ab
            g.emit(rng.choice([f"entry_replace {pres} {g.st()} some {g.val()}", f"entry_replace {pres} {g.st()} none 0",
                               f"entry_and_replace {pres} {g.st()} some {g.val()}", f"raw_replace {pres} {g.st()} some {g.val()}",
                               f"raw_and_replace {pres} {g.st()} none 0", f"entry_and_modify {pres} {g.st()} 1 {g.val()}"]))
        elif op == "foldconsumer":
            g.emit(f"{rng.choice(['intoiter', 'intokeys', 'intovalues', 'drain'])}fold {rng.choice([0, 1])} {kth}")
        elif op in ("extendp", "extendp_full"):
            # a mix of present and absent keys (repeats included); the iterator panics after p of them
            ks = [rng.choice([pres, ab, rng.randrange(64), rng.randrange(64)]) for _ in range(rng.choice([1, 3, 6, 12, 30]))]
            p = rng.choice([0, 0, 1, 2, len(ks) // 2, max(0, len(ks) - 1), len(ks), len(ks) + 2])
            g.emit(f"extendp {p} " + " ".join(f"{k}:{g.st()}:{g.val()}" for k in ks))
        elif op in ("eref_absent", "eref_absent_full", "eref_present"):
            k = pres if op == "eref_present" else ab
            g.emit(rng.choice([f"eref_or_insert {k} {g.st()} {g.val()}", f"eref_insert {k} {g.st()} {g.val()}", f"eref_drop {k} {g.st()}"]))
        elif op == "entry_absent":
            g.emit(rng.choice([f"entry_or_insert {ab} {g.st()} {g.val()}", f"entry_insert {ab} {g.st()} {g.val()}", f"tryinsert {ab} {g.st()} {g.val()}"]))
        elif op == "rentry_absent_full":
            g.emit(rng.choice([f"rentry_or_insert {ab} {g.st()} {g.val()}", f"rentry_drop {ab} {g.st()}"]))
        elif op == "reserve":
            g.emit(f"reserve {rng.choice([1, 8, 29, 57, 100])}")
        elif op in ("extend_present", "extend_absent"):
            ks = list(g.contents)[:4] if op == "extend_present" and g.contents else [ab, (ab + 1) % 64, (ab + 7) % 64]
            g.emit("extend " + " ".join(f"{k}:{g.st()}:{g.val()}" for k in ks))
        # look at what is left through every observer
        g.emit("len"); g.emit("iter"); g.emit(f"get {pres}"); g.emit(f"contains {ab}")
    g.emit("dropmap")
    return f"=== {name} plan={plan} nkeys=64\n" + "\n".join(g.lines) + "\n"


def make_removal_script(rng, name, kind=None):
    """C10: retain / extract_if / drain on collision runs (tombstones arise WHILE the operation
    erases), with keep / selection sets none, one, some, all and every early-drop point; afterwards
    the emptied or thinned table is refilled and observed (len, capacity, iteration, lookups)."""
    kind = kind or rng.choice(["map-drop", "map-plain"])
    plan = rng.choice(["zero", "max", "lowpos", "twotags", "wrap", "sametag", "mix", "seq"])
    n = rng.choice([3, 7, 9, 14, 16, 17, 24, 28, 33, 40, 56, 57])
    g = Gen(rng, n + 6, plan, kind)
    g.resync = False; g.many = False; g.forget = False
    g.header()
    for rnd in range(rng.choice([1, 2, 3])):
        for k in range(n):
            if k not in g.contents:
                g.op_insert(k)
        if rng.random() < 0.4 and g.contents:
            for k in rng.sample(list(g.contents), rng.randrange(1, max(2, len(g.contents) // 3))):
                g.op_remove(k)
        elif rng.random() < 0.25:
            # EVERYTHING removed one by one first: the operation then runs on an empty table that still holds
            # removed-slot markers (its reset must not be skipped because len() is 0)
            for k in sorted(g.contents):
                g.op_remove(k)
        live = list(g.contents)
        c = rng.choice(["retain", "retain", "extractif", "extractif", "drain"])
        armed = False
        if rng.random() < 0.4:
            # a destructor (of a rejected / undelivered element) or the predicate panics part-way
            if kind == "map-drop" and c != "extractif":
                g.emit(f"arm droppanic_nth {rng.choice([0, 0, 0, 1, 2])}"); armed = True
            elif c != "drain":
                g.emit(f"arm predpanic_nth {rng.choice([0, 1, 2, 5, 9])}"); armed = True
        if c == "retain":
            mode = rng.choice(["none", "one", "some", "all"])
            keep = [] if mode == "none" else ([rng.choice(live)] if mode == "one" and live else ([x for x in live if rng.random() < 0.5] if mode == "some" else live))
            bump = rng.randrange(3)
            g.emit(f"retain {bump} " + " ".join(map(str, keep)))
            g.contents = {x: (g.contents[x][0], (g.contents[x][1] + bump) & M64) for x in keep}
        elif c == "extractif":
            mode = rng.choice(["none", "one", "some", "all"])
            sel = [] if mode == "none" else ([rng.choice(live)] if mode == "one" and live else ([x for x in live if rng.random() < 0.5] if mode == "some" else live))
            take = rng.choice([0, 1, len(sel) // 2, len(sel), len(sel) + 2])
            g.emit(f"extractif {take} " + " ".join(map(str, sel)))
            if take >= len(sel):
                for x in sel: g.contents.pop(x, None)
            else:
                g.emit("iter"); g.emit("len"); g.emit("capacity")
                g.emit("clear"); g.contents = {}
        else:
            g.emit(f"drain {rng.choice([0, 1, len(live) // 2, len(live), len(live) + 3])}"); g.contents = {}
        if armed:
            # the operation may have unwound: observe, then start again from a known state
            g.emit("len"); g.emit("iter"); g.emit("clear"); g.contents = {}
        g.emit("len"); g.emit("capacity"); g.emit("iter")
        # refill: bookkeeping errors (growth_left, items) show up as wrong capacity / growth / lookups
        for k in rng.sample(range(n + 4), min(n + 4, rng.choice([1, 3, n // 2 + 1, n + 4]))):
            g.op_insert(k)
            if rng.random() < 0.2: g.emit("capacity")
        for k in rng.sample(range(n + 4), min(4, n)):
            g.emit(rng.choice(["get", "contains", "getkv"]) + f" {k}")
        g.emit("len"); g.emit("capacity"); g.emit("iter")
    # finally: everything removed ONE BY ONE (the table is empty but keeps its removed-slot markers), then a
    # drain dropped after 0 / all results: the reset of the control bytes must not be skipped because len() is 0
    for k in range(n):
        if k not in g.contents:
            g.op_insert(k)
    for k in sorted(g.contents):
        g.op_remove(k)
    g.emit(f"drain {rng.choice([0, 1000])}"); g.contents = {}
    g.emit("len"); g.emit("capacity"); g.emit("iter")
    for k in rng.sample(range(n + 4), min(n + 4, rng.choice([3, n // 2 + 1, n + 4]))):
        g.op_insert(k)
    g.emit("len"); g.emit("capacity")
    for k in range(n + 6):
        g.emit(f"get {k}")
    return f"=== {name} plan={plan} nkeys={n + 6}\n" + "\n".join(g.lines) + "\n"
