#!/usr/bin/env python3
"""gen_arith.py -- query grids for the pure-function sweeps (C17: capacity/layout/probe,
C18: scanner primitives).  `gen_arith.py c17|c18 quick|thorough seed gw` prints queries."""
import random, sys

M64 = (1 << 64) - 1
ISIZE_MAX = (1 << 63) - 1

def c17(tier, rng, gw):
    q = []
    caps = set(range(1, 130))
    win = 6 if tier == "quick" else 64
    for k in range(3, 65):
        for base in ((7 << k) >> 3, 1 << k, ((1 << k) * 7) // 8 + 1):
            for d in range(-win, win + 1):
                c = base + d
                if 1 <= c <= M64:
                    caps.add(c)
    caps |= {M64, M64 - 1, (1 << 61) - 1, 1 << 61, (1 << 61) + 1, M64 // 8, M64 // 8 + 1}
    for _ in range(200 if tier == "quick" else 5000):
        caps.add(rng.randrange(1, M64))
    sizes = [0, 1, 2, 3, 4, 8, 24, 200]
    for c in sorted(caps):
        for s in (sizes if c < 64 else [rng.choice(sizes)]):
            q.append(f"ctb {c} {s} {gw}")
    for k in range(0, 64):
        q.append(f"bmtc {(1 << k) - 1}")
    # TableLayout::new::<T>() for concrete element types (sizes above / below the group width with small and
    # large alignments, zero-sized and over-aligned types)
    for i in range(18):
        q.append(f"tlnew {i}")
    # layouts
    sz = list(range(0, 65)) + [200, 4096, 1 << 20, ISIZE_MAX // 2 - 1, ISIZE_MAX // 2, ISIZE_MAX // 2 + 1]
    aligns = [1 << a for a in range(0, 13)]
    bks = [1 << k for k in range(0, 63)]
    n = 3000 if tier == "quick" else 60000
    for _ in range(n):
        s = rng.choice(sz); a = max(rng.choice(aligns), gw); b = rng.choice(bks)
        q.append(f"layout {s} {a} {b}")
    for s in sz:                       # boundary: largest bucket counts around overflow for each size
        for a in (gw, 64, 4096):
            if s == 0:
                continue
            lim = (ISIZE_MAX // s).bit_length()
            for k in range(max(0, lim - 3), min(63, lim + 2)):
                q.append(f"layout {s} {a} {1 << k}")
    # the isize::MAX boundary, byte by byte: (element size, bucket count) pairs whose total table size
    # (elements + control bytes, before and after padding to the alignment) lies within 48 bytes of
    # isize::MAX -- in particular tables smaller than the alignment, where the total is NOT a multiple of it
    for k in range(0, 40):
        b = 1 << k
        for a in (gw, 16, 64):
            for d in range(-48, 49, 1 if k < 6 else 7):
                s = (ISIZE_MAX + d - b - gw) // b
                if s >= 1:
                    q.append(f"layout {s} {max(a, gw)} {b}")
    # probe sequences: every table size up to 2^12 (quick) / 2^16 (thorough) with several starts
    kmax = 10 if tier == "quick" else 15
    for k in range(0, kmax + 1):
        nbk = 1 << k
        ngroups = max(1, nbk // gw)
        starts = set([0, nbk - 1, nbk // 2] + [rng.randrange(nbk) for _ in range(3 if tier == "quick" else 8)])
        for st in starts:
            h = (rng.getrandbits(64) & ~(nbk - 1) & M64) | st
            q.append(f"probe {h} {nbk - 1} {ngroups}")
    for _ in range(300 if tier == "quick" else 5000):
        k = rng.randrange(2, 16); nbk = 1 << k
        q.append(f"samegroup {rng.randrange(nbk)} {rng.randrange(nbk)} {rng.getrandbits(64)} {nbk - 1}")
    for _ in range(100):
        h = rng.getrandbits(64)
        q.append(f"h1 {h}"); q.append(f"tagfull {h}")
    for b in range(256):
        q.append(f"tagclass {b}")
    return q

def c18(tier, rng, gw):
    q = []
    valid = list(range(0, 128)) + [128, 255]
    interesting = [0, 1, 2, 3, 0x2A, 0x2B, 0x7E, 0x7F, 0x80, 0xFF]
    def hexg(bs):
        return "".join(f"{b:02x}" for b in bs) + "00" * (16 - len(bs))
    # all 2-byte windows at every byte position (other bytes fixed), every primitive
    step = 1 if tier == "thorough" else 7
    fills = [0xFF, 0x80, 0x00] if tier == "thorough" else [0xFF]
    vals = list(range(256))
    for pos in range(gw - 1):
        for fill in fills:
            for a in vals[::step]:
                for b in (vals if tier == "thorough" and pos % 4 == 0 else interesting):
                    g = [fill] * gw
                    g[pos] = a; g[pos + 1] = b
                    hx = hexg(g)
                    for t in (a & 0x7F, (a ^ 1) & 0x7F):
                        q.append(f"grp match_tag {hx} {t}")
                    if a in valid and b in valid:
                        q.append(f"grp match_empty {hx}")
                    q.append(f"grp match_eod {hx}")
                    q.append(f"grp match_full {hx}")
                    q.append(f"grp convert {hx}")
    # random full groups of valid control bytes, with tags taken from the group
    n = 4000 if tier == "quick" else 100000
    for _ in range(n):
        style = rng.random()
        if style < 0.3:
            pool = [rng.choice(valid) for _ in range(3)] + [255, 128]
        elif style < 0.6:
            t0 = rng.randrange(128); pool = [t0, t0 ^ 1, 255, 128, rng.randrange(128)]
        else:
            pool = valid
        g = [rng.choice(pool) for _ in range(gw)]
        hx = hexg(g)
        t = rng.choice([x for x in g if x < 128] or [rng.randrange(128)])
        op = rng.choice(["match_tag", "match_tag", "match_empty", "match_eod", "match_full", "convert"])
        q.append(f"grp {op} {hx}" + (f" {t}" if op == "match_tag" else ""))
    return q

if __name__ == "__main__":
    which, tier, seed, gw = sys.argv[1], sys.argv[2], int(sys.argv[3]), int(sys.argv[4])
    rng = random.Random(seed)
    qs = c17(tier, rng, gw) if which == "c17" else c18(tier, rng, gw)
    sys.stdout.write("\n".join(qs) + "\n")
