#!/bin/bash
# harmless.sh [jobs]: every stored harmless rewrite (seeded/harmless/hN.diff: the text of /repo changes, its
# behaviour does not) against the checks of the properties anchored in that code; every line must say SILENT.
# A line NOINPUT means a proof over a generated definition depends on its spelling again (DESIGN 13.6c);
# a line REPLAY would be a false alarm.  Results: /tmp/harmless/summary.txt
J=${1:-4}
declare -A PROPS=( [h1]="C07" [h2]="C08 C12 C13" [h3]="C08" [h4]="C07" [h5]="C08 C17" [h6]="C08 C17" [h7]="C01 C13"
                   [h8]="C20" [h9]="C08 C17" [h10]="C01 C18" [h11]="C01 C08" )
mkdir -p /tmp/harmless; : > /tmp/harmless/summary.txt
for h in "${!PROPS[@]}"; do echo "$h ${PROPS[$h]}"; done | xargs -P $J -L 1 bash -c '
  h=$0; shift 0; props="$@"; out=/tmp/harmless/$h.txt
  /verif/tools/mutcheck.sh /verif/seeded/harmless/$h.diff -- $props > $out 2>&1
  if grep -q "^VIOLATION.*no-failing-input-found" $out; then r=NOINPUT; elif grep -q "^VIOLATION" $out; then r=REPLAY; else r=SILENT; fi
  echo "$h [$props] $r" >> /tmp/harmless/summary.txt'
sort -V /tmp/harmless/summary.txt
