#!/usr/bin/env python3
"""hvlib.py -- implementation of the `hv` check driver (see /verif/DESIGN.md sections 4 and 8)."""
import os, sys, re, json, time, subprocess, fcntl, hashlib, random, shutil, glob

ROOT = os.path.dirname(os.path.dirname(os.path.abspath(__file__)))
REPO = os.environ.get("HV_REPO", "/repo")
COQ = os.path.join(ROOT, "coq")
WORK = os.path.join(ROOT, "work")
HARNESS = os.path.join(ROOT, "harness")
OCAML = os.path.join(ROOT, "ocaml")
NPROC = os.cpu_count() or 8

def sh(cmd, cwd=None, timeout=1800, env=None, stdin=None):
    e = dict(os.environ)
    e.update({"CARGO_NET_OFFLINE": "true"})
    if env:
        e.update(env)
    try:
        p = subprocess.run(cmd, cwd=cwd, shell=isinstance(cmd, str), stdout=subprocess.PIPE, stderr=subprocess.STDOUT,
                           timeout=timeout, env=e, input=stdin)
        return p.returncode, p.stdout.decode("utf-8", "replace")
    except subprocess.TimeoutExpired as ex:
        return 124, (ex.stdout or b"").decode("utf-8", "replace") + "\n[timeout]"

class Lock:
    def __init__(self, name):
        os.makedirs(WORK, exist_ok=True)
        self.path = os.path.join(WORK, f".{name}.lock")
    def __enter__(self):
        self.f = open(self.path, "w")
        fcntl.flock(self.f, fcntl.LOCK_EX)
    def __exit__(self, *a):
        fcntl.flock(self.f, fcntl.LOCK_UN)
        self.f.close()

# ------------------------------------------------------------------------------------------------
# builds
# ------------------------------------------------------------------------------------------------
def regen():
    """Regenerate Gen.v from /repo's working tree.  Returns the list of untranslated items."""
    with Lock("coq"):
        rc, out = sh([sys.executable, os.path.join(ROOT, "tools", "gen_spec.py"), os.path.join(COQ, "theories/Gen/Gen.v")],
                     env={"HV_REPO": REPO})
        rc2, out2 = sh([sys.executable, os.path.join(ROOT, "tools", "sigx.py")], env={"HV_REPO": REPO})
    out = out + out2
    unt = re.findall(r"^UNTRANSLATED (\S+): (.*)$", out, re.M)
    return unt, out

def ensure_makefile():
    mk = os.path.join(COQ, "Makefile")
    cp = os.path.join(COQ, "_CoqProject")
    if not os.path.exists(mk) or os.path.getmtime(mk) < os.path.getmtime(cp):
        sh("coq_makefile -f _CoqProject -o Makefile", cwd=COQ)

def coq_make(targets, timeout=1500):
    with Lock("coq"):
        ensure_makefile()
        os.makedirs(os.path.join(OCAML, "extracted"), exist_ok=True)   # git-ignored: absent in a fresh checkout
        rc, out = sh(["make", f"-j{NPROC}"] + targets, cwd=COQ, timeout=timeout)
    return rc == 0, out

def coq_failure(log):
    m = re.search(r'File "\./(theories/[^"]+)", line (\d+), characters [^\n]*\n(Error:[^\n]*(?:\n[^\n]+){0,6})', log)
    if m:
        return {"file": m.group(1), "line": int(m.group(2)), "error": m.group(3).strip()[:600]}
    if "[timeout]" in log:
        return {"file": "?", "line": 0, "error": "timeout"}
    return {"file": "?", "line": 0, "error": log[-600:]}

def lemma_at(path, line):
    """Name of the Lemma/Theorem enclosing `line` of a .v file."""
    try:
        ls = open(os.path.join(COQ, path)).read().split("\n")
    except OSError:
        return "?"
    for i in range(min(line, len(ls)) - 1, -1, -1):
        m = re.match(r"\s*(Lemma|Theorem|Corollary|Example|Definition|Fixpoint|Instance)\s+(\w+)", ls[i])
        if m:
            return m.group(2)
    return "?"

def deps_of(vfile):
    """Transitive .v dependencies of a project file (inside theories/), via coqdep."""
    rc, out = sh(f"coqdep -Q theories HB $(grep '\\.v$' _CoqProject)", cwd=COQ)
    dep = {}
    for l in out.split("\n"):
        if ":" not in l:
            continue
        lhs, rhs = l.split(":", 1)
        tg = [x for x in lhs.split() if x.endswith(".vo")]
        if not tg:
            continue
        src = tg[0][:-1]
        dep[src] = [x[:-1] for x in rhs.split() if x.endswith(".vo") and x.startswith("theories/")]
    seen, todo = set(), [vfile]
    while todo:
        f = todo.pop()
        if f in seen:
            continue
        seen.add(f)
        todo += dep.get(f, [])
    return sorted(seen)

def count_statements(files):
    n = 0
    for f in files:
        try:
            s = open(os.path.join(COQ, f)).read()
        except OSError:
            continue
        n += len(re.findall(r"^\s*(?:Lemma|Theorem|Corollary|Example|Fact|Proposition)\s+\w+", s, re.M))
    return n

FORBIDDEN = re.compile(r"\b(Admitted|admit|Axiom|Axioms|Parameter|Parameters|Conjecture|Admit Obligations|bypass_check|Unset Guard Checking|Unset Positivity Checking|Unset Universe Checking|type-in-type|impredicative-set)\b")

def strip_comments(s):
    out, depth, i = [], 0, 0
    while i < len(s):
        if s.startswith("(*", i):
            depth += 1; i += 2
        elif s.startswith("*)", i) and depth > 0:
            depth -= 1; i += 2
        else:
            if depth == 0:
                out.append(s[i])
            i += 1
    return "".join(out)

def audit(files):
    hits = []
    for f in files:
        try:
            s = strip_comments(open(os.path.join(COQ, f)).read())
        except OSError:
            continue
        for m in FORBIDDEN.finditer(s):
            hits.append(f"{f}: {m.group(0)}")
        # Variable/Hypothesis outside sections
        depth = 0
        for line in s.split("\n"):
            if re.match(r"\s*Section\s+\w+", line): depth += 1
            elif re.match(r"\s*End\s+\w+", line) and depth > 0: depth -= 1
            elif depth == 0 and re.match(r"\s*(Variable|Variables|Hypothesis|Hypotheses|Context)\b", line):
                hits.append(f"{f}: {line.strip()[:60]} outside a section")
    return hits

def print_assumptions(prop_file):
    """Recompile the property file alone to capture its Print Assumptions output."""
    with Lock("coq"):
        od = os.path.join(WORK, "pa")
        os.makedirs(od, exist_ok=True)
        rc, out = sh(["coqc", "-Q", "theories", "HB", "-w", "none", prop_file, "-o", os.path.join(od, os.path.basename(prop_file) + "o")],
                     cwd=COQ, timeout=600)
    blocks = re.split(r"\n(?=Closed under the global context|Axioms:)", "\n" + out)
    closed = out.count("Closed under the global context")
    axioms = re.findall(r"Axioms:\n((?:.+\n?)+?)(?=\n\S|\Z)", out)
    return rc == 0, closed, axioms, out

def build_driver():
    with Lock("ocaml"):
        b = os.path.join(OCAML, "_build")
        os.makedirs(b, exist_ok=True)
        srcs = [os.path.join(OCAML, "extracted", "hb.ml"), os.path.join(OCAML, "extracted", "hb.mli"), os.path.join(OCAML, "driver.ml")]
        exe = os.path.join(b, "hbdriver")
        for s in srcs:
            if not os.path.exists(s):
                return False, f"missing {s}"
        if os.path.exists(exe) and all(os.path.getmtime(exe) >= os.path.getmtime(s) for s in srcs):
            return True, exe
        for s in srcs:
            shutil.copy(s, b)
        rc, out = sh("ocamlfind ocamlopt -package str -linkpkg -O2 -w -a -o hbdriver hb.mli hb.ml driver.ml", cwd=b, timeout=600)
        return rc == 0, (exe if rc == 0 else out)

VARIANTS = {
    "sse2-debug": ("--cfg hashbrown_verif", []),
    "generic-debug": ("--cfg hashbrown_verif --cfg miri", []),
    "sse2-release": ("--cfg hashbrown_verif", ["--release"]),
    "generic-release": ("--cfg hashbrown_verif --cfg miri", ["--release"]),
}

def build_harness(variant):
    flags, extra = VARIANTS[variant]
    tdir = os.path.join(HARNESS, "target-" + variant)
    with Lock("cargo-" + variant):
        lock = os.path.join(HARNESS, "Cargo.lock")
        if not os.path.exists(lock) and os.path.exists(os.path.join(REPO, "Cargo.lock")):
            shutil.copy(os.path.join(REPO, "Cargo.lock"), lock)
        rc, out = sh(["cargo", "build", "--offline", "--target-dir", tdir] + extra, cwd=HARNESS,
                     env={"RUSTFLAGS": flags, "CARGO_NET_OFFLINE": "true"}, timeout=1500)
    exe = os.path.join(tdir, "release" if extra else "debug", "hbx")
    return (rc == 0 and os.path.exists(exe)), (exe if rc == 0 else out[-3000:])

# ------------------------------------------------------------------------------------------------
# running scripts
# ------------------------------------------------------------------------------------------------
class Finding:
    def __init__(self, kind, text, script=None, step=None):
        self.kind, self.text, self.script, self.step = kind, text, script, step
    def __repr__(self):
        return f"{self.kind}: {self.text[:300]}"

def parse_findings(out):
    fs, stats, ops, branch = [], {}, {}, {}
    for l in out.split("\n"):
        m = re.match(r"(C-MISMATCH|A-FAIL|B-FAIL|H-FAIL|K-FAIL|R-FAIL|G-FAIL|D-ERROR|T-MISMATCH)\s+(.*)$", l)
        if m:
            sm = re.search(r"script=(\S+)", l); st = re.search(r"step=(\d+)", l)
            fs.append(Finding(m.group(1), m.group(2), sm.group(1) if sm else None, int(st.group(1)) if st else None))
        elif l.startswith("STATS "):
            stats = {k: int(v) for k, v in re.findall(r"(\w+)=(\d+)", l)}
        elif l.startswith("OPS "):
            ops = {k: int(v) for k, v in re.findall(r"(\w+)=(\d+)", l)}
        elif l.startswith("BRANCH "):
            branch = {k: int(v) for k, v in re.findall(r"(\w+)=(\d+)", l)}
    return fs, stats, ops, branch

def run_trace(exe, script_path, trace_path, timeout=600):
    """Runs hbx on a script file.  Returns (rc, crashed_text)."""
    with open(trace_path, "w") as f:
        try:
            p = subprocess.run([exe, "run", script_path], stdout=f, stderr=subprocess.PIPE, timeout=timeout)
            rc = p.returncode
            err = p.stderr.decode("utf-8", "replace")[-500:]
        except subprocess.TimeoutExpired:
            rc, err = 124, "timeout (non-terminating operation?)"
    return rc, err

def run_driver(driver, trace_path, levels="ABC", timeout=900):
    rc, out = sh(f"ulimit -s unlimited 2>/dev/null; ulimit -v 16000000; {driver} {trace_path} {levels}", timeout=timeout)
    return rc, out

def split_scripts(text):
    blocks, cur = [], None
    for l in text.split("\n"):
        if l.startswith("=== "):
            cur = [l]; blocks.append(cur)
        elif cur is not None:
            cur.append(l)
    return ["\n".join(b) + "\n" for b in blocks]

def script_name(block):
    return block.split("\n", 1)[0][4:].split()[0]

def extraction_selftest(pfx):
    """(cases equal, cases different, text of the first difference) or None when there is no sample."""
    vf, ef = pfx + ".v", pfx + ".expected"
    if not (os.path.exists(vf) and os.path.exists(ef)) or os.path.getsize(vf) == 0:
        return None
    exp = [l.split() for l in open(ef).read().strip().split("\n") if l.strip()]
    # the sample is compiled under a module name of its own (coqc wants a valid identifier)
    d = os.path.dirname(vf)
    mod = os.path.join(d, "selftest_" + re.sub(r"\W", "_", os.path.basename(pfx)) + ".v")
    shutil.copy(vf, mod)
    rc, out = sh(["coqc", "-noglob", "-Q", os.path.join(COQ, "theories"), "HB", mod], cwd=d, timeout=600)
    if rc != 0:
        return (0, len(exp), "coqc failed on the sampled steps: " + out[-300:].replace("\n", " "))
    got = [re.sub(r"[\s()%Z]", "", g).split(";") if g.strip() else [] for g in re.findall(r"=\s*\[(.*?)\]\s*:\s*list Z", out, re.S)]
    ok = bad = 0
    first = ""
    for i in range(max(len(exp), len(got))):
        e = exp[i] if i < len(exp) else None
        g = got[i] if i < len(got) else None
        if e is not None and g is not None and e == g:
            ok += 1
        else:
            bad += 1
            if not first:
                first = f"case {i}: ocaml {(' '.join(e) if e else '-')[:160]} coq {(' '.join(g) if g else '-')[:160]}"
    return (ok, bad, first)

def run_scripts(exe, driver, scripts_text, wdir, tag, levels="ABC"):
    """Runs a batch of scripts in NPROC shards.  Returns findings, stats, ops, branch, crash findings."""
    blocks = split_scripts(scripts_text)
    nshard = max(1, min(NPROC, len(blocks)))
    shards = [[] for _ in range(nshard)]
    for i, b in enumerate(blocks):
        shards[i % nshard].append(b)
    procs = []
    for i, sh_blocks in enumerate(shards):
        sp = os.path.join(wdir, f"{tag}_{i}.script"); tp = os.path.join(wdir, f"{tag}_{i}.trace")
        open(sp, "w").write("".join(sh_blocks))
        procs.append((sp, tp, subprocess.Popen([exe, "run", sp], stdout=open(tp, "w"), stderr=subprocess.PIPE)))
    findings, stats, ops, branch = [], {}, {}, {}
    crashed = []
    for sp, tp, p in procs:
        try:
            _, err = p.communicate(timeout=600)
            rc = p.returncode
        except subprocess.TimeoutExpired:
            p.kill(); rc, err = 124, b"timeout"
        if rc != 0:
            crashed.append((sp, tp, rc, err.decode("utf-8", "replace")[-300:]))
    dprocs = []
    st_pfx = os.path.join(wdir, f"{tag}_selftest")
    for k, (sp, tp, _) in enumerate(procs):
        env = dict(os.environ)
        # extraction self-test: the first shard also writes a sample of the steps it judged as Coq terms
        env["HV_SELFTEST"] = st_pfx if (k == 0 and "C" in levels) else ""
        dprocs.append((sp, tp, subprocess.Popen(f"ulimit -s unlimited 2>/dev/null; ulimit -v 6000000; exec {driver} {tp} {levels}", shell=True,
                                                stdout=subprocess.PIPE, stderr=subprocess.STDOUT, env=env)))
    for sp, tp, p in dprocs:
        try:
            out, _ = p.communicate(timeout=1800)
            out = out.decode("utf-8", "replace")
        except subprocess.TimeoutExpired:
            p.kill(); out = "D-ERROR driver timeout\n"
        if p.returncode not in (0, None) and "STATS" not in out:
            out += f"\nD-ERROR driver exited with {p.returncode} on {tp}: {out[-200:]}\n"
        f, s, o, b = parse_findings(out)
        findings += f
        for d, src in ((stats, s), (ops, o), (branch, b)):
            for k, v in src.items():
                d[k] = d.get(k, 0) + v
    # extraction self-test: evaluate the sampled steps inside Coq (vm_compute) and compare with the
    # digests the extracted OCaml code computed for the same arguments
    st = extraction_selftest(st_pfx)
    if st is not None:
        n_ok, n_bad, first_bad = st
        stats["selftest_cases"] = stats.get("selftest_cases", 0) + n_ok + n_bad
        stats["selftest_mismatches"] = stats.get("selftest_mismatches", 0) + n_bad
        if n_bad:
            findings.append(Finding("X-MISMATCH", f"extraction self-test: {n_bad} of {n_ok + n_bad} sampled steps evaluate differently inside Coq (vm_compute) and in the extracted OCaml code; first: {first_bad}", None))
    # a crashed harness process: find the script it died in (last SCRIPT line of its trace)
    for sp, tp, rc, err in crashed:
        last, laststep = None, None
        try:
            for l in open(tp, errors="replace"):
                if l.startswith("SCRIPT "):
                    last = l.split()[1]
                elif l.startswith("STEP "):
                    laststep = l.strip()
        except OSError:
            pass
        findings.append(Finding("CRASH", f"harness process died with status {rc} ({'signal ' + str(-rc) if rc < 0 else 'exit'}) in script={last} after [{laststep}] {err}", last, None))
    return findings, stats, ops, branch, blocks

def block_by_name(blocks, name):
    for b in blocks:
        if script_name(b) == name:
            return b
    return None

def check_block(exe, driver, block, wdir, pred, levels="ABC"):
    """Does a single script still produce a finding satisfying pred?"""
    sp = os.path.join(wdir, "shrink.script"); tp = os.path.join(wdir, "shrink.trace")
    open(sp, "w").write(block)
    rc, err = run_trace(exe, sp, tp, timeout=60)
    if rc != 0:
        f = [Finding("CRASH", f"harness process died with status {rc} {err}", script_name(block), None)]
        return [x for x in f if pred(x)]
    rc, out = run_driver(driver, tp, levels, timeout=120)
    fs, _, _, _ = parse_findings(out)
    return [x for x in fs if pred(x)]

def shrink(exe, driver, block, wdir, pred, levels="ABC", budget=150):
    """Delta debugging on the operation lines of a script (header/hash lines are kept)."""
    lines = block.rstrip("\n").split("\n")
    head = [l for l in lines if l.startswith("=== ") or l.startswith("kind ") or l.startswith("hash ") or l.startswith("hashrule") or l.startswith("eqrule")]
    ops = [l for l in lines if l not in head]
    # group `arm` lines with the op that follows them
    units, cur = [], []
    for l in ops:
        cur.append(l)
        if not l.startswith("arm "):
            units.append(cur); cur = []
    trials = 0
    def test(us):
        nonlocal trials
        trials += 1
        b = "\n".join(head + [x for u in us for x in u]) + "\n"
        return bool(check_block(exe, driver, b, wdir, pred, levels))
    # first cut everything after the failing step (cheap)
    n = 2
    while len(units) >= 2 and trials < budget:
        chunk = max(1, len(units) // n)
        reduced = False
        for i in range(0, len(units), chunk):
            cand = units[:i] + units[i + chunk:]
            if cand and test(cand):
                units = cand; n = max(n - 1, 2); reduced = True
                break
            if trials >= budget:
                break
        if not reduced:
            if chunk == 1:
                break
            n = min(n * 2, len(units))
    # drop unused hash lines
    used = set(re.findall(r"\b\d+\b", " ".join(x for u in units for x in u)))
    head = [l for l in head if not l.startswith("hash ") or l.split()[1] in used]
    return "\n".join(head + [x for u in units for x in u]) + "\n", trials

# ------------------------------------------------------------------------------------------------
# known findings
# ------------------------------------------------------------------------------------------------
def load_known():
    kf = []
    p = os.path.join(ROOT, "known_findings.txt")
    if os.path.exists(p):
        for l in open(p):
            l = l.strip()
            m = re.match(r"finding:\s+property=(\S+)\s+match=/(.*?)/\s+(.*)$", l)
            if m:
                kf.append({"property": m.group(1), "re": re.compile(m.group(2)), "what": m.group(3)})
    return kf

# ------------------------------------------------------------------------------------------------
# evidence
# ------------------------------------------------------------------------------------------------
def write_evidence(pid, ev):
    os.makedirs(os.path.join(ROOT, "evidence"), exist_ok=True)
    with open(os.path.join(ROOT, "evidence", f"{pid}.json"), "w") as f:
        json.dump(ev, f, indent=1, sort_keys=True)

TRUSTED_BASE = [
    "Coq 8.16.1 kernel (coqc); vm_compute used in closed Examples and finite case tables; no native_compute",
    "axioms: none (every Print Assumptions under the property theorems must report 'Closed under the global context')",
    "translator tools/rs2v.py + tools/rsparse.py + tools/gen_spec.py (Rust pure functions -> Gen.v), validated by differential sweeps of the hook wrappers",
    "Base/RsPrelude.v (fixed-width integer vocabulary, little-endian target, usize = 64 bit) and Base/Sse2.v (byte-wise semantics of 6 SSE2 intrinsics)",
    "extraction: ExtrOcamlBasic only (bool, option, unit, list, prod, sumbool mapped to OCaml types; no Extract Constant); OCaml 4.13 ocamlopt; ocaml/driver.ml parser/printer",
    "correspondence harness harness/src (instrumented K/V types, scripted BuildHasher, ledger allocator with red zones, verif hooks in /repo behind --cfg hashbrown_verif)",
    "hand-written model Model/Raw.v, Model/Map.v of raw/mod.rs and map.rs control flow (tied by step-wise bit-exact state comparison, not by translation)",
]

# ------------------------------------------------------------------------------------------------
# the generic check skeleton
# ------------------------------------------------------------------------------------------------
class Run:
    def __init__(self, pid, tier, seed):
        self.pid, self.tier, self.seed = pid, tier, seed
        self.t0 = time.time()
        self.wdir = os.path.join(WORK, pid)
        shutil.rmtree(self.wdir, ignore_errors=True)
        os.makedirs(self.wdir, exist_ok=True)
        self.lines = []           # verdict lines to print
        self.violations = 0
        self.known_hits = []
        self.notes = []
        self.cov = {}
        self.assumptions = []
    def say(self, s):
        print(s, flush=True)
    def violation(self, replay, suffix=""):
        self.violations += 1
        self.say(f"VIOLATION property={self.pid} replay={replay}{(' ' + suffix) if suffix else ''}")
    def write_replay(self, name, text):
        p = os.path.join(self.wdir, name)
        open(p, "w").write(text)
        return p

def coq_stage(run, prop, gen_deps=()):
    """Regenerate Gen.v, build the property's cone, audit it.  Returns dict(ok, reason, ...)."""
    res = {"ok": True, "problems": [], "obligations": 0, "discharged": 0}
    unt, _ = regen()
    bad_unt = [(n, e) for (n, e) in unt if not gen_deps or n in gen_deps or True]
    for n, e in bad_unt:
        res["problems"].append(f"translator: source of `{n}` left the translatable subset: {e}")
    # the property's statement files: Properties/Cxx.v and companions Properties/Cxx<letter>.v
    pfiles = [f"theories/Properties/{prop}.v"] + sorted(
        "theories/Properties/" + os.path.basename(x) for x in glob.glob(os.path.join(COQ, "theories", "Properties", prop + "[a-z].v")))
    ok, log = coq_make([pf + "o" for pf in pfiles] + ["theories/Extract/Extract.vo"])
    files = sorted(set(f for pf in pfiles for f in deps_of(pf)))
    res["files"] = files
    res["obligations"] = count_statements(files)
    if not ok:
        fl = coq_failure(log)
        lem = lemma_at(fl["file"], fl["line"]) if fl["file"] != "?" else "?"
        res["ok"] = False
        res["problems"].append(f"proof obligation no longer checks: {fl['file']}:{fl['line']} in `{lem}`: {fl['error']}")
        res["failed_lemma"] = lem
        res["failed_file"] = fl["file"]
        # how many statements precede the failure: conservative count = statements in files that did build
        built = [f for f in files if os.path.exists(os.path.join(COQ, f + "o")) and os.path.getmtime(os.path.join(COQ, f + "o")) >= os.path.getmtime(os.path.join(COQ, f))]
        res["discharged"] = count_statements(built)
    else:
        res["discharged"] = res["obligations"]
        tot_closed, tot_n = 0, 0
        for pfile in pfiles:
            okpa, closed, axioms, out = print_assumptions(pfile)
            nthm = len(re.findall(r"^\s*Print Assumptions", open(os.path.join(COQ, pfile)).read(), re.M))
            tot_closed += closed; tot_n += nthm
            if not okpa or closed != nthm or axioms:
                res["ok"] = False
                res["problems"].append(f"Print Assumptions ({pfile}): {closed}/{nthm} closed; axioms reported: {axioms[:3]}")
        res["assumptions_closed"] = tot_closed
        res["assumptions_expected"] = tot_n
    hits = audit(files)
    if hits:
        res["ok"] = False
        res["problems"].append("audit: " + "; ".join(hits[:5]))
    if unt:
        res["ok"] = False
    if res["ok"] and getattr(run, "tier", "quick") == "thorough":
        # independent re-check of the compiled cone (kernel-level checker, lists every axiom)
        with Lock("coq"):
            rc, out = sh(["coqchk", "-o", "-silent", "-Q", "theories", "HB"] + ["HB.Properties." + os.path.basename(pf)[:-2] for pf in pfiles], cwd=COQ, timeout=1800)
        m = re.search(r"\* Axioms:\s*(.*?)\n\s*\n", out, re.S)
        axioms = m.group(1).strip() if m else "?"
        clean = all(re.search(rf"\* {k}:\s*<none>", out) for k in
                    ("Constants/Inductives relying on type-in-type", "Constants/Inductives relying on unsafe \\(co\\)fixpoints", "Inductives whose positivity is assumed"))
        res["coqchk"] = {"rc": rc, "axioms": axioms, "clean": clean}
        if rc != 0 or axioms != "<none>" or not clean:
            res["ok"] = False
            res["problems"].append(f"coqchk: rc={rc} axioms={axioms[:200]} clean={clean}: {out[-300:]}")
    return res

def finish(run, ev_cov, level="proof", assumptions=None):
    ev = {
        "property_id": run.pid, "tier": run.tier, "seed": run.seed, "level": level,
        "coverage": ev_cov, "assumptions": assumptions or [], "wall_s": round(time.time() - run.t0, 2),
        "violations": run.violations,
    }
    write_evidence(run.pid, ev)
    # disk hygiene: traces and generated scripts are bulky (GBs in the thorough tier); keep only the
    # replay files (and everything, for inspection, when a violation was reported)
    if not run.violations:
        for f in glob.glob(os.path.join(run.wdir, "*.trace")) + glob.glob(os.path.join(run.wdir, "*.script")) + \
                 glob.glob(os.path.join(run.wdir, "q_*.txt")) + glob.glob(os.path.join(run.wdir, "a_*.txt")):
            try:
                os.remove(f)
            except OSError:
                pass
    return 1 if run.violations else 0

from hvprops import PROPS  # noqa: E402  (property table; imports this module lazily)

def cmd_setup():
    t0 = time.time()
    unt, out = regen()
    print(out.strip())
    ok, log = coq_make([], timeout=3000)
    print(log[-1500:])
    if not ok:
        print("SETUP: coq build failed (checks will report it per property)")
    okd, d = build_driver()
    print("driver:", d if okd else "FAILED " + str(d)[-500:])
    for v in ("sse2-debug", "generic-debug", "sse2-release", "generic-release"):
        okh, h = build_harness(v)
        print("harness", v, ":", h if okh else "FAILED")
    print(f"setup done in {time.time() - t0:.0f}s")
    return 0

def main(argv):
    if not argv:
        print(__doc__); return 2
    if argv[0] == "setup":
        return cmd_setup()
    if argv[0] == "check":
        pid = argv[1]
        tier = os.environ.get("VERIF_TIER", "quick")
        if "--tier" in argv:
            tier = argv[argv.index("--tier") + 1]
        seed = int(os.environ.get("VERIF_SEED", "1") or "1")
        if pid not in PROPS:
            print(f"unknown property {pid}"); return 2
        run = Run(pid, tier, seed)
        return PROPS[pid](run)
    if argv[0] == "replay":
        path = argv[1]
        okd, driver = build_driver()
        variant = "sse2-debug"
        txt = open(path).read()
        m = re.search(r"^# variant: (\S+)", txt, re.M)
        if m:
            variant = m.group(1)
        okh, exe = build_harness(variant)
        if not (okd and okh):
            print("build failed"); return 2
        if txt.lstrip().startswith("# arith"):
            rc, out = sh([exe, "arith"], stdin="\n".join(l for l in txt.split("\n") if l and not l.startswith("#")).encode())
            print(out); return 0
        tp = os.path.join(WORK, "replay.trace")
        os.makedirs(WORK, exist_ok=True)
        rc, err = run_trace(exe, path, tp)
        print(f"harness exit status {rc} {err}")
        rc, out = run_driver(driver, tp)
        print(out)
        return 0
    print(__doc__)
    return 2
