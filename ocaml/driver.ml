(* driver.ml -- runs the extracted Coq model (Hb.map_step), the specification acceptor
   (Hb.spec_accepts) and the invariant checker (Hb.wf_check) against a trace printed by the Rust
   harness `hbx`, step by step:
     level C: model_step(PRE, op) must equal (POST, RET, EV) exactly
     level B: wf_check on every POST state
     level A: spec_accepts on every RET, and POST contents = abstract contents
   Output: one line per finding, then `STATS ...` lines.  Exit code 0 always (hv decides). *)
open Hb

(* ---------- conversions ---------- *)
let rec nat_of_int n = if n <= 0 then O else S (nat_of_int (n - 1))
let rec int_of_nat = function O -> 0 | S n -> 1 + int_of_nat n

let z_of_int (i : int) : z = Z.of_nat (nat_of_int 0) |> fun _ ->
  (* build from binary digits to avoid unary nat for big numbers *)
  let rec pos n = if n = 1 then XH else if n land 1 = 0 then XO (pos (n lsr 1)) else XI (pos (n lsr 1)) in
  if i = 0 then Z0 else if i > 0 then Zpos (pos i) else Zneg (pos (-i))

let z10 = z_of_int 10
let z_of_string (s : string) : z =
  let neg = String.length s > 0 && s.[0] = '-' in
  let acc = ref Z0 in
  String.iteri (fun i c -> if not (i = 0 && neg) then begin
    if c < '0' || c > '9' then failwith ("bad number " ^ s);
    acc := Z.add (Z.mul !acc z10) (z_of_int (Char.code c - 48)) end) s;
  if neg then Z.sub Z0 !acc else !acc

let rec int_of_pos = function XH -> 1 | XO p -> 2 * int_of_pos p | XI p -> 2 * int_of_pos p + 1
let string_of_z (x : z) : string =
  (* decimal, arbitrary size *)
  let rec go x acc =
    match x with
    | Z0 -> if acc = "" then "0" else acc
    | _ ->
      let q = Z.div x z10 and r = Z.modulo x z10 in
      let d = match r with Z0 -> 0 | Zpos p -> int_of_pos p | Zneg _ -> 0 in
      go q (string_of_int d ^ acc) in
  match x with
  | Zneg p -> "-" ^ go (Zpos p) ""
  | _ -> go x ""

let zi = z_of_int
let zs = z_of_string

(* the harness' salted hasher: hash = mix64(plan(id) ^ salt) for salt <> 0 (Int64 wraps like u64) *)
let mix64 (x : int64) : int64 =
  let open Int64 in
  let x = add x 0x9E3779B97F4A7C15L in
  let x = mul (logxor x (shift_right_logical x 30)) 0xBF58476D1CE4E5B9L in
  let x = mul (logxor x (shift_right_logical x 27)) 0x94D049BB133111EBL in
  logxor x (shift_right_logical x 31)
let int64_of_z (x : z) : int64 = Int64.of_string ("0u" ^ string_of_z x)
let z_of_int64 (x : int64) : z = z_of_string (Printf.sprintf "%Lu" x)
let salted (salt : string) (h : z) : z =
  if salt = "0" || salt = "" then h else z_of_int64 (mix64 (Int64.logxor (int64_of_z h) (Int64.of_string ("0u" ^ salt))))

(* ---------- parsing ---------- *)
let words s = List.filter (fun x -> x <> "") (String.split_on_char ' ' s)
let strip_prefix p s =
  let lp = String.length p in
  if String.length s >= lp && String.sub s 0 lp = p then Some (String.sub s lp (String.length s - lp)) else None

let kvmap (ws : string list) : (string * string) list =
  List.filter_map (fun w -> match String.index_opt w '=' with
    | Some i -> Some (String.sub w 0 i, String.sub w (i + 1) (String.length w - i - 1))
    | None -> None) ws

let unhex (s : string) : z list =
  let n = String.length s / 2 in
  List.init n (fun i -> zi (int_of_string ("0x" ^ String.sub s (2 * i) 2)))
let hex_of (l : z list) : string =
  String.concat "" (List.map (fun b -> match b with
    | Z0 -> "00" | Zpos p -> Printf.sprintf "%02x" (int_of_pos p land 255) | Zneg _ -> "??") l)

type dump = { d_mask : int; d_items : z; d_growth : z; d_ctrl : z list;
              d_slots : (int * kv) list; d_alloc : string; d_sing : bool; d_flags : string list;
              d_cap : int option   (* what the collection's own capacity() answered when the dump was taken *) }

let parse_dump (s : string) : dump =
  let ws = words s in
  let m = kvmap ws in
  let g k = List.assoc k m in
  let slots = match g "s" with
    | "-" -> []
    | t -> List.map (fun e -> match String.split_on_char ':' e with
        | [i; k; st; v] -> (int_of_string i, { k_id = zs k; k_stamp = zs st; v_val = zs v })
        | _ -> failwith "slot") (String.split_on_char ';' t) in
  { d_mask = int_of_string (g "m"); d_items = zs (g "i"); d_growth = zs (g "g"); d_ctrl = unhex (g "c");
    d_slots = slots; d_alloc = g "a"; d_sing = (g "sing" = "1");
    d_flags = List.filter (fun w -> not (String.contains w '=')) ws;
    d_cap = (match List.assoc_opt "cap" m with Some c -> (try Some (int_of_string c) with _ -> None) | None -> None) }

let table_of_dump (d : dump) : kv table =
  let nb = d.d_mask + 1 in
  let slots = List.init nb (fun i -> List.assoc_opt i d.d_slots) in
  { mask = nat_of_int d.d_mask; ctrl = d.d_ctrl; slots = slots; items = d.d_items; growth_left = d.d_growth }

let slots_text (t : kv table) : string =
  let l = List.mapi (fun i o -> (i, o)) t.slots in
  let l = List.filter_map (fun (i, o) -> match o with
    | Some e -> Some (Printf.sprintf "%d:%s:%s:%s" i (string_of_z e.k_id) (string_of_z e.k_stamp) (string_of_z e.v_val))
    | None -> None) l in
  if l = [] then "-" else String.concat ";" l

let table_text (t : kv table) : string =
  Printf.sprintf "m=%d i=%s g=%s c=%s s=%s" (int_of_nat t.mask) (string_of_z t.items) (string_of_z t.growth_left)
    (hex_of t.ctrl) (slots_text t)
let dump_text (d : dump) : string =
  Printf.sprintf "m=%d i=%s g=%s c=%s s=%s" d.d_mask (string_of_z d.d_items) (string_of_z d.d_growth)
    (hex_of d.d_ctrl) (slots_text (table_of_dump d))


(* address tie (Model/Addr.v, theorems of Properties/C02a.v): the dump's `ad=` field gives the address of
   the first and of the last element slot relative to the block start (zero-sized T: the absolute dangling
   address); the model says bucket_as_ptr (bucket_ptr i) *)
let addr_tie (say : string -> unit) (where : string) (tsize : z) (talign : z) (dump_s : string) : unit =
  let m = kvmap (words dump_s) in
  match List.assoc_opt "ad" m, List.assoc_opt "a" m, List.assoc_opt "m" m with
  | Some ad, Some a, Some mask when a <> "-" ->
    (match String.split_on_char ',' ad, String.split_on_char ',' a with
     | [a0; al], [_; _; off] ->
       let off = zs off in
       let expect i = string_of_z (bucket_as_ptr tsize talign (bucket_ptr tsize off (zs i))) in
       if expect "0" <> a0 then say (Printf.sprintf "T-MISMATCH %s: address of element slot 0: model %s impl %s (block-relative; tsize %s)" where (expect "0") a0 (string_of_z tsize));
       if expect mask <> al then say (Printf.sprintf "T-MISMATCH %s: address of element slot %s: model %s impl %s (block-relative; tsize %s)" where mask (expect mask) al (string_of_z tsize))
     | _ -> ())
  | _ -> ()

let parse_kv3 (s : string) : kv =
  match String.split_on_char ':' s with
  | [k; st; v] -> { k_id = zs k; k_stamp = zs st; v_val = zs v }
  | _ -> failwith ("kv " ^ s)

let parse_op (ws : string list) : map_op =
  let z i = zs (List.nth ws i) in
  let n i = nat_of_int (int_of_string (List.nth ws i)) in
  let rest i = List.filteri (fun j _ -> j >= i) ws in
  match List.hd ws with
  | "withcap" -> OpWithCapacity (z 1)
  | "insert" -> OpInsert (z 1, z 2, z 3)
  | "get" | "getb" -> OpGet (z 1)
  | "getkv" | "getkvb" -> OpGetKeyValue (z 1)
  | "contains" | "containsb" -> OpContains (z 1)
  | "getmut" | "getmutb" -> OpGetMut (z 1, z 2)
  | "remove" | "removeb" -> OpRemove (z 1)
  | "removeentry" -> OpRemoveEntry (z 1)
  | "tryinsert" -> OpTryInsert (z 1, z 2, z 3)
  | "entry_or_insert" | "rentry_or_insert" | "raw_or_insert" | "eref_or_insert" -> OpEntryOrInsert (z 1, z 2, z 3)
  | "entry_insert" | "rentry_insert" | "raw_insert" | "eref_insert" -> OpEntryInsert (z 1, z 2, z 3)
  | "entry_remove" | "rentry_remove" | "raw_remove" -> OpEntryRemove (z 1, z 2)
  | "rentry_drop" | "eref_drop" -> OpEntryDrop (z 1, z 2)
  | "raw_get" -> OpGetKeyValue (z 1)
  | "raw_hash_insert" -> OpEntryInsert (z 2, z 3, z 4)             (* searched under the hash of key (nth 1) *)
  | "raw_rename" -> OpRemove (z 1)                                  (* ... followed by the insertion of (nth 3) *)
  | "entry_replace" | "entry_and_replace" -> if List.nth ws 3 = "some" then OpGetMut (z 1, z 4) else OpEntryRemove (z 1, z 2)
  | "raw_replace" | "raw_and_replace" -> if List.nth ws 3 = "some" then OpGetMut (z 1, z 4) else OpRemove (z 1)
  | "entry_and_modify" -> OpEntryAndModify (z 1, z 2, z 3, z 4)
  | "entry_drop" -> OpEntryDrop (z 1, z 2)
  | "clear" -> OpClear
  | "reserve" -> OpReserve (z 1)
  | "tryreserve" -> OpTryReserve (z 1)
  | "shrinkto" -> OpShrinkTo (z 1)
  | "shrinktofit" -> OpShrinkToFit
  | "retain" -> OpRetain (List.map zs (rest 2), z 1)
  | "extend" | "fromiter" -> OpExtend (List.map parse_kv3 (rest 1))
  | "extendp" -> OpExtend (List.map parse_kv3 (rest 2))              (* the iterator panics after (nth 1) pairs *)
  | "drain" | "forget_drain" | "forget_iter" -> OpDrain (n 1)
  | "extractif" | "forget_extractif" -> OpExtractIf (List.map zs (rest 2), n 1)
  | "forget_entry" -> OpContains (z 1)
  | "iter" -> OpIter
  | "iterfold" -> OpIterFold (n 1)
  | "len" -> OpLen
  | "capacity" -> OpCapacity
  | "allocsize" -> OpAllocationSize
  | "dropmap" -> OpDropMap
  | "par_iter" | "par_keys" | "par_values" -> OpIter
  | "par_iter_mut" | "par_values_mut" -> OpRetain ([], z 2)          (* keep list is filled in by the caller *)
  | "into_par_iter" | "intoiter" | "intokeys" | "intovalues" | "intoiterfold" | "intokeysfold" | "intovaluesfold" | "drainfold" -> OpDrain (nat_of_int 0)
  | "par_drain" -> OpDrain (nat_of_int 0)                            (* count filled in by the caller *)
  | "par_extend" -> OpExtend (List.map parse_kv3 (rest 2))
  | "par_split" -> OpLen
  | "from_par_iter" | "par_eq" -> OpLen                              (* judged by their own rules in the map handler *)
  | "spar_iter" -> OpIter
  | "sinto_par_iter" | "spar_drain" -> OpDrain (nat_of_int 0)        (* count filled in by the caller *)
  | "spar_extend" ->
    OpExtend (List.map (fun t -> match String.split_on_char ':' t with
      | [k; st] -> { k_id = zs k; k_stamp = zs st; v_val = Z0 }
      | _ -> failwith ("set item " ^ t)) (rest 2))
  | "serde_de" | "serde_roundtrip" | "serde_set" -> OpLen
  | "getmanymut" -> OpLen
  | "sinsert" -> OpSetInsert (z 1, z 2)
  | "sreplace" -> OpSetReplace (z 1, z 2)
  | "stake" -> OpSetTake (z 1)
  | "sget" -> OpSetGet (z 1)
  | "sgetorinsert" -> OpSetGetOrInsert (z 1, z 2)
  | "sgetorinsertwith" -> OpSetGetOrInsertWith (z 1, z 2, z 3)
  | "sremove" -> OpSetRemove (z 1)
  | "sentry_insert" -> OpEntryOrInsert (z 1, z 2, Z0)
  | o -> failwith ("unknown op " ^ o)

let kv_text (e : kv) = Printf.sprintf "%s:%s:%s" (string_of_z e.k_id) (string_of_z e.k_stamp) (string_of_z e.v_val)

let out_text (o : out) : string =
  match o with
  | OutUnit -> "unit" | OutNone -> "none"
  | OutVal v -> "val " ^ string_of_z v
  | OutKV (s, v) -> Printf.sprintf "kv %s %s" (string_of_z s) (string_of_z v)
  | OutBool b -> if b then "bool 1" else "bool 0"
  | OutNum n -> "num " ^ string_of_z n
  | OutTry TR_ok -> "try ok"
  | OutTry TR_capacity_overflow -> "try overflow"
  | OutTry (TR_alloc_error (s, a)) -> Printf.sprintf "try allocerr %s %s" (string_of_z s) (string_of_z a)
  | OutList l -> "list " ^ (if l = [] then "-" else String.concat "," (List.map kv_text l))
  | OutErrOccupied (s, v) -> Printf.sprintf "occupied %s %s" (string_of_z s) (string_of_z v)
  | OutUnwind -> "unwind"
  | OutLibPanic -> "libpanic"

let parse_out (s : string) : out option =
  let ws = words s in
  match ws with
  | ["unit"] -> Some OutUnit | ["none"] -> Some OutNone
  | ["val"; v] -> Some (OutVal (zs v))
  | ["kv"; a; b] -> Some (OutKV (zs a, zs b))
  | ["bool"; b] -> Some (OutBool (b = "1"))
  | ["num"; n] -> Some (OutNum (zs n))
  | ["try"; "ok"] -> Some (OutTry TR_ok)
  | ["try"; "overflow"] -> Some (OutTry TR_capacity_overflow)
  | ["try"; "allocerr"; a; b] -> Some (OutTry (TR_alloc_error (zs a, zs b)))
  | ["list"; "-"] -> Some (OutList [])
  | ["list"; l] -> Some (OutList (List.map parse_kv3 (String.split_on_char ',' l)))
  | ["occupied"; a; b] -> Some (OutErrOccupied (zs a, zs b))
  | "unwind" :: _ -> Some OutUnwind
  | "libpanic" :: "new" :: "value" :: _ -> Some OutLibPanic     (* assert in get_or_insert_with *)
  | _ -> None

let ev_text (evs : kv event list) : string =
  let l = List.filter_map (fun e -> match e with
    | EvAlloc (s, a) -> Some (Printf.sprintf "A:%s:%s" (string_of_z s) (string_of_z a))
    | EvFree (s, a) -> Some (Printf.sprintf "F:%s:%s" (string_of_z s) (string_of_z a))
    | EvDrop e -> Some ("DT:" ^ kv_text e)
    | EvMoveOut _ -> None) evs in
  if l = [] then "-" else String.concat " " l

let err_text = function
  | UB_ctrl_oob -> "UB_ctrl_oob" | UB_group_oob -> "UB_group_oob" | UB_group_unaligned -> "UB_group_unaligned"
  | UB_slot_oob -> "UB_slot_oob" | UB_slot_uninit -> "UB_slot_uninit" | UB_slot_singleton -> "UB_slot_singleton"
  | UB_write_singleton -> "UB_write_singleton" | UB_unwrap_none -> "UB_unwrap_none" | UB_unreachable -> "UB_unreachable"
  | UB_free_singleton -> "UB_free_singleton" | UB_bad_layout -> "UB_bad_layout" | OutOfFuel -> "OutOfFuel"
  | Panic -> "Panic" | PanicCapacityOverflow -> "PanicCapacityOverflow" | AbortAlloc -> "AbortAlloc" | PanicOther -> "PanicOther"


(* ---------- arithmetic mode: compare the hook wrappers' answers with Gen.* ---------- *)
let arith_mode (file : string) =
  let ic = open_in file in
  let gw = ref 16 in
  let total = ref 0 and bad = ref 0 in
  let kinds : (string, int) Hashtbl.t = Hashtbl.create 17 in
  (try while true do
    let l = input_line ic in
    (match words l with
     | ["gw"; g] -> gw := int_of_string g
     | ws when List.mem "=" ws ->
       let rec split acc = function "=" :: r -> (List.rev acc, r) | x :: r -> split (x :: acc) r | [] -> (List.rev acc, []) in
       let (q, r) = split [] ws in
       let impl = String.concat " " r in
       let b = if !gw = 16 then sse2_backend else generic_backend in
       let z i = zs (List.nth q i) in
       let model =
         (match List.hd q with
          | "ctb" -> (match capacity_to_buckets (zi !gw) (z 1) (z 2) (z 3) with Some x -> string_of_z x | None -> "none")
          | "bmtc" -> string_of_z (bucket_mask_to_capacity (z 1))
          | "tlnew" ->
            (* TableLayout::new::<T>() for a concrete T: the answer carries size_of / align_of T, which are
               the inputs of the generated table_layout_new *)
            (match r with
             | [so; ao; _; _] ->
               let (ts, ca) = table_layout_new (zi !gw) (zs so) (zs ao) in
               Printf.sprintf "%s %s %s %s" so ao (string_of_z ts) (string_of_z ca)
             | _ -> "?")
          | "layout" -> (match calculate_layout_for (zi !gw) (z 1) (z 2) (z 3) with
              | Some ((l, a), o) -> Printf.sprintf "%s %s %s" (string_of_z l) (string_of_z a) (string_of_z o)
              | None -> "none")
          | "probe" ->
            let mask = z 2 in
            let p0 = fst (probe_seq mask (z 1)) in
            String.concat "," (List.map string_of_z (probe_positions (zi !gw) mask (nat_of_int (int_of_string (List.nth q 3))) p0))
          | "samegroup" -> if is_in_same_group (zi !gw) (z 4) (z 1) (z 2) (z 3) then "1" else "0"
          | "h1" -> string_of_z (h1 (z 1))
          | "tagfull" -> string_of_z (tag_full (z 1))
          | "tagclass" ->
            let x = z 1 in
            Printf.sprintf "%d %d %d" (if tag_is_full x then 1 else 0) (if tag_is_special x then 1 else 0)
              (if tag_is_special x && tag_special_is_empty x then 1 else 0)
          | "grp" ->
            let g = unhex (List.nth q 2) in
            let g = List.filteri (fun i _ -> i < !gw) g in
            let il l = if l = [] then "-" else String.concat "," (List.map (fun n -> string_of_int (int_of_nat n)) l) in
            let view (word : z) (iter : nat list) =
              (* any / lowest / lz / tz are computed from the same BitMask word by the Gen.bm_* functions *)
              Printf.sprintf "iter=%s any=%d low=%s lz=%d tz=%d" (il iter)
                (if bm_any_bit_set word then 1 else 0)
                (match bm_lowest_set_bit b.bk_bits b.bk_stride word with Some x -> string_of_z x | None -> "-")
                (int_of_nat (Z.to_nat (bm_leading_zeros b.bk_bits b.bk_stride word)))
                (int_of_nat (Z.to_nat (bm_trailing_zeros b.bk_bits b.bk_stride word))) in
            (match List.nth q 1 with
             | "match_tag" -> let t = z 3 in view (b.bk_match_tag g t) (g_match_tag b g t)
             | "match_empty" -> view (b.bk_match_empty g) (bm_iter b (b.bk_match_empty g))
             | "match_eod" -> view (b.bk_match_eod g) (bm_iter b (b.bk_match_eod g))
             | "match_full" -> view (b.bk_match_full g) (g_match_full b g)
             | "convert" -> hex_of (g_convert b g)
             | _ -> "?")
          | _ -> "?") in
       incr total;
       Hashtbl.replace kinds (List.hd q) (1 + (try Hashtbl.find kinds (List.hd q) with Not_found -> 0));
       if model <> impl then begin incr bad; Printf.printf "T-MISMATCH %s: model [%s] impl [%s]\n" (String.concat " " q) model impl end
     | _ -> ())
  done with End_of_file -> ());
  close_in ic;
  Printf.printf "STATS queries=%d mismatches=%d\n" !total !bad;
  Printf.printf "OPS %s\n" (String.concat " " (Hashtbl.fold (fun k v acc -> Printf.sprintf "%s=%d" k v :: acc) kinds []))


(* ---------- HashTable traces ---------- *)
let parse_pred (ws : string list) (i : int) : tpred * int =
  match List.nth ws i with
  | "id" -> (PId (zs (List.nth ws (i + 1))), i + 2)
  | "valmod" -> (PValMod (zs (List.nth ws (i + 1)), zs (List.nth ws (i + 2))), i + 3)
  | x -> failwith ("pred " ^ x)

let parse_top (ws : string list) : tbl_op =
  let z i = zs (List.nth ws i) in
  let n i = nat_of_int (int_of_string (List.nth ws i)) in
  let rest i = List.filteri (fun j _ -> j >= i) ws in
  match List.hd ws with
  | "twithcap" -> TWithCapacity (z 1)
  | "tfind" -> let (p, _) = parse_pred ws 2 in TFind (z 1, p)
  | "tfindmut" -> let (p, j) = parse_pred ws 2 in TFindMut (z 1, p, z j)
  | "tfindentryremove" -> let (p, _) = parse_pred ws 2 in TFindEntryRemove (z 1, p)
  | "tremovereinsert" -> let (p, j) = parse_pred ws 2 in TRemoveReinsert (z 1, p, z j, z (j + 1))
  | "tentryinsert" -> TEntryInsert (z 1, z 2, z 3)
  | "tentryorinsert" -> TEntryOrInsert (z 1, z 2, z 3)
  | "tentrydrop" -> TEntryDrop (z 1)
  | "tinsertunique" -> TInsertUnique (z 1, z 2, z 3)
  | "tretain" -> TRetain (List.map zs (rest 2), z 1)
  | "textractif" -> TExtractIf (List.map zs (rest 2), n 1)
  | "tdrain" -> TDrain (n 1)
  | "tclear" -> TClear
  | "treserve" -> TReserve (z 1)
  | "ttryreserve" -> TTryReserve (z 1)
  | "tshrinkto" -> TShrinkTo (z 1)
  | "tshrinktofit" -> TShrinkToFit
  | "tgetmanymut" ->
    let add = z 1 and cnt = int_of_string (List.nth ws 2) in
    let rec go k i acc = if k = 0 then List.rev acc else
        let hk = z i in let (p, j) = parse_pred ws (i + 1) in go (k - 1) j ((hk, p) :: acc) in
    TGetManyMut (go cnt 3 [], add)
  | "titerhash" -> TIterHash (z 1)
  | "titer" -> TIter
  | "tlen" -> TLen
  | "tcapacity" -> TCapacity
  | "tallocsize" -> TAllocationSize
  | "tdrop" -> TDropTable
  | "tclone" -> TReserve Z0                                           (* the table is replaced by its clone: contents unchanged *)
  | "tpar_iter" -> TIter
  | "tpar_iter_mut" -> TRetain ([], z 2)                             (* keep list is filled in by the caller *)
  | "tinto_par_iter" | "tpar_drain" | "tintoiter" -> TDrain (nat_of_int 0)         (* count filled in by the caller *)
  | o -> failwith ("unknown table op " ^ o)

let tout_text (o : tout) : string =
  match o with
  | TOutUnit -> "unit" | TOutNone -> "none"
  | TOutElem e -> "elem " ^ kv_text e
  | TOutBool b -> if b then "bool 1" else "bool 0"
  | TOutNum n -> "num " ^ string_of_z n
  | TOutTry TR_ok -> "try ok" | TOutTry TR_capacity_overflow -> "try overflow"
  | TOutTry (TR_alloc_error (s, a)) -> Printf.sprintf "try allocerr %s %s" (string_of_z s) (string_of_z a)
  | TOutList l -> "list " ^ (if l = [] then "-" else String.concat "," (List.map kv_text l))
  | TOutOpts l -> "opts " ^ (if l = [] then "-" else String.concat "," (List.map (function Some e -> kv_text e | None -> "none") l))
  | TOutUnwind -> "unwind" | TOutLibPanic -> "libpanic"

let parse_tout (s : string) : tout option =
  match words s with
  | ["unit"] -> Some TOutUnit | ["none"] -> Some TOutNone
  | ["elem"; e] -> Some (TOutElem (parse_kv3 e))
  | ["bool"; b] -> Some (TOutBool (b = "1"))
  | ["num"; n] -> Some (TOutNum (zs n))
  | ["try"; "ok"] -> Some (TOutTry TR_ok) | ["try"; "overflow"] -> Some (TOutTry TR_capacity_overflow)
  | ["try"; "allocerr"; a; b] -> Some (TOutTry (TR_alloc_error (zs a, zs b)))
  | ["list"; "-"] -> Some (TOutList [])
  | ["list"; l] -> Some (TOutList (List.map parse_kv3 (String.split_on_char ',' l)))
  | ["opts"; "-"] -> Some (TOutOpts [])
  | ["opts"; l] -> Some (TOutOpts (List.map (fun x -> if x = "none" then None else Some (parse_kv3 x)) (String.split_on_char ',' l)))
  | "unwind" :: _ -> Some TOutUnwind
  | "libpanic" :: "duplicate" :: _ -> Some TOutLibPanic
  | _ -> None


(* ---------- capacity-contract oracles (C08, C12, C13), judged on the implementation's own dumps ---------- *)
let alloc_size (d : dump) : int = match String.split_on_char ',' d.d_alloc with [s; _; _] -> int_of_string s | _ -> 0
let ev_has_alloc_traffic (ev_s : string) : bool =
  List.exists (fun w -> String.length w > 2 && (String.sub w 0 2 = "A:" || String.sub w 0 2 = "F:")) (words ev_s)
let single_insert_ops = ["insert"; "tryinsert"; "entry_or_insert"; "entry_insert"; "entry_and_modify"; "raw_or_insert"; "raw_insert"; "eref_or_insert"; "eref_insert"; "rentry_or_insert"; "rentry_insert"; "sinsert"; "sreplace";
                         "sgetorinsert"; "sgetorinsertwith"; "sentry_insert"; "tinsertunique"; "tentryinsert"; "tentryorinsert"]
let churn_ops = ["insert"; "remove"; "removeentry"; "get"; "getkv"; "contains"; "getmut"; "tryinsert"; "entry_or_insert"; "entry_insert";
                 "entry_remove"; "entry_and_modify"; "entry_drop"; "len"; "capacity"; "allocsize"; "iter"; "iterfold";
                 "tinsertunique"; "tfindentryremove"; "tremovereinsert"; "tentryinsert"; "tentryorinsert"; "tentrydrop"; "tfind"; "tfindmut"; "titer"; "tlen"; "titerhash";
                 "sinsert"; "sremove"; "stake"; "sreplace"; "sget"; "sgetorinsert"; "contains";
                 "entry_replace"; "entry_and_replace"; "raw_replace"; "raw_and_replace"; "raw_or_insert"; "raw_insert"; "raw_remove"; "raw_get";
                 "eref_or_insert"; "eref_insert"; "eref_drop"]

let capacity_oracles (say : string -> unit) (where : string) (gw : int) (tsize : z) (calign : z)
    (opws : string list) (pre : dump) (post : dump) (ret_s : string) (ev_s : string) (arm : string)
    (churn_max : int ref) (churn_ok : bool ref) =
  let opname = List.hd opws in
  let big = List.mem "BIG" pre.d_flags || List.mem "BIG" post.d_flags in
  let zint (x : z) = (try int_of_string (string_of_z x) with _ -> max_int) in
  let len_post = zint post.d_items and gl_post = zint post.d_growth in
  let cap_pre = zint pre.d_items + zint pre.d_growth and cap_post = len_post + gl_post in
  let normal = (match strip_prefix "unwind" ret_s, strip_prefix "libpanic" ret_s with None, None -> true | _ -> false) in
  let argn i = (try Some (zs (List.nth opws i)) with _ -> None) in
  let fits (n : z) = Z.ltb n (zs "4611686018427387904") in
  (* C08 *)
  if cap_post < len_post then say (Printf.sprintf "K-FAIL %s: capacity() %d < len() %d" where cap_post len_post);
  (match opname, argn 1 with
   | ("reserve" | "treserve" | "withcap" | "twithcap"), Some n when normal && fits n ->
     if gl_post < zint n then say (Printf.sprintf "K-FAIL %s: after %s %s only %d more elements fit without reallocation (capacity %d, len %d)" where opname (string_of_z n) gl_post cap_post len_post)
   | ("tryreserve" | "ttryreserve"), Some n when ret_s = "try ok" && fits n ->
     if gl_post < zint n then say (Printf.sprintf "K-FAIL %s: try_reserve(%s) returned Ok but only %d more elements fit" where (string_of_z n) gl_post)
   | _ -> ());
  (* the spare room the collection itself reports: capacity() - len(), both as answered by the
     implementation (the dump's growth_left is the model's view of the same number) *)
  let spare_pre = (match pre.d_cap with Some c -> max (zint pre.d_growth) (c - zint pre.d_items) | None -> zint pre.d_growth) in
  if List.mem opname single_insert_ops && spare_pre > 0 && arm = "-" && normal then begin
    if ev_has_alloc_traffic ev_s || pre.d_mask <> post.d_mask then
      say (Printf.sprintf "K-FAIL %s: an insertion (re)allocated although capacity()-len() was %d" where spare_pre)
  end;
  (match post.d_cap with
   | Some c when c < len_post -> say (Printf.sprintf "K-FAIL %s: capacity() answered %d < len() %d" where c len_post)
   | _ -> ());
  (match opname, argn 1 with
   | ("withcap" | "twithcap"), Some n when Z.eqb n Z0 && normal -> if post.d_alloc <> "-" then say (Printf.sprintf "K-FAIL %s: with_capacity(0) allocated" where)
   | _ -> ());
  if List.mem opname ["clear"; "tclear"; "drain"; "tdrain"; "drainfold"] && normal && pre.d_alloc <> post.d_alloc then
    say (Printf.sprintf "K-FAIL %s: %s changed the allocation: [%s] -> [%s]" where opname pre.d_alloc post.d_alloc);
  if List.mem opname ["allocsize"; "tallocsize"] && ret_s <> Printf.sprintf "num %d" (alloc_size post) then
    say (Printf.sprintf "K-FAIL %s: allocation_size() = [%s] but the table holds a block of %d bytes" where ret_s (alloc_size post));
  (match opname with
   | "shrinkto" | "shrinktofit" | "tshrinkto" | "tshrinktofit" when normal && not big ->
     let len = zint pre.d_items in
     let m = (match opname, argn 1 with
       | ("shrinkto" | "tshrinkto"), Some n -> if fits n then zint n else max_int
       | "tshrinktofit", _ -> len
       | _ -> 0) in
     if alloc_size post > alloc_size pre then say (Printf.sprintf "K-FAIL %s: shrinking enlarged the allocation %d -> %d" where (alloc_size pre) (alloc_size post));
     if cap_post < max len (min m cap_pre) then
       say (Printf.sprintf "K-FAIL %s: shrink_to(%d) left capacity %d < max(len %d, min(m, previous capacity %d))" where m cap_post len cap_pre);
     if len = 0 && m = 0 && post.d_alloc <> "-" then say (Printf.sprintf "K-FAIL %s: shrinking an empty collection to 0 kept the allocation" where);
     if not (len = 0 && m = 0) && m < max_int then begin
       match capacity_to_buckets (zi gw) (zi (max 1 (max len m))) tsize calign with
       | Some b -> if post.d_mask + 1 > zint b && post.d_mask > 0 then
           say (Printf.sprintf "K-FAIL %s: after shrink_to the table has %d buckets, a fresh with_capacity(%d) would have %s" where (post.d_mask + 1) (max len m) (string_of_z b))
       | None -> ()
     end
   | _ -> ());
  (* C12 *)
  (match opname with
   | "tryreserve" | "ttryreserve" ->
     let hash_armed = (try ignore (Str.search_forward (Str.regexp "hashpanic") arm 0); true with Not_found -> false) in
     if not normal && not hash_armed then say (Printf.sprintf "R-FAIL %s: try_reserve did not return: [%s]" where ret_s);
     (match strip_prefix "try " ret_s with
      | Some r when r <> "ok" ->
        if dump_text pre <> dump_text post || pre.d_alloc <> post.d_alloc then say (Printf.sprintf "R-FAIL %s: try_reserve returned an error (%s) but changed the collection" where r);
        if ev_has_alloc_traffic ev_s || (try ignore (Str.search_forward (Str.regexp "DT:") ev_s 0); true with Not_found -> false) then
          say (Printf.sprintf "R-FAIL %s: try_reserve returned an error (%s) after allocating / freeing / dropping: [%s]" where r ev_s);
        (match strip_prefix "allocerr " r with
         | Some la ->
           (* the reported layout is the refused request *)
           let refused = List.filter_map (fun w -> strip_prefix "R:" w) (words ev_s) in
           (match words la, refused with
            | [sz; al], [rq] -> if rq <> sz ^ ":" ^ al then say (Printf.sprintf "R-FAIL %s: AllocError carries layout (%s,%s) but the refused request was %s" where sz al rq)
            | _, [] -> say (Printf.sprintf "R-FAIL %s: AllocError although the allocator refused nothing" where)
            | _ -> ())
         | None -> if r = "overflow" && List.exists (fun w -> strip_prefix "R:" w <> None) (words ev_s) then
               say (Printf.sprintf "R-FAIL %s: CapacityOverflow reported although the allocator refused a request" where))
      | Some _ ->
        if List.exists (fun w -> strip_prefix "R:" w <> None) (words ev_s) && not (ev_has_alloc_traffic ev_s) && dump_text pre <> dump_text post then ()
      | None -> ())
   | _ -> ());
  (* C13: growth is bounded by the live size *)
  if not (List.mem opname churn_ops) then churn_ok := false;
  (* the bound is about tables that only ever grew through insertions: restart whenever the
     collection is back to the unallocated state *)
  if post.d_alloc = "-" then begin churn_ok := true; churn_max := 0 end;
  if !churn_ok && normal && not big then begin
    churn_max := max !churn_max (max (zint pre.d_items) len_post);
    let nb = post.d_mask + 1 in
    if nb > 16 then begin
      let half_cap = zint (bucket_mask_to_capacity (zi (nb / 2 - 1))) in
      if not (half_cap < 2 * (!churn_max + 1)) then
        say (Printf.sprintf "G-FAIL %s: %d buckets for at most %d live elements (a table of half the size holds %d)" where nb !churn_max half_cap)
    end
  end

(* ---------- the checking loop ---------- *)
type cfg = { mutable backend : backend; mutable gw : int; mutable tsize : z; mutable talign : z;
             mutable needs_drop : bool; mutable hashes : (string * z) list; mutable rule : string;
             mutable eqrule : string; mutable coll : string; mutable calign : z }

let is_calldep (r : string) = String.length r >= 7 && String.sub r 0 7 = "calldep"
let findings = ref 0
let say fmt = Printf.ksprintf (fun s -> incr findings; print_endline s) fmt

let sorted_kvs (l : kv list) = List.sort compare (List.map kv_text l)

(* ---------- extraction self-test: the sampled steps as Coq terms, and the extracted digest ---------- *)
let coq_z (x : z) : string = let t = string_of_z x in if String.length t > 0 && t.[0] = '-' then "(" ^ t ^ ")" else t
let coq_list (f : 'a -> string) (l : 'a list) : string = "[" ^ String.concat "; " (List.map f l) ^ "]"
let coq_kv (e : kv) : string = Printf.sprintf "(mkKV %s %s %s)" (coq_z e.k_id) (coq_z e.k_stamp) (coq_z e.v_val)
let coq_table (t : kv table) : string =
  Printf.sprintf "(mkTable %d%%nat %s %s %s %s)" (int_of_nat t.mask) (coq_list coq_z t.ctrl)
    (coq_list (fun o -> match o with Some e -> "Some " ^ coq_kv e | None -> "None") t.slots) (coq_z t.items) (coq_z t.growth_left)
(* the operations the self-test samples (None: not sampled) with the key ids they mention *)
let coq_op (op : map_op) : (string * z list) option =
  let z3 n a b c = Some (Printf.sprintf "(%s %s %s %s)" n (coq_z a) (coq_z b) (coq_z c), [a]) in
  let z2 n a b = Some (Printf.sprintf "(%s %s %s)" n (coq_z a) (coq_z b), [a]) in
  let z1 n a = Some (Printf.sprintf "(%s %s)" n (coq_z a), [a]) in
  (match op with
   | OpInsert (a, b, c) -> z3 "OpInsert" a b c
   | OpGet a -> z1 "OpGet" a
   | OpGetKeyValue a -> z1 "OpGetKeyValue" a
   | OpContains a -> z1 "OpContains" a
   | OpGetMut (a, b) -> z2 "OpGetMut" a b
   | OpRemove a -> z1 "OpRemove" a
   | OpRemoveEntry a -> z1 "OpRemoveEntry" a
   | OpTryInsert (a, b, c) -> z3 "OpTryInsert" a b c
   | OpEntryOrInsert (a, b, c) -> z3 "OpEntryOrInsert" a b c
   | OpEntryInsert (a, b, c) -> z3 "OpEntryInsert" a b c
   | OpEntryRemove (a, b) -> z2 "OpEntryRemove" a b
   | OpEntryAndModify (a, b, c, d) -> Some (Printf.sprintf "(OpEntryAndModify %s %s %s %s)" (coq_z a) (coq_z b) (coq_z c) (coq_z d), [a])
   | OpEntryDrop (a, b) -> z2 "OpEntryDrop" a b
   | OpClear -> Some ("OpClear", [])
   | OpReserve a -> Some (Printf.sprintf "(OpReserve %s)" (coq_z a), [])
   | OpTryReserve a -> Some (Printf.sprintf "(OpTryReserve %s)" (coq_z a), [])
   | OpShrinkTo a -> Some (Printf.sprintf "(OpShrinkTo %s)" (coq_z a), [])
   | OpShrinkToFit -> Some ("OpShrinkToFit", [])
   | OpRetain (l, b) -> Some (Printf.sprintf "(OpRetain %s %s)" (coq_list coq_z l) (coq_z b), [])
   | OpExtend l -> Some (Printf.sprintf "(OpExtend %s)" (coq_list coq_kv l), List.map (fun (e : kv) -> e.k_id) l)
   | OpDrain n -> Some (Printf.sprintf "(OpDrain %d%%nat)" (int_of_nat n), [])
   | OpExtractIf (l, n) -> Some (Printf.sprintf "(OpExtractIf %s %d%%nat)" (coq_list coq_z l) (int_of_nat n), [])
   | OpIter -> Some ("OpIter", [])
   | OpIterFold n -> Some (Printf.sprintf "(OpIterFold %d%%nat)" (int_of_nat n), [])
   | OpLen -> Some ("OpLen", [])
   | OpCapacity -> Some ("OpCapacity", [])
   | OpDropMap -> Some ("OpDropMap", [])
   | OpSetInsert (a, b) -> z2 "OpSetInsert" a b
   | OpSetReplace (a, b) -> z2 "OpSetReplace" a b
   | OpSetTake a -> z1 "OpSetTake" a
   | OpSetRemove a -> z1 "OpSetRemove" a
   | OpSetToggle (a, b) -> z2 "OpSetToggle" a b
   | _ -> None)
let selftest_out : (out_channel * out_channel) option =
  (match Sys.getenv_opt "HV_SELFTEST" with
   | Some pfx when pfx <> "" -> Some (open_out (pfx ^ ".v"), open_out (pfx ^ ".expected"))
   | _ -> None)
let selftest_count = ref 0
let selftest_max = 40
let selftest_emit (gw : int) (tsize : z) (talign : z) (nd : bool) (gf : bool) (hash_of : z -> z option) (refuse : bool)
      (t : kv table) (op : map_op) (stepno : int) =
  (match selftest_out, coq_op op with
   | Some (cv, ce), Some (optxt, opkeys) when !selftest_count < selftest_max && stepno mod 7 = 3 && List.length t.ctrl <= 300 ->
     incr selftest_count;
     let keys = List.sort_uniq compare (List.map string_of_z (opkeys @ List.concat (List.map (fun o -> match o with Some (e : kv) -> [e.k_id] | None -> []) t.slots))) in
     let hl = List.map (fun ks -> let k = zs ks in (k, hash_of k)) keys in
     let cb b = if b then "true" else "false" in
     if !selftest_count = 1 then
       output_string cv "From Coq Require Import ZArith List.\nImport ListNotations.\nFrom HB Require Import RsPrelude Sse2 Gen Group Raw Map Digest.\nOpen Scope Z_scope.\n";
     Printf.fprintf cv "Eval vm_compute in (map_step_digest %d %s %s %s %s %s %s %s %s).\n" gw (coq_z tsize) (coq_z talign) (cb nd) (cb gf)
       (coq_list (fun (k, h) -> Printf.sprintf "(%s, %s)" (coq_z k) (match h with Some x -> "Some " ^ coq_z x | None -> "None")) hl)
       (cb refuse) (coq_table t) optxt;
     let d = map_step_digest (zi gw) tsize talign nd gf hl refuse t op in
     output_string ce (String.concat " " (List.map string_of_z d) ^ "\n");
     flush cv; flush ce
   | _ -> ())

let () =
  if Sys.argv.(1) = "arith" then (arith_mode Sys.argv.(2); exit 0);
  let file = Sys.argv.(1) in
  let levels = if Array.length Sys.argv > 2 then Sys.argv.(2) else "ABC" in
  let do_a = String.contains levels 'A' and do_b = String.contains levels 'B' and do_c = String.contains levels 'C' in
  let ic = open_in file in
  let lines = ref [] in
  (try while true do lines := input_line ic :: !lines done with End_of_file -> ());
  close_in ic;
  let lines = Array.of_list (List.rev !lines) in
  let cfg = { backend = sse2_backend; gw = 16; tsize = Z0; talign = Z0; needs_drop = true; hashes = []; rule = "mix"; eqrule = "lawful"; coll = "map"; calign = Z0 } in
  let script = ref "" in
  let spec : kv list ref = ref [] in
  let spec_other : kv list ref = ref [] in      (* abstract contents of the set that is not the current target *)
  let tgt = ref "A" in
  let spec_valid = ref true in
  let churn_max = ref 0 and churn_ok = ref true in
  let steps = ref 0 and c_checked = ref 0 and c_skipped = ref 0 and b_checked = ref 0 and a_checked = ref 0 in
  let opcount : (string, int) Hashtbl.t = Hashtbl.create 31 in
  let branch : (string, int) Hashtbl.t = Hashtbl.create 31 in
  let distinct : (string, unit) Hashtbl.t = Hashtbl.create 1024 in
  let bump tbl k = Hashtbl.replace tbl k (1 + (try Hashtbl.find tbl k with Not_found -> 0)) in
  let n = Array.length lines in
  let i = ref 0 in
  let cur_salt = ref "0" in
  let hash_of_salt (salt : string) (panic_key : z option) (k : z) : z option =
    if (match panic_key with Some p -> Z.eqb p k | None -> false) then None else
    let base = (match cfg.rule with
      | "zero" -> Some Z0
      | "max" -> Some (zs "18446744073709551615")
      | _ -> List.assoc_opt (string_of_z k) cfg.hashes) in
    (match base with Some h -> Some (salted salt h) | None -> None) in
  let hash_of (panic_key : z option) (k : z) : z option = hash_of_salt !cur_salt panic_key k in
  let salt_of_line s = (try List.assoc "salt" (kvmap (words s)) with Not_found -> "0") in
  while !i < n do
    let l = lines.(!i) in
    (match strip_prefix "SCRIPT " l with
     | Some s -> script := s; churn_max := 0; churn_ok := true; spec := []; spec_other := []; tgt := "A"; spec_valid := true; cur_salt := "0"; cfg.hashes <- []; cfg.rule <- "mix"; cfg.eqrule <- "lawful"
     | None -> ());
    (match strip_prefix "TGT " l with
     | Some t -> let t = String.trim t in
       if t <> !tgt then begin let x = !spec in spec := !spec_other; spec_other := x; tgt := t end
     | None -> ());
    (match strip_prefix "STEPC " l with
     | Some s when !i + 9 < n ->
       let ws = words s in
       let stepno = List.hd ws and opname = List.nth ws 1 in
       let get p k = (match strip_prefix p lines.(!i + k) with Some a -> a | None -> "") in
       let arm = get "ARM " 1 and pre_s = get "PRE " 2 and preo_s = get "PREO " 3 and ret_s = get "RET " 4 in
       let ev_s = String.trim (get "EV" 5) and post_s = get "POST " 6 and posto_s = get "POSTO " 7 and chk_s = get "CHK " 9 in
       i := !i + 9;
       incr steps;
       churn_ok := false;          (* clone / swap: the table no longer grew through insertions only *)
       bump opcount opname;
       let where = Printf.sprintf "script=%s step=%s op=[%s]" !script stepno opname in
       (try
         let pre = parse_dump pre_s and preo = parse_dump preo_s and post = parse_dump post_s and posto = parse_dump posto_s in
         let tpre = table_of_dump pre and tpreo = table_of_dump preo and tpost = table_of_dump post and tposto = table_of_dump posto in
         let osalt_pre = salt_of_line preo_s and osalt_post = salt_of_line posto_s in
         ignore osalt_pre;
         cur_salt := salt_of_line post_s;
         if chk_s <> "ok" then say "H-FAIL %s: harness check: %s" where chk_s;
         let hf = hash_of None in
         let hasher (e : kv) = hf e.k_id in
         let hasher_o (e : kv) = hash_of_salt osalt_post None e.k_id in
         let unwound = (match strip_prefix "unwind" ret_s with Some _ -> true | None -> false) in
         (* level B on both maps (the other one only when it uses the unsalted plan) *)
         incr b_checked;
         if not (safe_wf_check cfg.backend tpost) then say "B-FAIL %s: post-state violates SafeWF (counters/mirror/shape): %s" where (dump_text post)
         else if not (hash_wf_check cfg.backend hasher tpost) then say "B-FAIL %s: post-state violates Tags/Reach for its hashes (lookups will miss stored elements): %s" where (dump_text post);
         if not (safe_wf_check cfg.backend tposto) then say "B-FAIL %s: clone/other map violates SafeWF: %s" where (dump_text posto)
         else if not (hash_wf_check cfg.backend hasher_o tposto) then say "B-FAIL %s: clone/other map violates Tags/Reach: %s" where (dump_text posto);
         let evtext evs = ev_text evs in
         let ie = (if ev_s = "" then "-" else ev_s) in
         let cmp_table what (t' : kv table) (d : dump) = if table_text t' <> dump_text d then say "C-MISMATCH %s: %s: model [%s] impl [%s]" where what (table_text t') (dump_text d) in
         let same_kv l1 l2 = sorted_kvs l1 = sorted_kvs l2 in
         (match opname with
          | "o_clone" ->
            if arm = "-" then begin
              incr c_checked;
              (match clone_table cfg.backend cfg.tsize cfg.talign (fun e -> Some e) tpre with
               | Fail e -> say "C-MISMATCH %s: model stops with %s" where (err_text e)
               | Ok (Some t', evs) ->
                 cmp_table "clone" t' posto;
                 (* the old `other` is dropped after the clone was built: its events follow *)
                 let me = evtext evs in
                 if not (String.length ie >= String.length me && String.sub ie 0 (String.length me) = me) && me <> "-" then
                   say "C-MISMATCH %s: events: model prefix [%s] impl [%s]" where me ie
               | Ok (None, _) -> say "C-MISMATCH %s: model clone unwound" where)
            end else incr c_skipped;
            incr a_checked;
            if dump_text pre <> dump_text post then say "A-FAIL %s: clone() changed the source" where;
            if not unwound then begin
              if not (same_kv (occupants tposto) (occupants tpre)) then
                say "A-FAIL %s: the clone does not hold the source's elements: clone=[%s] source=[%s]" where
                  (String.concat "," (sorted_kvs (occupants tposto))) (String.concat "," (sorted_kvs (occupants tpre)));
              spec_other := !spec
            end else spec_other := occupants tposto
          | "o_clone_from" ->
            if arm = "-" then begin
              incr c_checked;
              (match clone_from cfg.backend cfg.tsize cfg.talign cfg.needs_drop (fun _ -> true) (fun e -> Some e) tpre tpreo with
               | Fail e -> say "C-MISMATCH %s: model stops with %s" where (err_text e)
               | Ok ((t', evs), _) ->
                 cmp_table "clone_from target" t' post;
                 if evtext evs <> ie then say "C-MISMATCH %s: events: model [%s] impl [%s]" where (evtext evs) ie)
            end else incr c_skipped;
            incr a_checked;
            if dump_text preo <> dump_text posto then say "A-FAIL %s: clone_from changed the source" where;
            if not unwound then begin
              if not (same_kv (occupants tpost) (occupants tpreo)) then
                say "A-FAIL %s: after clone_from the target does not equal the source: target=[%s] source=[%s]" where
                  (String.concat "," (sorted_kvs (occupants tpost))) (String.concat "," (sorted_kvs (occupants tpreo)));
              spec := occupants tpost
            end else begin
              (* C04: after unwinding, whatever is stored must come from the old target or the source *)
              let pool = occupants tpre @ occupants tpreo in
              List.iter (fun (e : kv) -> if not (List.exists (fun (x : kv) -> kv_text x = kv_text e) pool) then
                            say "A-FAIL %s: element %s appeared from nowhere after the unwound clone_from" where (kv_text e)) (occupants tpost);
              spec := occupants tpost
            end
          | "o_swap" ->
            let x = !spec in spec := !spec_other; spec_other := x
          | "o_salt" -> spec_other := []
          | "o_eq" when unwound -> ()
          | "o_eq" ->
            incr c_checked; incr a_checked;
            let mb = map_eq (occupants tpre) (occupants tpreo) in
            let expect = if mb then "bool 1" else "bool 0" in
            if ret_s <> expect then say "C-MISMATCH %s: model [%s] impl [%s]" where expect ret_s;
            (* mathematical equality from the abstract contents *)
            let ka l = List.sort compare (List.map (fun (e : kv) -> (string_of_z e.k_id, string_of_z e.v_val)) l) in
            let math = (ka !spec = ka !spec_other) in
            if ret_s <> (if math then "bool 1" else "bool 0") then say "A-FAIL %s: == returned [%s] but the maps %s hold the same keys with equal values" where ret_s (if math then "do" else "do not")
          | o -> say "D-ERROR %s: unknown clone-family op %s" where o);
         if not (Z.eqb tpost.items (zi (List.length (occupants tpost)))) then
           say "A-FAIL %s: len()=%s but %d elements are stored" where (string_of_z tpost.items) (List.length (occupants tpost));
         bump branch ("clone_family_" ^ (if int_of_nat tpre.mask = int_of_nat tpreo.mask then "same_buckets" else if int_of_nat tpre.mask < int_of_nat tpreo.mask then "target_smaller" else "target_larger"));
         Hashtbl.replace distinct (opname ^ "|" ^ pre_s ^ "|" ^ preo_s ^ "|" ^ arm) ()
       with
       | Failure m -> say "D-ERROR %s: driver failure %s" where m
       | Not_found -> say "D-ERROR %s: driver parse failure" where)
     | _ -> ());
    (match strip_prefix "STEP2 " l with
     | Some s when !i + 8 < n ->
       (* binary set operation: A op B *)
       if !tgt <> "A" then begin let x = !spec in spec := !spec_other; spec_other := x; tgt := "A" end;
       let ws = words s in
       let stepno = List.hd ws and opname = List.nth ws 1 in
       let get p k = (match strip_prefix p lines.(!i + k) with Some a -> a | None -> "") in
       let arm = get "ARM " 1 and prea_s = get "PREA " 2 and preb_s = get "PREB " 3 and ret_s = get "RET " 4 in
       let ev_s = String.trim (get "EV" 5) and post_s = get "POST " 6 and postb_s = get "POSTB " 7 and chk_s = get "CHK " 8 in
       i := !i + 8;
       incr steps;
       bump opcount opname;
       let where = Printf.sprintf "script=%s step=%s op=[%s]" !script stepno opname in
       cur_salt := salt_of_line prea_s;            (* the left operand's hasher state (the two sets may differ) *)
       (try
         let prea = parse_dump prea_s and preb = parse_dump preb_s and post = parse_dump post_s and postb = parse_dump postb_s in
         let ta = table_of_dump prea and tb = table_of_dump preb and tpost = table_of_dump post in
         let la = occupants ta and lb = occupants tb in
         if chk_s <> "ok" then say "H-FAIL %s: harness check: %s" where chk_s;
         if dump_text preb <> dump_text postb then say "A-FAIL %s: the right-hand set changed" where;
         let key (e : kv) = e.k_id in
         let lawful = not (is_calldep cfg.rule) && cfg.eqrule = "lawful" in
         let hasher (e : kv) = hash_of None e.k_id in
         if do_b then begin
           incr b_checked;
           if not (safe_wf_check cfg.backend tpost) then say "B-FAIL %s: post-state violates SafeWF: %s" where (dump_text post)
           else if lawful && not (hash_wf_check cfg.backend hasher tpost) then say "B-FAIL %s: post-state violates Tags/Reach: %s" where (dump_text post)
         end;
         let listret l = "list " ^ (if l = [] then "-" else String.concat "," (List.map kv_text l)) in
         let zcmp a b = if Z.eqb a b then 0 else if Z.ltb a b then -1 else 1 in
         let kvcmp (x : kv) (y : kv) = let c = zcmp x.k_id y.k_id in if c <> 0 then c else zcmp x.k_stamp y.k_stamp in
         let setret l = "set " ^ (if l = [] then "-" else String.concat "," (List.map kv_text (List.sort kvcmp l))) in
         let boolret b = if b then "bool 1" else "bool 0" in
         let in_l (e : kv) l = List.exists (fun (x : kv) -> Z.eqb x.k_id e.k_id) l in
         (* mathematical results from the abstract contents (level A) *)
         (* `self <op>`: the set paired with itself (identical dumps: identical contents either way) *)
         let sa = !spec and sb = (if prea_s = preb_s then !spec else !spec_other) in
         let m_union = sa @ List.filter (fun e -> not (in_l e sa)) sb in
         let m_inter = List.filter (fun e -> in_l e sb) sa in
         let m_diff = List.filter (fun e -> not (in_l e sb)) sa in
         let m_sym = m_diff @ List.filter (fun e -> not (in_l e sa)) sb in
         let keys l = List.sort compare (List.map (fun (e : kv) -> string_of_z e.k_id) l) in
         let same_keys l1 l2 = keys l1 = keys l2 in
         let parse_list s = (match parse_out s with Some (OutList l) -> Some l | _ -> None) in
         let unchanged () = if dump_text prea <> dump_text post then say "A-FAIL %s: a read-only operation changed the set" where in
         let check_list (modelseq : kv list) (math : kv list) =
           unchanged ();
           incr c_checked;
           if do_c && ret_s <> listret modelseq then say "C-MISMATCH %s: model [%s] impl [%s]" where (listret modelseq) ret_s;
           incr a_checked;
           (match parse_list ret_s with
            | Some l ->
              if not (same_keys l math) || List.length l <> List.length math then
                say "A-FAIL %s: result is not the mathematical set: expected keys [%s] got [%s]" where (String.concat "," (keys math)) (String.concat "," (keys l))
            | None -> say "A-FAIL %s: unparsable result [%s]" where ret_s) in
         let check_bool (modelb : bool) (math : bool) =
           unchanged ();
           incr c_checked; incr a_checked;
           if do_c && ret_s <> boolret modelb then say "C-MISMATCH %s: model [%s] impl [%s]" where (boolret modelb) ret_s;
           if ret_s <> boolret math then say "A-FAIL %s: expected %s got [%s]" where (boolret math) ret_s in
         let subset x y = List.for_all (fun e -> in_l e y) x in
         let check_par_list (math : kv list) =
           unchanged ();
           incr c_skipped; incr a_checked;
           (match parse_list ret_s with
            | Some l ->
              if not (same_keys l math) || List.length l <> List.length math then
                say "A-FAIL %s: parallel result is not the mathematical set: expected keys [%s] got [%s]" where (String.concat "," (keys math)) (String.concat "," (keys l));
              (* every delivered object is stored in one of the two sets *)
              List.iter (fun (e : kv) -> if not (List.exists (fun (x : kv) -> kv_text x = kv_text e) (la @ lb)) then
                            say "A-FAIL %s: delivered element %s is stored in neither set" where (kv_text e)) l
            | None -> say "A-FAIL %s: unparsable result [%s]" where ret_s) in
         let check_par_bool (math : bool) =
           unchanged ();
           incr c_skipped; incr a_checked;
           if ret_s <> boolret math then say "A-FAIL %s: expected %s got [%s]" where (boolret math) ret_s in
         let check_newset (modell : kv list) (math : kv list) =
           unchanged ();
           incr c_checked; incr a_checked;
           if do_c && ret_s <> setret modell then say "C-MISMATCH %s: model [%s] impl [%s]" where (setret modell) ret_s;
           let got = (match strip_prefix "set " ret_s with Some "-" -> [] | Some r -> List.map parse_kv3 (String.split_on_char ',' r) | None -> []) in
           if not (same_keys got math) then say "A-FAIL %s: operator result is not the mathematical set: expected keys [%s] got [%s]" where (String.concat "," (keys math)) (String.concat "," (keys got)) in
         let check_assign (op2 : set2_op) (math : kv list) =
           incr a_checked;
           let contents = occupants tpost in
           if not (same_keys contents math) then
             say "A-FAIL %s: contents after the assigning operator are not the mathematical set: expected keys [%s] got [%s]" where (String.concat "," (keys math)) (String.concat "," (keys contents));
           spec := contents;
           if do_c && lawful && arm = "-" then begin
             incr c_checked;
             (match set2_step cfg.backend cfg.tsize cfg.talign cfg.needs_drop rehash_guard_unconditional (hash_of None) false ta lb op2 with
              | Fail e -> say "C-MISMATCH %s: model stops with %s" where (err_text e)
              | Ok ((t', o), evs) ->
                if table_text t' <> dump_text post then say "C-MISMATCH %s: post-state: model [%s] impl [%s]" where (table_text t') (dump_text post);
                let me = ev_text evs and ie = (if ev_s = "" then "-" else ev_s) in
                if me <> ie then say "C-MISMATCH %s: events: model [%s] impl [%s]" where me ie)
           end in
         (match opname with
          | "union" -> check_list (union key la lb) m_union
          | "intersection" -> check_list (intersection key la lb) m_inter
          | "difference" -> check_list (difference key la lb) m_diff
          | "symdiff" -> check_list (symmetric_difference key la lb) m_sym
          | "is_subset" -> check_bool (is_subset key la lb) (subset sa sb)
          | "is_superset" -> check_bool (is_superset key la lb) (subset sb sa)
          | "is_disjoint" -> check_bool (is_disjoint key la lb) (m_inter = [])
          | "eq" -> check_bool (set_eq key la lb) (subset sa sb && subset sb sa)
          | "bitor" -> check_newset (union key la lb) m_union
          | "bitand" -> check_newset (intersection key la lb) m_inter
          | "bitxor" -> check_newset (symmetric_difference key la lb) m_sym
          | "sub" -> check_newset (difference key la lb) m_diff
          | "or_assign" -> check_assign OpOrAssign m_union
          | "and_assign" -> check_assign OpAndAssign m_inter
          | "xor_assign" -> check_assign OpXorAssign m_sym
          | "sub_assign" -> check_assign OpSubAssign m_diff
          (* rayon (C19): no step model; the result as a set / the predicate against the reference sets *)
          | "spar_union" -> check_par_list m_union
          | "spar_intersection" -> check_par_list m_inter
          | "spar_difference" -> check_par_list m_diff
          | "spar_symmetric_difference" -> check_par_list m_sym
          | "spar_is_subset" -> check_par_bool (subset sa sb)
          | "spar_is_superset" -> check_par_bool (subset sb sa)
          | "spar_is_disjoint" -> check_par_bool (m_inter = [])
          | "spar_eq" -> check_par_bool (subset sa sb && subset sb sa)
          | o -> say "D-ERROR %s: unknown binary op %s" where o);
         if List.length la <= List.length lb then bump branch "set_a_smaller_or_equal" else bump branch "set_a_larger";
         Hashtbl.replace distinct (opname ^ "|" ^ prea_s ^ "|" ^ preb_s) ()
       with
       | Failure m -> say "D-ERROR %s: driver failure %s" where m
       | Not_found -> say "D-ERROR %s: driver parse failure" where)
     | _ -> ());
    (match strip_prefix "CFG " l with
     | Some s ->
       let m = kvmap (words s) in
       cfg.gw <- int_of_string (List.assoc "gw" m);
       cfg.coll <- List.assoc "coll" m;
       cfg.calign <- zs (List.assoc "calign" m);
       cfg.backend <- (if cfg.gw = 16 then sse2_backend else generic_backend);
       cfg.tsize <- zs (List.assoc "tsize" m); cfg.talign <- zs (List.assoc "talign" m);
       cfg.needs_drop <- (List.assoc "needs_drop" m = "1")
     | None -> ());
    (match strip_prefix "DIR " l with
     | Some s -> (match words s with
         | ["hash"; k; h] -> cfg.hashes <- (k, zs h) :: List.remove_assoc k cfg.hashes
         | ["hashrule"; r] -> cfg.rule <- r
         | ["eqrule"; r] -> cfg.eqrule <- r
         | _ -> ())
     | None -> ());
    (match strip_prefix "STEP " l with
     | Some s when !i + 6 < n && cfg.coll = "table" ->
       let ws = words s in
       let stepno = List.hd ws and opws = List.tl ws in
       let get p k = (match strip_prefix p lines.(!i + k) with Some a -> a | None -> "") in
       let arm = get "ARM " 1 and pre_s = get "PRE " 2 and ret_s = get "RET " 3 in
       let ev_s = String.trim (get "EV" 4) and post_s = get "POST " 5 and chk_s = get "CHK " 6 in
       i := !i + 6;
       incr steps;
       let where = Printf.sprintf "script=%s step=%s op=[%s]" !script stepno (String.concat " " opws) in
       (try
         let op = parse_top opws in
         (* rayon operations (C19): no step model (the delivery order is the scheduler's choice); judged
            against the reference multiset (A) like their sequential counterparts and by the invariant (B) *)
         let topname = List.hd opws in
         let is_tpar = List.mem topname ["tpar_iter"; "tpar_iter_mut"; "tinto_par_iter"; "tpar_drain"; "tintoiter"] in
         let op = (match topname, op with
           | "tpar_iter_mut", TRetain (_, add) -> TRetain (List.map (fun (e : kv) -> e.k_id) (occupants (table_of_dump (parse_dump pre_s))), add)
           | ("tinto_par_iter" | "tpar_drain" | "tintoiter"), _ ->
             (match parse_tout ret_s with Some (TOutList l) -> TDrain (nat_of_int (List.length l)) | _ -> op)
           | _ -> op) in
         (* 1- and 2-byte elements carry only their id (stamp and value are 0); zero-sized elements
            carry nothing, and the harness' rehash hasher cannot recover the hash they were
            inserted with: for those only the safety invariant is judged *)
         let tiny = Z.leb cfg.tsize (zi 3) in
         let op = if not tiny then op else (match op with
           | TFindMut (hk, p, _) -> TFindMut (hk, p, Z0)
           | TRemoveReinsert (hk, p, _, _) -> TRemoveReinsert (hk, p, Z0, Z0)
           | TEntryInsert (k, _, _) -> TEntryInsert (k, Z0, Z0)
           | TEntryOrInsert (k, _, _) -> TEntryOrInsert (k, Z0, Z0)
           | TInsertUnique (k, _, _) -> TInsertUnique (k, Z0, Z0)
           | TRetain (keep, _) -> TRetain (keep, Z0)
           | TGetManyMut (r, _) -> TGetManyMut (r, Z0)
           | o -> o) in
         bump opcount (List.hd opws);
         let pre = parse_dump pre_s and post = parse_dump post_s in
         let tpre = table_of_dump pre and tpost = table_of_dump post in
         if chk_s <> "ok" then say "H-FAIL %s: harness check: %s" where chk_s;
         List.iter (fun fl -> if List.mem fl post.d_flags then say "H-FAIL %s: %s" where fl) ["MISALIGNED_CTRL"; "MISALIGNED_SLOT"; "SLOT_OUT_OF_BLOCK"];
         addr_tie (fun m -> incr findings; print_endline m) where cfg.tsize cfg.talign post_s;
         capacity_oracles (fun m -> incr findings; print_endline m) where cfg.gw cfg.tsize cfg.calign opws pre post ret_s ev_s arm churn_max churn_ok;
         let armws = List.map words (String.split_on_char ';' arm) in
         let panic_key = List.fold_left (fun acc w -> match w with ["hashpanic_key"; k] -> Some (zs k) | _ -> acc) None armws in
         let refuse = List.exists (fun w -> w = ["refuse_nth"; "0"]) armws in
         let other_arm = List.exists (fun w -> match w with [] | ["-"] | ["hashpanic_key"; _] | ["refuse_nth"; "0"] -> false | _ -> true) armws in
         let zst = Z.eqb cfg.tsize Z0 in
         let lawful = not (is_calldep cfg.rule) && cfg.eqrule = "lawful" && not zst in
         let hf = hash_of None in
         let hasher (e : kv) = hf e.k_id in
         let ret = parse_tout ret_s in
         let is_libpanic = (match strip_prefix "libpanic" ret_s with Some _ -> ret = None | None -> false) in
         if is_libpanic then say "A-FAIL %s: the library panicked: %s" where ret_s;
         if do_b then begin
           incr b_checked;
           if not (safe_wf_check cfg.backend tpost) then say "B-FAIL %s: post-state violates SafeWF (counters/mirror/shape): %s" where (dump_text post)
           else if lawful && not (hash_wf_check cfg.backend hasher tpost) then say "B-FAIL %s: post-state violates Tags/Reach for its hashes: %s" where (dump_text post)
         end;
         let huge = (match op with
           | TReserve n | TTryReserve n | TShrinkTo n | TWithCapacity n -> Z.ltb (zs "16777216") n
           | _ -> false) in
         if huge then bump branch "huge_capacity_request";
         if do_c && lawful && not other_arm && not is_libpanic && not huge && not is_tpar && topname = "tclone" then begin
           (* HashTable::clone, the clone installed and the original dropped: Model/Clone.v clone_table, then the drop *)
           incr c_checked;
           bump branch "table_clone_model";
           (match clone_table cfg.backend cfg.tsize cfg.talign (fun e -> Some e) tpre,
                  table_step cfg.backend cfg.tsize cfg.talign cfg.needs_drop rehash_guard_unconditional (hash_of panic_key) refuse tpre TDropTable with
            | Ok (Some t', evs1), Ok (_, evs2) ->
              if table_text t' <> dump_text post then say "C-MISMATCH %s: clone: model [%s] impl [%s] pre [%s]" where (table_text t') (dump_text post) (dump_text pre);
              let strip_r e = (let ws = List.filter (fun w -> not (String.length w > 2 && String.sub w 0 2 = "R:")) (words e) in if ws = [] then "-" else String.concat " " ws) in
              let me = ev_text (evs1 @ evs2) and ie = strip_r (if ev_s = "" then "-" else ev_s) in
              if me <> ie then say "C-MISMATCH %s: events of clone + drop of the original: model [%s] impl [%s]" where me ie
            | Fail e, _ | _, Fail e -> say "C-MISMATCH %s: model (clone_table) stops with %s" where (err_text e)
            | Ok (None, _), _ -> say "C-MISMATCH %s: model clone unwound" where)
         end
         else if do_c && lawful && not other_arm && not is_libpanic && not huge && not is_tpar then begin
           incr c_checked;
           (match table_step cfg.backend cfg.tsize cfg.talign cfg.needs_drop rehash_guard_unconditional (hash_of panic_key) refuse tpre op with
            | Fail e -> say "C-MISMATCH %s: model stops with %s but the implementation returned [%s]; pre=%s" where (err_text e) ret_s (dump_text pre)
            | Ok ((t', o), evs) ->
              (* zero-sized elements: every bucket address coincides, so get_many_mut's duplicate check
                 fires on distinct entries (known finding F2); the model has no addresses *)
              let zst_dup = zst && (match op with TGetManyMut _ -> true | _ -> false) in
              if not zst_dup then begin
                let mt = table_text t' and it = dump_text post in
                if mt <> it then say "C-MISMATCH %s: post-state: model [%s] impl [%s] pre [%s]" where mt it (dump_text pre);
                let mo = tout_text o and io = (match ret with Some r -> tout_text r | None -> ret_s) in
                if mo <> io then say "C-MISMATCH %s: return value: model [%s] impl [%s]" where mo io;
                let strip_r e = (let ws = List.filter (fun w -> not (String.length w > 2 && String.sub w 0 2 = "R:")) (words e) in if ws = [] then "-" else String.concat " " ws) in
                let me = ev_text evs and ie = strip_r (if ev_s = "" then "-" else ev_s) in
                if me <> ie then say "C-MISMATCH %s: events: model [%s] impl [%s]" where me ie
              end;
              if List.exists (fun b -> Z.eqb b (zi 128)) t'.ctrl then bump branch "tombstones_present";
              if Z.eqb tpre.growth_left Z0 then bump branch "pre_growth_left_0";
              (match op with TGetManyMut (r, _) when List.length r >= 2 -> bump branch "get_many_mut_2plus" | TRemoveReinsert _ -> bump branch "remove_reinsert" | TIterHash _ -> bump branch "iter_hash" | _ -> ()))
         end else incr c_skipped;
         if do_a && lawful && !spec_valid then begin
           incr a_checked;
           let contents = occupants tpost in
           (match ret with
            | Some TOutUnwind -> spec := contents
            | Some r ->
              if not (tspec_accepts hf !spec op r contents) then
                say "A-FAIL %s: the reference multiset rejects result [%s] / contents [%s] (reference contents [%s])" where ret_s
                  (String.concat "," (sorted_kvs contents)) (String.concat "," (sorted_kvs !spec));
              spec := contents
            | None -> if not is_libpanic then say "A-FAIL %s: unparsable result [%s]" where ret_s; spec := contents);
           if not (Z.eqb tpost.items (zi (List.length contents))) then
             say "A-FAIL %s: len()=%s but %d elements are stored" where (string_of_z tpost.items) (List.length contents)
         end;
         (* branch bookkeeping from the implementation's own dumps: an in-place rehash of a HashTable *)
         if tpost.mask = tpre.mask && tpre.mask <> nat_of_int 0 && Z.ltb (Z.add tpre.growth_left (zi 1)) tpost.growth_left
            && List.mem topname ["tinsertunique"; "tentryinsert"; "tentryorinsert"; "treserve"; "ttryreserve"]
         then bump branch "in_place_rehash_seen";
         if List.exists (fun b -> Z.eqb b (zi 128)) tpost.ctrl then bump branch "tombstones_present";
         Hashtbl.replace distinct (String.concat " " opws ^ "|" ^ pre_s ^ "|" ^ arm) ()
       with
       | Stack_overflow -> say "C-MISMATCH %s: model evaluation overflowed the stack" where
       | Failure m -> say "D-ERROR %s: driver failure %s" where m
       | Not_found -> say "D-ERROR %s: driver parse failure" where)
     | Some s when !i + 6 < n ->
       let ws = words s in
       let stepno = List.hd ws in
       let opws = List.tl ws in
       let arm = (match strip_prefix "ARM " lines.(!i + 1) with Some a -> a | None -> "-") in
       let pre_s = (match strip_prefix "PRE " lines.(!i + 2) with Some a -> a | None -> "") in
       let ret_s = (match strip_prefix "RET " lines.(!i + 3) with Some a -> a | None -> "") in
       let ev_s = (match strip_prefix "EV" lines.(!i + 4) with Some a -> String.trim a | None -> "") in
       let post_s = (match strip_prefix "POST " lines.(!i + 5) with Some a -> a | None -> "") in
       let chk_s = (match strip_prefix "CHK " lines.(!i + 6) with Some a -> a | None -> "ok") in
       i := !i + 6;
       incr steps;
       cur_salt := salt_of_line pre_s;
       let where = Printf.sprintf "script=%s step=%s op=[%s]" !script stepno (String.concat " " opws) in
       (try
         let op0 = parse_op opws in
         bump opcount (List.hd opws);
         let pre = parse_dump pre_s and post = parse_dump post_s in
         let tpre = table_of_dump pre and tpost = table_of_dump post in
         let opname = List.hd opws in
         let big = List.mem "BIG" pre.d_flags || List.mem "BIG" post.d_flags in
         if big then bump branch "table_too_big_to_dump";
         let do_b = do_b && not big and do_c = do_c && not big and do_a = do_a && not big in
         let is_serde = String.length opname >= 6 && String.sub opname 0 6 = "serde_" in
         let is_par = (String.length opname >= 4 && String.sub opname 0 4 = "par_") || opname = "into_par_iter" || List.mem opname ["intoiter"; "intokeys"; "intovalues"; "intoiterfold"; "intokeysfold"; "intovaluesfold"] || is_serde || opname = "getmanymut"
                      || opname = "from_par_iter" || List.mem opname ["spar_iter"; "sinto_par_iter"; "spar_drain"; "spar_extend"] in
         let own_rule = opname = "from_par_iter" || opname = "par_eq" in
         if opname = "serde_de" then
           (match words ev_s with
            | first :: _ when String.length first > 2 && String.sub first 0 2 = "A:" ->
              let sz = int_of_string (List.nth (String.split_on_char ':' first) 1) in
              let bound = 8192 * (int_of_string (string_of_z cfg.tsize)) + 8192 + 64 in
              if sz > bound then say "A-FAIL %s: pre-allocation of %d bytes for a claimed size hint (bound %d)" where sz bound
            | _ -> ());
         if opname = "serde_de" && not big then begin
           let hint = (match List.nth opws 1 with "none" -> None | h -> Some (zs h)) in
           let err_at = (match List.nth opws 2 with "-" -> None | p -> Some (nat_of_int (int_of_string p))) in
           let items = List.map parse_kv3 (List.filteri (fun j _ -> j >= 3) opws) in
           incr c_checked;
           (match deser_map cfg.backend cfg.tsize cfg.talign cfg.needs_drop rehash_guard_unconditional (hash_of_salt "0" None) hint items err_at with
            | Fail e -> say "C-MISMATCH %s: model stops with %s" where (err_text e)
            | Ok (r, evs) ->
              (match r with
               | Some t' ->
                 if ret_s <> "unit" then say "C-MISMATCH %s: model succeeds, impl returned [%s]" where ret_s;
                 if table_text t' <> dump_text post then say "C-MISMATCH %s: deserialized map: model [%s] impl [%s]" where (table_text t') (dump_text post)
               | None ->
                 if ret_s <> "err" then say "C-MISMATCH %s: model reports the input error, impl returned [%s]" where ret_s;
                 if dump_text pre <> dump_text post then say "A-FAIL %s: a failed deserialization changed the existing map" where);
              let me = ev_text evs and ie = (if ev_s = "" then "-" else ev_s) in
              if me <> ie then say "C-MISMATCH %s: events: model [%s] impl [%s]" where me ie);
           (* level A: last value wins, first key object kept; bounded pre-allocation *)
           incr a_checked;
           let fails = (match err_at with Some p -> int_of_nat p <= List.length items | None -> false) in
           if not fails then begin
             let want = List.fold_left (fun acc (e : kv) -> insert_like acc e.k_id e.k_stamp e.v_val) [] items in
             if sorted_kvs want <> sorted_kvs (occupants tpost) then
               say "A-FAIL %s: deserialized contents are not `last value per key`: expected [%s] got [%s]" where
                 (String.concat "," (sorted_kvs want)) (String.concat "," (sorted_kvs (occupants tpost)));
             spec := occupants tpost
           end;
           bump branch (if fails then "serde_error_path" else "serde_ok_path")
         end;
         if opname = "getmanymut" && not (is_calldep cfg.rule) && cfg.eqrule = "lawful" && not big then begin
           (* HashMap::get_many_mut = RawTable::get_many_mut with key-equality closures: the HashTable model *)
           let add = zs (List.nth opws 1) in
           let keys = List.map zs (List.filteri (fun j _ -> j >= 2) opws) in
           let top = TGetManyMut (List.map (fun k -> (k, PId k)) keys, add) in
           let tret = parse_tout ret_s in
           if arm = "-" then begin
             incr c_checked;
             (match table_step cfg.backend cfg.tsize cfg.talign cfg.needs_drop rehash_guard_unconditional (hash_of None) false tpre top with
              | Fail e -> say "C-MISMATCH %s: model stops with %s" where (err_text e)
              | Ok ((t', o), _) ->
                if table_text t' <> dump_text post then say "C-MISMATCH %s: post-state: model [%s] impl [%s]" where (table_text t') (dump_text post);
                let mo = tout_text o and io = (match tret with Some r -> tout_text r | None -> ret_s) in
                if mo <> io then say "C-MISMATCH %s: return value: model [%s] impl [%s]" where mo io)
           end;
           incr a_checked;
           (match tret with
            | Some TOutUnwind -> ()
            | Some r ->
              if not (tspec_accepts (hash_of None) !spec top r (occupants tpost)) then
                say "A-FAIL %s: the reference rejects result [%s] / contents [%s] (reference contents [%s])" where ret_s
                  (String.concat "," (sorted_kvs (occupants tpost))) (String.concat "," (sorted_kvs !spec));
              (* N results in request order: present keys -> their own entry, absent -> none *)
              (match r with
               | TOutOpts os ->
                 List.iteri (fun j (k : z) -> match List.nth_opt os j with
                   | Some (Some e) -> if not (Z.eqb e.k_id k) then say "A-FAIL %s: request %d (key %s) returned the entry of key %s" where j (string_of_z k) (string_of_z e.k_id)
                   | Some None -> if List.exists (fun (x : kv) -> Z.eqb x.k_id k) !spec then say "A-FAIL %s: request %d: key %s is present but None was returned" where j (string_of_z k)
                   | None -> say "A-FAIL %s: fewer results than requests" where) keys
               | TOutLibPanic ->
                 let present = List.filter (fun k -> List.exists (fun (x : kv) -> Z.eqb x.k_id k) !spec) keys in
                 if List.length (List.sort_uniq compare (List.map string_of_z present)) = List.length present then
                   say "A-FAIL %s: get_many_mut panicked although no two requests name the same present key" where
               | _ -> ())
            | None -> say "A-FAIL %s: unparsable result [%s]" where ret_s);
           spec := occupants tpost;
           bump branch (Printf.sprintf "get_many_mut_%d" (List.length keys))
         end;
         if opname = "serde_roundtrip" then begin
           incr a_checked;
           if ret_s <> "bool 1" then say "A-FAIL %s: serialize + deserialize did not yield an equal map: [%s]" where ret_s
         end;
         (* rayon operations are judged against the reference map (A) and the invariant (B); the
            delivery order is the scheduler's choice, so there is no step model for them *)
         let op = (match opname, op0 with
           | ("par_iter_mut" | "par_values_mut"), OpRetain (_, add) -> OpRetain (List.map (fun (e : kv) -> e.k_id) (occupants tpre), add)
           | "par_drain", _ | "into_par_iter", _ | "spar_drain", _ | "sinto_par_iter", _ | "intoiter", _ | "intokeys", _ | "intovalues", _ | "intoiterfold", _ | "intokeysfold", _ | "intovaluesfold", _ | "drainfold", _ ->
             (match parse_out ret_s with Some (OutList l) -> OpDrain (nat_of_int (List.length l)) | _ -> op0)
           | _ -> op0) in
         if chk_s <> "ok" then say "H-FAIL %s: harness check: %s" where chk_s;
         if List.mem "MISALIGNED_CTRL" post.d_flags then say "H-FAIL %s: control bytes misaligned" where;
         addr_tie (fun m -> incr findings; print_endline m) where cfg.tsize cfg.talign post_s;
         if !tgt = "A" || cfg.coll <> "set" then
           capacity_oracles (fun m -> incr findings; print_endline m) where cfg.gw cfg.tsize cfg.calign opws pre post ret_s ev_s arm churn_max churn_ok;
         if opname = "par_split" then begin
           (* level C for the splitting itself: every leaf of the caller-chosen split tree *)
           let dec = (match opws with [_; bits] -> List.init (String.length bits) (fun i -> bits.[i] = '1') | _ -> []) in
           incr c_checked;
           (match split_leaves cfg.backend tpre dec with
            | Fail e -> say "C-MISMATCH %s: model split stops with %s" where (err_text e)
            | Ok ls ->
              let txt = "leaves " ^ (if ls = [] then "-" else String.concat "|" (List.map (fun l ->
                  if l = [] then "_" else String.concat "," (List.map (fun x -> string_of_int (int_of_nat x)) l)) ls)) in
              if txt <> ret_s then say "C-MISMATCH %s: leaves: model [%s] impl [%s]" where txt ret_s;
              bump branch (Printf.sprintf "split_leaves_%d" (min 9 (List.length ls))));
           (* level A: the leaves partition the FULL buckets *)
           let impl_leaves = (match strip_prefix "leaves " ret_s with
             | Some "-" -> [] | Some r -> List.map (fun l -> if l = "_" then [] else List.map int_of_string (String.split_on_char ',' l)) (String.split_on_char '|' r)
             | None -> []) in
           let all = List.sort compare (List.concat impl_leaves) in
           let full = List.sort compare (List.map fst pre.d_slots) in
           incr a_checked;
           if all <> full then say "A-FAIL %s: the leaves of the split tree do not deliver every stored element exactly once: delivered buckets [%s] stored [%s]" where
               (String.concat "," (List.map string_of_int all)) (String.concat "," (List.map string_of_int full))
         end;
         (* arms *)
         let armws = List.map words (String.split_on_char ';' arm) in
         let panic_key = List.fold_left (fun acc w -> match w with ["hashpanic_key"; k] -> Some (zs k) | _ -> acc) None armws in
         let refuse = List.exists (fun w -> w = ["refuse_nth"; "0"]) armws in
         let other_arm = List.exists (fun w -> match w with
           | [] | ["-"] | ["hashpanic_key"; _] | ["refuse_nth"; "0"] -> false | _ -> true) armws in
         (* a single armed closure panic on retain / extract_if is modelled (Model/PanicOps.v): level C
            then runs m_retain_p / m_extract_p with the closure that panics on the k-th visited element *)
         let pred_panic = (match armws with
           | [["predpanic_nth"; k]] when List.mem opname ["retain"; "extractif"] -> (try Some (int_of_string k) with _ -> None)
           | _ -> None) in
         (* a panicking Into conversion in the entry_ref API is modelled (Model/PanicOps2.v) *)
         let into_panic = (armws = [["intopanic"]]) && List.mem opname ["eref_or_insert"; "eref_insert"; "eref_drop"] in
         (* ... and so is a panicking closure handed to an entry method (replace_entry_with family, and_modify) *)
         let entry_closure_panic = (armws = [["predpanic_nth"; "0"]]) &&
           List.mem opname ["entry_replace"; "entry_and_replace"; "raw_replace"; "raw_and_replace"; "entry_and_modify"] in
         let other_arm = other_arm && pred_panic = None && not into_panic && not entry_closure_panic in
         let lawful = not (is_calldep cfg.rule) && cfg.eqrule = "lawful" in
         let hf = hash_of None in
         let hasher (e : kv) = hf e.k_id in
         let is_libpanic = (match strip_prefix "libpanic" ret_s with Some _ -> parse_out ret_s = None && opname <> "getmanymut" | None -> false) in
         if is_libpanic then say "A-FAIL %s: the library panicked: %s" where ret_s;
         let ret = parse_out ret_s in
         if ret = Some OutUnwind then bump branch ("unwound_" ^ (match armws with (a :: _) :: _ -> a | _ -> "op"));
         (* branch bookkeeping from the implementation's own dumps (also when level C is off) *)
         if tpost.mask = tpre.mask && tpre.mask <> nat_of_int 0 && Z.ltb (Z.add tpre.growth_left (zi 1)) tpost.growth_left
            && List.mem opname ["insert"; "reserve"; "tryreserve"; "entry_or_insert"; "entry_insert"; "tryinsert"; "extend"; "entry_and_modify";
                                "rentry_or_insert"; "rentry_insert"; "rentry_drop"; "raw_or_insert"; "raw_insert"; "eref_or_insert"; "eref_insert"]
         then bump branch (if lawful then "in_place_rehash_seen" else "in_place_rehash_unlawful_hasher");
         if tpost.mask <> tpre.mask && tpre.mask <> nat_of_int 0 && tpost.mask <> nat_of_int 0 && not lawful then bump branch "resize_unlawful_hasher";
         (* the raw entry API trusts its caller: inserting through a vacant entry a key that IS stored (raw_rename
            with a second key that is present; raw_hash_insert searching a present key under another key's hash)
            is a caller error that stores the key twice.  The generators avoid it, but their view of the contents
            can be stale (after an unwound operation): such a step is judged for safety only, and the reference
            map is switched off for the rest of the script. *)
         let stored k = List.exists (fun (e : kv) -> Z.eqb e.k_id k) (occupants tpre) in
         let caller_error =
           (opname = "raw_rename" && (let k1 = zs (List.nth opws 1) and k2 = zs (List.nth opws 3) in not (Z.eqb k1 k2) && stored k2))
           || (opname = "raw_hash_insert" && (let hk = zs (List.nth opws 1) and k = zs (List.nth opws 2) in not (Z.eqb hk k) && stored k)) in
         if caller_error then begin bump branch "raw_api_caller_error_skipped"; spec_valid := false end;
         let do_c = do_c && not caller_error in
         (* ---- level B ---- *)
         if do_b then begin
           incr b_checked;
           if not (safe_wf_check cfg.backend tpost) then
             say "B-FAIL %s: post-state violates SafeWF (counters/mirror/shape): %s" where (dump_text post)
           else if lawful && not (hash_wf_check cfg.backend hasher tpost) then
             say "B-FAIL %s: post-state violates Tags/Reach for its hashes: %s" where (dump_text post)
         end;
         (* ---- level C ---- *)
         let huge = (match op with
           | OpReserve n | OpTryReserve n | OpShrinkTo n | OpWithCapacity n -> Z.ltb (zs "16777216") n
           | _ -> false) in
         if huge then bump branch "huge_capacity_request";
         if do_c && lawful && not other_arm && not is_libpanic && not is_par && not huge && not (opname = "fromiter" && arm <> "-") then begin
           incr c_checked;
           let step t o = map_step cfg.backend cfg.tsize cfg.talign cfg.needs_drop rehash_guard_unconditional
                    (hash_of panic_key) refuse t o in
           (* rustc_entry / raw_entry_mut / raw_entry are separate code paths in the library and separate
              model code (Model/Entry2.v: rustc_step with insert_no_grow, raw_step, raw_get), proved equal to
              the HashMap::entry composition in Properties/C14e.v; level C runs the code-shaped model *)
           let is_rentry = String.length opname > 7 && String.sub opname 0 7 = "rentry_" in
           let is_rawe = List.mem opname ["raw_or_insert"; "raw_insert"; "raw_remove"; "raw_get"] in
           let zarg i = zs (List.nth opws i) in
           let model_result =
             if opname = "fromiter" then
               (* FromIterator: with_capacity(size_hint().0) ; insert each ; the old map is dropped afterwards *)
               (match op with
                | OpExtend items ->
                  (match step (new_table cfg.backend) (OpWithCapacity (zi (List.length items))) with
                   | Fail e -> Fail e
                   | Ok ((t0, _), ev0) ->
                     let rec ins t evs = function
                       | [] -> Ok (t, evs)
                       | (e : kv) :: r ->
                         (match step t (OpInsert (e.k_id, e.k_stamp, e.v_val)) with
                          | Fail x -> Fail x
                          | Ok ((t1, o1), ev1) -> if o1 = OutUnwind then Fail UB_unreachable else ins t1 (evs @ ev1) r) in
                     (match ins t0 ev0 items with
                      | Fail e -> Fail e
                      | Ok (t1, evs) ->
                        (match step tpre OpDropMap with
                         | Fail e -> Fail e
                         | Ok (_, evd) -> bump branch "from_iter"; Ok ((t1, OutUnit), evs @ evd))))
                | _ -> Fail UB_unreachable)
             else if opname = "extendp" then begin
               bump branch "extend_iterator_panic_model";
               (match op with
                | OpExtend items ->
                  m_extend_p cfg.backend cfg.tsize cfg.talign cfg.needs_drop rehash_guard_unconditional (hash_of panic_key) refuse
                    tpre items (nat_of_int (int_of_string (List.nth opws 1)))
                | _ -> Fail UB_unreachable)
             end else if into_panic then begin
               bump branch "into_panic_model";
               let act = (match opname with
                 | "eref_or_insert" -> ERefOrInsert | "eref_insert" -> ERefInsert (zs (List.nth opws 3)) | _ -> ERefDrop) in
               eref_into_p_step cfg.backend (hash_of panic_key) tpre (zs (List.nth opws 1)) act
             end
             else if List.mem opname ["entry_replace"; "entry_and_replace"; "raw_replace"; "raw_and_replace"] && (try List.nth opws 3 = "some" with _ -> false) && not entry_closure_panic then begin
               (* entry(k) / raw_entry_mut().from_key(k) ALWAYS hash the key (no is_empty() short cut as in
                  get_mut): Map.m_entry, with the closure's Some(v) written over the stored value *)
               bump branch "entry_replace_some_model";
               m_entry cfg.backend (hash_of panic_key) tpre (zarg 1)
                 (fun _ i e -> match slot_write tpre i { k_id = e.k_id; k_stamp = e.k_stamp; v_val = zarg 4 } with
                    | Fail x -> Fail x
                    | Ok t1 -> Ok ((t1, OutVal e.v_val), []))
                 (fun _ -> Ok ((tpre, OutNone), []))
             end
             else if opname = "raw_hash_insert" then begin
               bump branch "raw_from_hash_model";
               (match hash_of panic_key (zarg 1) with
                | Some h -> raw_step_hashed cfg.backend cfg.tsize cfg.talign cfg.needs_drop rehash_guard_unconditional (hash_of panic_key) refuse
                              tpre h (zarg 2) (RActInsert (zarg 2, zarg 3, zarg 4))
                | None -> Fail UB_unreachable)
             end
             else if opname = "raw_rename" then begin
               bump branch "raw_rename_model";
               (match step tpre (OpRemove (zarg 1)) with
                | Fail e -> Fail e
                | Ok ((t1, o1), ev1) ->
                  (match raw_step cfg.backend cfg.tsize cfg.talign cfg.needs_drop rehash_guard_unconditional (hash_of panic_key) refuse
                           t1 (zarg 3) (RActInsert (zarg 3, zarg 4, zarg 5)) with
                   | Fail e -> Fail e
                   | Ok ((t2, _), ev2) -> Ok ((t2, o1), ev1 @ ev2)))
             end
             else if entry_closure_panic then begin
               bump branch "entry_closure_panic_model";
               if opname = "entry_and_modify" then
                 m_entry_and_modify_p cfg.backend cfg.tsize cfg.talign cfg.needs_drop rehash_guard_unconditional (hash_of panic_key) refuse
                   tpre (zs (List.nth opws 1)) (zs (List.nth opws 2)) (zs (List.nth opws 4))
               else m_entry_replace_p cfg.backend cfg.needs_drop (hash_of panic_key) tpre (zs (List.nth opws 1))
             end
             else if pred_panic <> None then begin
               bump branch "closure_panic_model";
               let k = (match pred_panic with Some k -> k | None -> 0) in
               let occ = occupants tpre in
               let victim = (try Some (List.nth occ k) with _ -> None) in
               let is_victim (e : kv) = (match victim with Some v -> Z.eqb v.k_id e.k_id && Z.eqb v.k_stamp e.k_stamp | None -> false) in
               (match op with
                | OpRetain (keep, bump_) ->
                  m_retain_p cfg.backend cfg.needs_drop tpre
                    (fun e -> if is_victim e then None else Some (List.exists (fun x -> Z.eqb x e.k_id) keep)) bump_
                | OpExtractIf (sel, n) ->
                  m_extract_p cfg.backend tpre
                    (fun e -> if is_victim e then None else Some (List.exists (fun x -> Z.eqb x e.k_id) sel)) n
                | _ -> Fail UB_unreachable)
             end else if is_rentry then begin
               bump branch "rustc_entry_model";
               let act = (match opname with
                 | "rentry_or_insert" -> ActOrInsert (zarg 3) | "rentry_insert" -> ActInsert (zarg 3)
                 | "rentry_remove" -> ActRemoveEntry | _ -> ActDrop) in
               rustc_step cfg.backend cfg.tsize cfg.talign cfg.needs_drop rehash_guard_unconditional (hash_of panic_key) refuse tpre (zarg 1) (zarg 2) act
             end else if is_rawe then begin
               bump branch "raw_entry_model";
               if opname = "raw_get" then raw_get cfg.backend (hash_of panic_key) tpre (zarg 1)
               else
                 let act = (match opname with
                   | "raw_or_insert" -> RActOrInsert (zarg 1, zarg 2, zarg 3) | "raw_insert" -> RActInsert (zarg 1, zarg 2, zarg 3)
                   | _ -> RActRemoveEntry) in
                 raw_step cfg.backend cfg.tsize cfg.talign cfg.needs_drop rehash_guard_unconditional (hash_of panic_key) refuse tpre (zarg 1) act
             end
             else begin
               selftest_emit cfg.gw cfg.tsize cfg.talign cfg.needs_drop rehash_guard_unconditional (hash_of panic_key) refuse tpre op !steps;
               step tpre op
             end in
           (match model_result with
            | Fail e ->
              say "C-MISMATCH %s: model stops with %s but the implementation returned [%s]; pre=%s" where (err_text e) ret_s (dump_text pre)
            | Ok ((t', o), evs) ->
              (* a leaked Drain / IntoIter: the map was left as the empty singleton when the
                 iterator was created and nothing is dropped or freed (mem::forget) *)
              let leaked = opname = "forget_drain" || opname = "forget_iter" in
              let t' = if leaked then new_table cfg.backend else t' in
              let evs = if leaked then [] else evs in
              if leaked then bump branch "leaked_drain";
              let mt = table_text t' and it = dump_text post in
              if mt <> it then say "C-MISMATCH %s: post-state: model [%s] impl [%s] pre [%s]" where mt it (dump_text pre);
              let mo = out_text o in
              let io = (match ret with Some r -> out_text r | None -> ret_s) in
              if mo <> io then say "C-MISMATCH %s: return value: model [%s] impl [%s]" where mo io;
              let strip_r e = (let ws = List.filter (fun w -> not (String.length w > 2 && String.sub w 0 2 = "R:")) (words e) in if ws = [] then "-" else String.concat " " ws) in
              let me = ev_text evs and ie = strip_r (if ev_s = "" then "-" else ev_s) in
              if me <> ie then say "C-MISMATCH %s: events: model [%s] impl [%s]" where me ie;
              (* branch coverage bookkeeping *)
              let has p = List.exists p evs in
              if has (function EvAlloc _ -> true | _ -> false) && has (function EvFree _ -> true | _ -> false) then bump branch "resize";
              if has (function EvAlloc _ -> true | _ -> false) then bump branch "alloc";
              if t'.mask = tpre.mask && t'.ctrl <> tpre.ctrl && List.mem (List.hd opws) ["insert"; "reserve"; "tryreserve"; "entry_or_insert"; "entry_insert"; "tryinsert"; "extend"; "entry_and_modify"]
                 && Z.ltb (Z.add tpre.growth_left (zi 1)) t'.growth_left then bump branch "rehash_in_place";
              if List.exists (fun b -> Z.eqb b (zi 128)) t'.ctrl then bump branch "tombstones_present";
              if o = OutUnwind then bump branch "unwind";
              if Z.eqb tpre.growth_left Z0 then bump branch "pre_growth_left_0";
              if int_of_nat tpre.mask + 1 < cfg.gw && int_of_nat tpre.mask > 0 then bump branch "small_table")
         end else incr c_skipped;
         (* ---- level C for the owning iterators (Model/OwnIter.v, Properties/C03o.v): into_iter /
            into_keys / into_values consumed by next() and / or a (possibly panicking) fold consumer,
            drain consumed through for_each, and leaked (mem::forget) IntoIter / Drain: yielded elements in
            order, destructor and release events in order, the collection afterwards ---- *)
         let own_ops = ["intoiter"; "intokeys"; "intovalues"; "intoiterfold"; "intokeysfold"; "intovaluesfold"; "forget_iter"; "forget_drain"] in
         if do_c && lawful && arm = "-" && List.mem opname own_ops && not is_libpanic then begin
           incr c_checked;
           bump branch "owning_iterator_model";
           let total = List.length (occupants tpre) in
           let argi i = (try int_of_string (List.nth opws i) with _ -> max_int) in
           let expect_n = (match opname with
             | "intoiter" | "forget_iter" | "forget_drain" -> min (argi 1) total
             | "intokeys" | "intovalues" -> total
             | _ -> let k = argi 2 in if k >= 1000000 then total else min (argi 1 + k + 1) total) in
           let drop_ok (_ : kv) = true in
           let strip_r e = (let ws = List.filter (fun w -> not (String.length w > 2 && String.sub w 0 2 = "R:")) (words e) in if ws = [] then "-" else String.concat " " ws) in
           let cmp_list (es : kv list) =
             (match ret with
              | Some (OutList l) ->
                let proj (e : kv) = (match opname with
                  | "intokeysfold" -> Printf.sprintf "%s:%s" (string_of_z e.k_id) (string_of_z e.k_stamp)
                  | "intovaluesfold" -> string_of_z e.v_val
                  | _ -> kv_text e) in
                let a = String.concat "," (List.map proj es) and b = String.concat "," (List.map proj l) in
                if a <> b then say "C-MISMATCH %s: owning iterator yields: model [%s] impl [%s]" where a b
              | _ -> say "C-MISMATCH %s: owning iterator: unparsable result [%s]" where ret_s) in
           (match opname with
            | "forget_iter" ->
              (match into_iter_leak cfg.backend cfg.tsize cfg.talign tpre (nat_of_int expect_n) with
               | Fail e -> say "C-MISMATCH %s: model (into_iter_leak) stops with %s" where (err_text e)
               | Ok (es, evs) ->
                 cmp_list es;
                 if ev_text evs <> strip_r (if ev_s = "" then "-" else ev_s) then say "C-MISMATCH %s: events of a leaked IntoIter: model [%s] impl [%s]" where (ev_text evs) ev_s;
                 if table_text (new_table cfg.backend) <> dump_text post then say "C-MISMATCH %s: collection after into_iter: impl [%s]" where (dump_text post))
            | "forget_drain" ->
              (match drain_leak cfg.backend tpre (nat_of_int expect_n) with
               | Fail e -> say "C-MISMATCH %s: model (drain_leak) stops with %s" where (err_text e)
               | Ok ((t', es), evs) ->
                 cmp_list es;
                 if ev_text evs <> strip_r (if ev_s = "" then "-" else ev_s) then say "C-MISMATCH %s: events of a leaked Drain: model [%s] impl [%s]" where (ev_text evs) ev_s;
                 if table_text t' <> dump_text post then say "C-MISMATCH %s: collection after a leaked Drain: model [%s] impl [%s]" where (table_text t') (dump_text post))
            | _ ->
              (match into_iter_consume cfg.backend cfg.tsize cfg.talign cfg.needs_drop drop_ok tpre (nat_of_int expect_n) with
               | Fail e -> say "C-MISMATCH %s: model (into_iter_consume) stops with %s" where (err_text e)
               | Ok ((es, evs), _) ->
                 cmp_list es;
                 (* into_keys / into_values: the adaptor drops the other half of every pair it yields; the
                    harness logs that as a drop of the pair.  Only the release of the block is compared there
                    (the registry checks that each object is dropped exactly once). *)
                 let halves = List.mem opname ["intokeys"; "intovalues"; "intokeysfold"; "intovaluesfold"] in
                 let no_dt e = (let ws = List.filter (fun w -> not (String.length w > 3 && String.sub w 0 3 = "DT:")) (words e) in if ws = [] then "-" else String.concat " " ws) in
                 let me = if halves then no_dt (ev_text evs) else ev_text evs in
                 let ie = strip_r (if ev_s = "" then "-" else ev_s) in
                 let ie = if halves then no_dt ie else ie in
                 if me <> ie then say "C-MISMATCH %s: events of the owning iterator: model [%s] impl [%s]" where me ie;
                 if table_text (new_table cfg.backend) <> dump_text post then say "C-MISMATCH %s: collection after into_iter: impl [%s]" where (dump_text post)))
         end;
         (* ---- level A ---- *)
         if do_a && lawful && !spec_valid && own_rule then begin
           (* from_par_iter builds a separate map: its contents are `first key object, last value` of the
              items; par_eq is mathematical equality of the two reference maps; neither touches the map *)
           incr a_checked;
           let contents = occupants tpost in
           if sorted_kvs contents <> sorted_kvs !spec || dump_text pre <> dump_text post then
             say "A-FAIL %s: a read-only parallel operation changed the map" where;
           if opname = "from_par_iter" then begin
             let items = List.map parse_kv3 (List.filteri (fun j _ -> j >= 2) opws) in
             let want = List.fold_left (fun acc (e : kv) -> insert_like acc e.k_id e.k_stamp e.v_val) [] items in
             (match ret with
              | Some (OutList l) ->
                if sorted_kvs l <> sorted_kvs want then
                  say "A-FAIL %s: from_par_iter contents are not `last value per key`: expected [%s] got [%s]" where
                    (String.concat "," (sorted_kvs want)) (String.concat "," (sorted_kvs l))
              | Some OutUnwind -> ()
              | _ -> if not is_libpanic then say "A-FAIL %s: unparsable result [%s]" where ret_s)
           end else begin
             let ka l = List.sort compare (List.map (fun (e : kv) -> (string_of_z e.k_id, string_of_z e.v_val)) l) in
             let math = (ka !spec = ka !spec_other) in
             (match ret with
              | Some OutUnwind -> ()
              | _ -> if ret_s <> (if math then "bool 1" else "bool 0") then
                  say "A-FAIL %s: par_eq returned [%s] but the maps %s hold the same keys with equal values" where ret_s (if math then "do" else "do not"))
           end
         end;
         if do_a && lawful && !spec_valid && opname <> "par_split" && not is_serde && opname <> "getmanymut" && not own_rule then begin
           incr a_checked;
           let contents = occupants tpost in
           if opname = "fromiter" && ret <> Some OutUnwind then spec := [];
           (match ret with
            | Some OutUnwind when opname = "extendp" ->
              (* the iterator of extend panicked after p pairs: the map must hold EXACTLY the pre-state
                 plus those p pairs inserted in order (C04q_extend_iterator_panic) *)
              let p = int_of_string (List.nth opws 1) in
              let rec take n l = (match l with x :: r when n > 0 -> x :: take (n - 1) r | _ -> []) in
              (match op with
               | OpExtend items ->
                 (match spec_accepts !spec (OpExtend (take p items)) OutUnit with
                  | Some s' ->
                    if sorted_kvs s' <> sorted_kvs contents then
                      say "A-FAIL %s: after the extend iterator panicked the map is not `pre-state + the pairs handed over`: expected [%s] impl [%s]" where
                        (String.concat "," (sorted_kvs s')) (String.concat "," (sorted_kvs contents))
                  | None -> ())
               | _ -> ());
              spec := contents
            | Some OutUnwind when into_panic ->
              (* a panicking Into conversion: nothing may have changed *)
              if sorted_kvs !spec <> sorted_kvs contents then
                say "A-FAIL %s: a panicking Into conversion changed the map: before [%s] after [%s]" where
                  (String.concat "," (sorted_kvs !spec)) (String.concat "," (sorted_kvs contents));
              spec := contents
            | Some OutUnwind when opname = "raw_rename" ->
              (* unwound (a destructor of a temporary panicked): the first key may be gone, the second
                 pair may already be stored *)
              let op_u = OpEntryInsert (zs (List.nth opws 3), zs (List.nth opws 4), zs (List.nth opws 5)) in
              if not (unwind_accepts !spec op_u contents) then
                say "A-FAIL %s: contents after unwinding are not explainable: spec=[%s] impl=[%s]" where
                  (String.concat "," (sorted_kvs !spec)) (String.concat "," (sorted_kvs contents));
              spec := contents
            | Some OutUnwind ->
              (* from_iter: the harness installs the new map and then drops the old one: a panic inside the
                 construction leaves the old map, a panic while dropping the OLD map leaves the new one *)
              if not (unwind_accepts !spec op contents) && not (opname = "fromiter" && unwind_accepts [] op contents) then
                say "A-FAIL %s: contents after unwinding are not explainable: spec=[%s] impl=[%s]" where
                  (String.concat "," (sorted_kvs !spec)) (String.concat "," (sorted_kvs contents));
              spec := contents
            | Some r ->
              (match (match spec_accepts !spec op r with
                      | Some s1 when opname = "raw_rename" ->
                        (* ... then the insertion of the second key through the returned vacant entry *)
                        spec_accepts s1 (OpEntryInsert (zs (List.nth opws 3), zs (List.nth opws 4), zs (List.nth opws 5))) OutNone
                      | x -> x) with
               | Some s' ->
                 if sorted_kvs s' <> sorted_kvs contents then begin
                   say "A-FAIL %s: contents differ from the reference map: reference=[%s] impl=[%s]" where
                     (String.concat "," (sorted_kvs s')) (String.concat "," (sorted_kvs contents));
                   spec := contents end
                 else spec := s'
               | None ->
                 say "A-FAIL %s: reference map rejects the result [%s] (reference contents [%s])" where ret_s
                   (String.concat "," (sorted_kvs !spec));
                 spec := contents)
            | None -> if not is_libpanic then say "A-FAIL %s: unparsable result [%s]" where ret_s; spec := contents);
           (* len() = number of elements it yields *)
           if not (Z.eqb tpost.items (zi (List.length contents))) then
             say "A-FAIL %s: len()=%s but %d elements are stored" where (string_of_z tpost.items) (List.length contents)
         end;
         Hashtbl.replace distinct (String.concat " " opws ^ "|" ^ pre_s ^ "|" ^ arm) ()
       with
       | Stack_overflow -> say "C-MISMATCH %s: model evaluation overflowed the stack" where
       | Failure m -> say "D-ERROR %s: driver failure %s" where m
       | Not_found -> say "D-ERROR %s: driver parse failure" where)
     | _ -> ());
    (match strip_prefix "END " l with
     | Some s ->
       let m = kvmap (words s) in
       let dp = (try List.assoc "drop_panics" m with Not_found -> "0") in
       (* a destructor panicked somewhere in this script: the elements it left behind and the
          table's block may legitimately have been leaked (C04) *)
       if dp = "0" && List.assoc "live" m <> "0" then say "H-FAIL script=%s: %s objects were never dropped (leak)" !script (List.assoc "live" m);
       if dp = "0" && List.assoc "blocks" m <> "0" then say "H-FAIL script=%s: %s blocks still allocated after drop" !script (List.assoc "blocks" m);
       if List.assoc "double_drops" m <> "0" then say "H-FAIL script=%s: double drops" !script
     | None -> ());
    incr i
  done;
  Printf.printf "STATS steps=%d level_c=%d level_c_skipped=%d level_b=%d level_a=%d findings=%d distinct=%d\n"
    !steps !c_checked !c_skipped !b_checked !a_checked !findings (Hashtbl.length distinct);
  Printf.printf "OPS %s\n" (String.concat " " (Hashtbl.fold (fun k v acc -> Printf.sprintf "%s=%d" k v :: acc) opcount []));
  Printf.printf "BRANCH %s\n" (String.concat " " (Hashtbl.fold (fun k v acc -> Printf.sprintf "%s=%d" k v :: acc) branch []))
