(* Extract.v -- extraction of the executable model, the specification acceptor and the invariant
   checker to OCaml.  Only ExtrOcamlBasic is used (bool, option, unit, list, prod, sumbool as
   OCaml's own types); nat, positive, N and Z stay Coq's own (unary / binary) datatypes. *)
From Coq Require Import ZArith List Extraction ExtrOcamlBasic.
From HB Require Import RsPrelude Sse2 Gen Group Raw Map Check AssocSpec Triangular SetAlg SetOps Table MultisetSpec Clone Par Serde Addr Entry2 PanicOps PanicOps2 OwnIter Digest.

Extraction Language OCaml.


Definition probe_positions (GW mask : Z) (n : nat) (p0 : Z) : list Z :=
  map (fun j => fst (probe_iter GW mask j (p0, 0%Z))) (seq 0 n).

Extraction "../ocaml/extracted/hb.ml"
  Z.add Z.mul Z.sub Z.div Z.modulo Z.of_nat Z.to_nat Z.eqb Z.ltb Z.leb Z.land Z.pow
  Gen.capacity_to_buckets Gen.bucket_mask_to_capacity Gen.calculate_layout_for Gen.table_layout_new
  Gen.is_in_same_group Gen.h1 Gen.tag_full Gen.tag_is_full Gen.tag_is_special Gen.tag_special_is_empty
  Gen.probe_seq probe_positions Gen.rehash_guard_unconditional Gen.serde_cautious Gen.split_mid
  Group.sse2_backend Group.generic_backend
  Group.g_match_tag Group.g_match_full Group.g_any_empty Group.g_lowest_eod Group.g_empty_lz Group.g_empty_tz Group.g_convert
  Group.bm_iter Gen.bm_any_bit_set Gen.bm_lowest_set_bit Gen.bm_leading_zeros Gen.bm_trailing_zeros
  Raw.new_table Map.map_step
  Check.safe_wf_check Check.hash_wf_check Check.wf_check Check.occupants
  AssocSpec.spec_accepts AssocSpec.unwind_accepts AssocSpec.same_set
  SetAlg.union SetAlg.intersection SetAlg.difference SetAlg.symmetric_difference SetAlg.is_subset SetAlg.is_superset
  SetAlg.is_disjoint SetAlg.set_eq SetAlg.difference_size_hint SetOps.set2_step
  Table.table_step MultisetSpec.tspec_accepts MultisetSpec.meq MultisetSpec.msub
  Clone.clone_table Clone.clone_from Clone.map_eq Par.split_leaves Serde.deser_map
  Addr.bucket_ptr Addr.bucket_as_ptr Addr.elem_range Addr.ctrl_align
  Entry2.rustc_step Entry2.raw_step Entry2.raw_step_hashed Entry2.raw_get
  Digest.map_step_digest
  PanicOps.m_retain_p PanicOps.m_extract_p PanicOps2.m_extend_p PanicOps2.eref_into_p_step PanicOps2.m_entry_replace_p PanicOps2.m_entry_and_modify_p
  OwnIter.into_iter_consume OwnIter.drain_consume OwnIter.into_iter_leak OwnIter.drain_leak.
