(* SetAlg.v -- the set algebra of src/set.rs as the iterator pipelines the source builds, over the
   iteration-order element lists of the two operand sets.  `mem x l` stands for `other.contains(x)`
   (whose correctness is C01's subject); the size comparisons choosing the strategy are the
   expressions GENERATED from set.rs (the Gen.set_ definitions).  Keys are compared by id (Eq looks at the id). *)
From Coq Require Import ZArith List Bool Lia.
From HB Require Import RsPrelude Gen.
Import ListNotations.
Open Scope Z_scope.

Section SetAlg.
  Variable E : Type.
  Variable key : E -> Z.

  Definition mem (x : E) (l : list E) : bool := existsb (fun y => key y =? key x) l.
  Definition len (l : list E) : Z := Z.of_nat (length l).

  (* Difference { iter: self.iter(), other } *)
  Definition difference (a b : list E) : list E := filter (fun x => negb (mem x b)) a.
  (* intersection: the smaller set drives *)
  Definition intersection (a b : list E) : list E :=
    if set_intersection_self_smaller (len a) (len b)
    then filter (fun x => mem x b) a else filter (fun x => mem x a) b.
  (* union: larger.iter().chain(smaller.difference(larger)) *)
  Definition union (a b : list E) : list E :=
    if set_union_self_smaller (len a) (len b) then b ++ difference a b else a ++ difference b a.
  Definition symmetric_difference (a b : list E) : list E := difference a b ++ difference b a.

  Definition is_subset (a b : list E) : bool := (len a <=? len b) && forallb (fun x => mem x b) a.
  Definition is_superset (a b : list E) : bool := is_subset b a.
  Definition is_disjoint (a b : list E) : bool := match intersection a b with [] => true | _ => false end.
  (* PartialEq for HashSet: same length and every element of self is in other *)
  Definition set_eq (a b : list E) : bool := (len a =? len b) && forallb (fun x => mem x b) a.

  (* -= : which branch, and what survives (in self's iteration order for the retain branch) *)
  Definition sub_assign_result (a b : list E) : list E := difference a b.
  Definition sub_assign_uses_remove (a b : list E) : bool := set_sub_assign_remove_branch (len b) (len a).

  (* Difference::size_hint when r elements of self remain to be visited *)
  Definition difference_size_hint (remaining : Z) (b : list E) : Z * Z :=
    (set_difference_size_hint_lower remaining (len b), remaining).
End SetAlg.
