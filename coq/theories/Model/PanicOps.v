(* PanicOps.v -- user callbacks that PANIC, other than Hash / Drop / Clone (those are in Raw.v,
   Map.v, Clone.v): a panicking Eq (Equivalent::equivalent / PartialEq::eq) and a panicking
   closure of retain / extract_if.  Definitions only.

   Eq.  RawTable::find / find_or_find_insert_slot call `eq` inside the probe loop
   (`for bit in group.match_tag(tag) { if eq(index) { return .. } }`), through a closure; there
   is no scope guard around that call and nothing has been written when it runs, so a panic of
   `eq` simply propagates: in the model the callback returns `Fail Panic`, and `bind`
   propagates it.  `panicky_eq P` is such a callback: `P e = None` means "comparing the query
   with the stored element e panics".

   Closures.  HashMap::retain is
        for item in self.table.iter() { let (k, v) = item.as_mut(); if !f(k, v) { self.table.erase(item) } }
   and RawExtractIf::next is
        for item in &mut self.iter { if f(item.as_mut()) { return Some(self.table.remove(item).0) } }
   Neither has a guard, and neither ExtractIf nor RawExtractIf implements Drop: when the closure
   panics the loop just stops, and the collection is what the completed iterations left. *)
From Coq Require Import ZArith List Bool Lia.
From HB Require Import RsPrelude Sse2 Gen Group Raw Map.
Import ListNotations.
Open Scope nat_scope.

(* ---------------------------------------------------------------------------------------- *)
(* Part 1: a panicking Eq                                                                     *)
(* ---------------------------------------------------------------------------------------- *)
(* None = this comparison panics *)
Definition panicky_eq {T : Type} (P : T -> option bool) : T -> res bool :=
  fun e => match P e with Some b => Ok b | None => Fail Panic end.

(* the total predicate that agrees with P where P answers (and says `d` where P panics) *)
Definition total_of {T : Type} (d : bool) (P : T -> option bool) : T -> bool :=
  fun e => match P e with Some b => b | None => d end.

Section RawPanic.
  Variable B : backend.
  Variable T : Type.
  Variable tsize talign : Z.
  Variable needs_drop : bool.
  Variable hasher : T -> option Z.
  Variable guard_fix : bool.

  (* RawTable::find_or_find_insert_slot as seen by a caller that catches the unwinding
     (catch_unwind around HashMap::insert / HashSet::get_or_insert / ...):
       self.reserve(1, hasher);                         -- first, as in the source
       self.table.find_or_find_insert_slot_inner(..)    -- calls eq; nothing written yet
     A `Fail Panic` of the inner search becomes the result "unwound = true", with the table in
     the state the reserve left it in (t1).  Every other failure is kept as it is. *)
  Definition find_or_find_insert_slot_c (t : table T) (hash : Z) (eqf : T -> res bool) (alloc_refuses : bool)
    : res (table T * list (event T) * bool * option (nat + nat)) :=
    '(t1, evs, _, unw) <- reserve B T tsize talign needs_drop hasher guard_fix t 1 alloc_refuses ;;
    if unw then Ok (t1, evs, true, None) else
    match find_or_find_insert_slot_inner B T t1 hash (eq_at T t1 eqf) with
    | Ok r => Ok (t1, evs, false, Some r)
    | Fail Panic => Ok (t1, evs, true, None)
    | Fail e => Fail e
    end.

  (* RawTable::find as seen by a catching caller (get / get_mut / contains_key / remove /
     remove_entry / entry / try_insert: Eq is only called here, before any mutation).  The table
     is an argument only: the unwound state is the pre-state itself.  true = unwound *)
  Definition find_c (t : table T) (hash : Z) (eqf : T -> res bool) : res (bool * option nat) :=
    match find B T t hash eqf with
    | Ok r => Ok (false, r)
    | Fail Panic => Ok (true, None)
    | Fail e => Fail e
    end.
End RawPanic.

(* ---------------------------------------------------------------------------------------- *)
(* Part 2: a panicking closure in HashMap::retain                                              *)
(* ---------------------------------------------------------------------------------------- *)
Section MapPanic.
  Variable B : backend.
  Variable needs_drop : bool.

  (* the generalised total loop.  The closure is an FnMut(&K, &mut V) -> bool: it cannot touch
     the key, it may be stateful; `f n e` = (new value, keep?) is what its n-th invocation
     (n = 0, 1, ...) does when it is handed the element e. *)
  Fixpoint retain_loop_g (fuel : nat) (t : table kv) (it : raw_iter) (f : nat -> kv -> Z * bool) (n : nat)
           (evs : list (event kv)) : res (table kv * list (event kv)) :=
    match fuel with
    | O => Fail OutOfFuel
    | S fu =>
        '(nxt, it') <- iter_next B kv t it ;;
        match nxt with
        | None => Ok (t, evs)
        | Some i =>
            e <- slot_ref kv t i ;;
            let e' := mkKV (k_id e) (k_stamp e) (fst (f n e)) in
            t1 <- slot_write kv t i e' ;;
            if snd (f n e) then retain_loop_g fu t1 it' f (S n) evs
            else '(t2, evs2) <- erase_drop B kv needs_drop t1 i ;; retain_loop_g fu t2 it' f (S n) (evs ++ evs2)
        end
    end.

  (* the closure of OpRetain: |k, v| { *v += bump; keep.contains(k) } *)
  Definition keep_bump (keep : list Z) (bump : Z) : nat -> kv -> Z * bool :=
    fun _ e => (wadd 64 (v_val e) bump, existsb (Z.eqb (k_id e)) keep).

  (* Map.retain_loop with a closure |k, v| { <panic if pred = None>; *v += bump; <answer> }:
     the panic happens INSTEAD of the call's effects.  On a panic the loop stops where it is
     (no guard in HashMap::retain).  Result: (table, events, unwound). *)
  Fixpoint retain_loop_p (fuel : nat) (t : table kv) (it : raw_iter) (pred : kv -> option bool) (bump : Z)
           (evs : list (event kv)) : res (table kv * list (event kv) * bool) :=
    match fuel with
    | O => Fail OutOfFuel
    | S fu =>
        '(nxt, it') <- iter_next B kv t it ;;
        match nxt with
        | None => Ok (t, evs, false)
        | Some i =>
            e <- slot_ref kv t i ;;
            match pred e with
            | None => Ok (t, evs, true)
            | Some keepit =>
                let e' := mkKV (k_id e) (k_stamp e) (wadd 64 (v_val e) bump) in
                t1 <- slot_write kv t i e' ;;
                if keepit then retain_loop_p fu t1 it' pred bump evs
                else '(t2, evs2) <- erase_drop B kv needs_drop t1 i ;; retain_loop_p fu t2 it' pred bump (evs ++ evs2)
            end
        end
    end.

  (* position (in iteration order) of the first element on which the closure panics;
     the length of the list when there is none *)
  Fixpoint first_none (pred : kv -> option bool) (es : list kv) : nat :=
    match es with
    | [] => 0
    | e :: r => match pred e with None => 0 | Some _ => S (first_none pred r) end
    end.

  (* the total closure "as pred for the invocations before the c-th, from then on: keep, and
     leave the value alone" *)
  Definition cut_closure (pred : kv -> option bool) (bump : Z) (c : nat) : nat -> kv -> Z * bool :=
    fun n e => if n <? c then (wadd 64 (v_val e) bump, total_of true pred e) else (v_val e, true).

  (* HashMap::retain with a closure that may panic *)
  Definition m_retain_p (t : table kv) (pred : kv -> option bool) (bump : Z) : res Map.result :=
    it <- iter_new B kv t ;;
    '(t1, evs, unw) <- retain_loop_p (S (buckets kv t)) t it pred bump [] ;;
    Ok (t1, if unw then OutUnwind else OutUnit, evs).

  (* -------------------------------------------------------------------------------------- *)
  (* Part 3: a panicking closure in extract_if                                                *)
  (* -------------------------------------------------------------------------------------- *)
  (* Map.extract_loop with `sel : kv -> option bool`; on a panic inside next() the ExtractIf is
     dropped by the unwinding, which does nothing (no Drop impl).  Result: (table, items
     yielded before the panic, events, unwound). *)
  Fixpoint extract_loop_p (fuel : nat) (t : table kv) (it : raw_iter) (sel : kv -> option bool) (n : nat)
           (acc : list kv) (evs : list (event kv)) : res (table kv * list kv * list (event kv) * bool) :=
    match n with
    | O => Ok (t, acc, evs, false)
    | S n' =>
        match fuel with
        | O => Fail OutOfFuel
        | S fu =>
            '(nxt, it') <- iter_next B kv t it ;;
            match nxt with
            | None => Ok (t, acc, evs, false)
            | Some i =>
                e <- slot_ref kv t i ;;
                match sel e with
                | None => Ok (t, acc, evs, true)
                | Some true =>
                    '(e', t1) <- Raw.remove B kv t i ;;
                    extract_loop_p fu t1 it' sel n' (acc ++ [e']) (evs ++ [EvMoveOut e'])
                | Some false => extract_loop_p fu t it' sel n acc evs
                end
            end
        end
    end.
  (* HashMap::extract_if(sel), n items taken (or until the closure panics), then dropped *)
  Definition m_extract_p (t : table kv) (sel : kv -> option bool) (n : nat) : res Map.result :=
    it <- iter_new B kv t ;;
    '(t1, acc, evs, unw) <- extract_loop_p (S (buckets kv t)) t it sel n [] [] ;;
    Ok (t1, if unw then OutUnwind else OutList acc, evs).
End MapPanic.
