(* Clone.v -- RawTable::clone / clone_from / clone_from_impl (src/raw/mod.rs) with their guards,
   and HashMap == (src/map.rs).  `clone_of e = None` models a Clone impl that panics on e. *)
From Coq Require Import ZArith List Bool Lia.
From HB Require Import RsPrelude Sse2 Gen Group Raw Map.
Import ListNotations.
Open Scope nat_scope.

Section Clone.
  Variable B : backend.
  Variable T : Type.
  Variable tsize talign : Z.
  Variable needs_drop : bool.
  Variable drop_ok : T -> bool.
  Variable clone_of : T -> option T.

  Let tbl := table T.
  Let ev := event T.

  (* the loop of clone_from_impl over source.iter(); returns the table and whether it completed *)
  Fixpoint clone_elems (src dst : tbl) (idx : list nat) : res (tbl * bool) :=
    match idx with
    | [] => Ok (dst, true)
    | i :: r =>
        e <- slot_ref T src i ;;
        match clone_of e with
        | None => Ok (dst, false)                       (* Clone panicked *)
        | Some c => dst1 <- slot_write T dst i c ;; clone_elems src dst1 r
        end
    end.

  (* clone_from_impl: self must have the same number of buckets as source.
     On a panic the guard drops the clones made so far (they are not elements of any pre-state
     table, so they do not show in the event log) and leaves items = 0. *)
  Definition clone_from_impl (dst src : tbl) : res (tbl * bool) :=
    if negb (Nat.eqb (length (ctrl dst)) (length (ctrl src))) then Fail UB_ctrl_oob else
    (* the caller has already dropped (or, without drop glue, simply forgotten) dst's elements *)
    let dst0 := mkTable (mask dst) (ctrl src) (map (fun _ => None) (slots dst)) (items dst) (growth_left dst) in
    it <- iter_new B T src ;;
    idx <- iter_all B T src it ;;
    '(dst1, ok) <- clone_elems src dst0 idx ;;
    if ok then Ok (mkTable (mask dst1) (ctrl dst1) (slots dst1) (items src) (growth_left src), true)
    else Ok (with_slots T dst1 (map (fun _ => None) (slots dst1)), false).

  (* RawTable::clone.  Result: (Some new table | None when a Clone panicked), events *)
  Definition clone_table (src : tbl) : res (option tbl * list ev) :=
    if is_singleton T src then Ok (Some (new_table B T), []) else
    r <- new_uninitialized B T tsize talign (buckets T src) false Infallible ;;
    match r with
    | (Some nt, evs, _) =>
        '(nt1, ok) <- clone_from_impl nt src ;;
        if ok then Ok (Some nt1, evs)
        else fr <- free_buckets B T tsize talign nt1 ;; Ok (None, evs ++ fr)   (* the half-built clone is dropped: items = 0 *)
    | _ => Fail UB_unreachable
    end.

  (* RawTable::clone_from.  Result: (table, events, unwound) *)
  Definition clone_from (self src : tbl) : res (tbl * list ev * bool) :=
    if is_singleton T src then
      '(evs, ok) <- drop_inner_table B T tsize talign needs_drop drop_ok self ;;
      Ok (new_table B T, evs, negb ok)
    else
      '(s1, evs1, ok) <- drop_elements B T needs_drop drop_ok self ;;
      if negb ok then Ok (clear_no_drop T s1, evs1, true) else
      r <- (if Nat.eqb (buckets T s1) (buckets T src) then Ok (s1, [])
            else
              a <- new_uninitialized B T tsize talign (buckets T src) false Infallible ;;
              match a with
              | (Some nt, evs, _) =>
                  fr <- (if is_singleton T s1 then Ok [] else free_buckets B T tsize talign s1) ;;
                  Ok (nt, evs ++ fr)
              | _ => Fail UB_unreachable
              end) ;;
      let '(s2, evs2) := r in
      '(s3, ok2) <- clone_from_impl s2 src ;;
      if ok2 then Ok (s3, evs1 ++ evs2, false)
      else Ok (clear_no_drop T s3, evs1 ++ evs2, true).
End Clone.

(* HashMap::eq on the two iteration-order element lists (get = lookup by key id) *)
Definition map_eq (a b : list kv) : bool :=
  Nat.eqb (length a) (length b) &&
  forallb (fun e => match List.find (fun x => Z.eqb (k_id x) (k_id e)) b with
                    | Some x => Z.eqb (v_val x) (v_val e)
                    | None => false
                    end) a.
