(* Borrow.v -- the borrow clause of C16 as a decidable judgement over the public method signatures
   GENERATED from the source (Gen/GenTypes.v: gen_sigs) and the hand-written access table.

   "Every reference, iterator or entry obtained from a collection borrows it, so the collection
    cannot be mutated, moved or dropped while they live."

   In the signature of a method that is what rustc's borrow checker enforces IF AND ONLY IF the
   declaration says so; the three rules below are the declarations' side of it:

   (U) a method whose return type can WRITE or MOVE OUT through a borrow -- it contains `&mut`, or a
       borrowed handle type (one with a lifetime parameter) to which the access table gives Exclusive,
       Owning or unique read-only access (IterMut, ValuesMut, Drain, ExtractIf, Entry, OccupiedEntry,
       VacantEntry, the raw-entry builders, IterHashMut, the rayon ParIterMut / ParDrain ...) -- takes
       `&mut self` or consumes a handle (`self`): never `&self`, never no receiver.
   (B) a method whose return type borrows at all (contains a reference, a lifetime, or a handle type
       with a lifetime parameter) has something to borrow FROM: a receiver or a borrowed argument.
   (L) every named lifetime of the return type is a lifetime of the impl block or of the fn, and a
       lifetime declared on the fn itself also occurs in the inputs (an unconstrained `<'x>` in the
       return type would let the caller pick any lifetime, i.e. outlive the collection). *)
From Coq Require Import String List Bool.
From HB Require Import Gen.GenTypes Model.Marker Spec.AccessTable.
Import ListNotations.
Open Scope string_scope.

Definition unique_access (a : access) : bool :=
  match a with UniqRO | Exclusive | Owning => true | _ => false end.

Fixpoint lookup_row (tbl : list row) (X : string) : option (list (string * access)) :=
  match tbl with
  | [] => None
  | (n, acc) :: r => if String.eqb n X then Some acc else lookup_row r X
  end.

Definition is_nil {A} (l : list A) : bool := match l with [] => true | _ => false end.

Definition borrowed_handle (X : string) : bool :=
  match lookup gen_decls X with Some d => negb (is_nil (d_lts d)) | None => false end.

Definition unique_handle (X : string) : bool :=
  borrowed_handle X &&
  match lookup_row access_table X with
  | Some acc => existsb (fun pa => unique_access (snd pa)) acc
  | None => false
  end.

Definition mem_s (x : string) (l : list string) : bool := existsb (String.eqb x) l.

Definition ret_unique (g : fsig) : bool := s_ret_refmut g || existsb unique_handle (s_ret_heads g).
Definition ret_borrows (g : fsig) : bool :=
  s_ret_ref g || s_ret_elided g || negb (is_nil (s_ret_lts g)) || existsb borrowed_handle (s_ret_heads g).

Definition recv_unique (r : recv) : bool := match r with RecvMut | RecvOwn => true | _ => false end.
Definition recv_some (r : recv) : bool := match r with RecvNone => false | _ => true end.

Definition rule_U (g : fsig) : bool := implb (ret_unique g) (recv_unique (s_recv g)).
Definition rule_B (g : fsig) : bool := implb (ret_borrows g) (recv_some (s_recv g) || s_args_borrow g).
Definition rule_L (g : fsig) : bool :=
  forallb (fun l => (mem_s l (s_fn_lts g) || mem_s l (s_impl_lts g)) &&
                    implb (mem_s l (s_fn_lts g)) (mem_s l (s_in_lts g))) (s_ret_lts g).

(* (S) a handle that holds the UNIQUE borrow of the collection (first lifetime parameter of its impl
       block: Drain<'a>, IterMut<'a>, OccupiedEntry<'a>, VacantEntryRef<'a, 'b> ...) gives out, through
       `&self`, only views that re-borrow the handle: the return type does not name that lifetime.
       (`fn iter(&self) -> Iter<'a, K, V>` on a Drain<'a> would let the Iter outlive the `&self`
       borrow, so that safe code could advance or drop the Drain while the Iter still points into
       the table.)  Other lifetimes of the handle (the `'b` of the borrowed query key in
       VacantEntryRef::key(&self) -> &'b Q) are shared borrows and may be copied out. *)
Definition recv_shared (r : recv) : bool := match r with RecvRef => true | _ => false end.
Definition rule_S (g : fsig) : bool :=
  implb (unique_handle (s_owner g) && recv_shared (s_recv g))
        (match s_impl_lts g with l :: _ => negb (mem_s l (s_ret_lts g)) | [] => true end).

Definition sig_ok (g : fsig) : bool := rule_U g && rule_B g && rule_L g && rule_S g.
Definition offenders : list (string * string) :=
  map (fun g => (s_owner g, s_name g)) (filter (fun g => negb (sig_ok g)) gen_sigs).
