(* SetOps.v -- the assigning set operators of src/set.rs (|=, &=, ^=, -=) as the loops the source
   runs over the right-hand set's elements (given in its iteration order), each iteration being
   a HashSet/HashMap operation of Model/Map.v. *)
From Coq Require Import ZArith List Bool Lia.
From HB Require Import RsPrelude Sse2 Gen Group Raw Map SetAlg.
Import ListNotations.
Open Scope nat_scope.

Inductive set2_op : Type := OpOrAssign | OpAndAssign | OpXorAssign | OpSubAssign.

Section SetOps.
  Variable B : backend.
  Variable tsize talign : Z.
  Variable needs_drop : bool.
  Variable guard_fix : bool.
  Variable hash_of : Z -> option Z.
  Variable alloc_refuses : bool.

  Let step := map_step B tsize talign needs_drop guard_fix hash_of alloc_refuses.

  (* run a list of map operations; stops at the first one that unwinds *)
  Fixpoint run_ops (t : table kv) (ops : list map_op) (evs : list (event kv)) : res (table kv * out * list (event kv)) :=
    match ops with
    | [] => Ok (t, OutUnit, evs)
    | op :: r =>
        '(t1, o, evs1) <- step t op ;;
        match o with
        | OutUnwind | OutLibPanic => Ok (t1, o, evs ++ evs1)
        | _ => run_ops t1 r (evs ++ evs1)
        end
    end.

  Definition keys (l : list kv) : list Z := map k_id l.
  Definition memk (k : Z) (l : list kv) : bool := existsb (Z.eqb k) (keys l).

  (* `contains` on the left set while it is being mutated is evaluated by the model itself *)
  Fixpoint or_assign_loop (t : table kv) (rhs : list kv) (evs : list (event kv)) : res (table kv * out * list (event kv)) :=
    match rhs with
    | [] => Ok (t, OutUnit, evs)
    | e :: r =>
        '(_, c, _) <- step t (OpContains (k_id e)) ;;
        match c with
        | OutBool true => or_assign_loop t r evs
        | OutBool false =>
            '(t1, o, evs1) <- step t (OpSetInsert (k_id e) (k_stamp e)) ;;
            match o with
            | OutUnwind | OutLibPanic => Ok (t1, o, evs ++ evs1)
            | _ => or_assign_loop t1 r (evs ++ evs1)
            end
        | o => Ok (t, o, evs)
        end
    end.

  Definition set2_step (t : table kv) (rhs : list kv) (op : set2_op) : res (table kv * out * list (event kv)) :=
    match op with
    | OpOrAssign => or_assign_loop t rhs []
    | OpAndAssign => step t (OpRetain (keys rhs) 0%Z)
    | OpXorAssign => run_ops t (map (fun e => OpSetToggle (k_id e) (k_stamp e)) rhs) []
    | OpSubAssign =>
        if set_sub_assign_remove_branch (zn (length rhs)) (items t)
        then run_ops t (map (fun e => OpSetRemove (k_id e)) rhs) []
        else step t (OpRetain (filter (fun k => negb (memk k rhs)) (keys (occupants_of t))) 0%Z)
    end.
End SetOps.
