(* Replace.v -- executable model of RawTable::replace_bucket_with (src/raw/mod.rs, l.1106), the
   primitive behind replace_entry_with / and_replace_entry_with of map::OccupiedEntry / Entry and
   raw_entry::RawOccupiedEntryMut / RawEntryMut.

       pub unsafe fn replace_bucket_with<F>(&mut self, bucket: Bucket<T>, f: F) -> bool
       where F: FnOnce(T) -> Option<T>,
       {
           let index = self.bucket_index(&bucket);
           let old_ctrl = *self.table.ctrl(index);
           debug_assert!(self.is_bucket_full(index));
           let old_growth_left = self.table.growth_left;
           let item = self.remove(bucket).0;
           if let Some(new_item) = f(item) {
               self.table.growth_left = old_growth_left;
               self.table.set_ctrl(index, old_ctrl);
               self.table.items += 1;
               self.bucket(index).write(new_item);
               true
           } else {
               false
           }
       }

   One line of Gallina per line of Rust, same order of side effects, built from the CHECKED
   primitives of Raw.v (so a violated safety precondition shows up as `Fail`).  A Bucket<T> is
   its index (bucket_index is the identity of the model).  The debug assertion is not part of a
   release build and is not modelled as a check; on a bucket that is not FULL the model still
   fails, inside `remove` (slot_take -> UB_slot_uninit), which is the undefined behaviour the
   "does not check if the given bucket is actually occupied" remark of the source refers to.
   The closure is a total function here: a panicking `f` unwinds after `remove` has completed,
   i.e. from the state of the `None` branch.  Besides the bool of the source the function
   returns the element handed to `f`, so that callers can report it.  No proofs in this file. *)
From Coq Require Import ZArith List Bool.
From HB Require Import RsPrelude Sse2 Gen Group Raw.
Import ListNotations.
Open Scope nat_scope.

Section Replace.
  Variable B : backend.
  Variable T : Type.

  Definition replace_bucket_with (t : table T) (index : nat) (f : T -> option T)
    : res (table T * bool * T) :=
    (* let index = self.bucket_index(&bucket); *)
    (* let old_ctrl = *self.table.ctrl(index); *)
    old_ctrl <- ctrl_at T t index ;;
    (* debug_assert!(self.is_bucket_full(index));   -- debug builds only *)
    (* let old_growth_left = self.table.growth_left; *)
    let old_growth_left := growth_left t in
    (* let item = self.remove(bucket).0; *)
    '(item, t1) <- remove B T t index ;;
    (* if let Some(new_item) = f(item) *)
    match f item with
    | Some new_item =>
        (* self.table.growth_left = old_growth_left; *)
        let t2 := with_counts T t1 (items t1) old_growth_left in
        (* self.table.set_ctrl(index, old_ctrl); *)
        t3 <- set_ctrl B T t2 index old_ctrl ;;
        (* self.table.items += 1; *)
        let t4 := with_counts T t3 (wadd 64 (items t3) 1) (growth_left t3) in
        (* self.bucket(index).write(new_item); *)
        t5 <- slot_write T t4 index new_item ;;
        (* true *)
        Ok (t5, true, item)
    | None =>
        (* false *)
        Ok (t1, false, item)
    end.
End Replace.
