(* PanicOps2.v -- two more user callbacks that PANIC (C04): the iterator handed to
   HashMap::extend, and the Into conversion (K::from(&Q)) of the entry_ref API.  Definitions only.

   extend (src/map.rs):
        let iter = iter.into_iter();
        let reserve = if self.is_empty() { iter.size_hint().0 } else { (iter.size_hint().0 + 1) / 2 };
        self.reserve(reserve);
        iter.for_each(move |(k, v)| { self.insert(k, v); });
   There is no guard: when `iter.next()` panics after having handed over p pairs, the map is what
   the reserve and the p completed inserts left.  `kvs` is the list the iterator WOULD yield
   (its size_hint is exact, as for a Vec), `p` the number of pairs handed over before the panic.

   entry_ref(&q) hashes q and searches (no reserve, nothing written); only
   VacantEntryRef::insert / or_insert* build the owned key with `K::from(q)` -- as the argument
   of the insertion call, i.e. BEFORE the table is touched.  A panicking conversion therefore
   unwinds out of the vacant branch with the table exactly as it was; the occupied branch never
   converts. *)
From Coq Require Import ZArith List Bool Lia.
From HB Require Import RsPrelude Sse2 Gen Group Raw Map Replace.
Import ListNotations.
Open Scope nat_scope.

Section IterIntoPanic.
  Variable B : backend.
  Variable tsize talign : Z.
  Variable needs_drop : bool.
  Variable guard_fix : bool.
  Variable hash_of : Z -> option Z.
  Variable alloc_refuses : bool.

  Definition m_extend_p (t : table kv) (kvs : list kv) (p : nat) : res Map.result :=
    let reserve_n := map_extend_reserve (items t =? 0)%Z (zn (length kvs)) in
    x <- Raw.reserve B kv tsize talign needs_drop (hasher hash_of) guard_fix t reserve_n alloc_refuses ;;
    let '(t1, evs, _, unw) := x in
    if unw then Ok (t1, OutUnwind, evs) else
    '(t2, o, evs2) <- extend_loop B tsize talign needs_drop guard_fix hash_of alloc_refuses t1 (firstn p kvs) [] evs ;;
    Ok (t2, (if Nat.ltb p (length kvs) then OutUnwind else o), evs2).

  (* entry_ref(&k).or_insert(v) / .insert(v) / ... with a conversion that panics: `occ` is what the
     method does on an occupied entry (no conversion happens there) *)
  Definition m_entry_ref_into_p (t : table kv) (k : Z) (occ : Z -> nat -> kv -> res Map.result) : res Map.result :=
    m_entry B hash_of t k occ (fun _ => Ok (t, OutUnwind, [])).

  (* the three entry_ref method families the harness drives *)
  Inductive eref_act : Type := ERefOrInsert | ERefInsert (v : Z) | ERefDrop.

  Definition eref_into_p_step (t : table kv) (k : Z) (a : eref_act) : res Map.result :=
    match a with
    | ERefOrInsert => m_entry_ref_into_p t k (fun _ _ e => Ok (t, OutVal (v_val e), []))
    | ERefInsert v => m_entry_ref_into_p t k
                        (fun _ i e => t1 <- slot_write kv t i (mkKV (k_id e) (k_stamp e) v) ;; Ok (t1, OutVal (v_val e), []))
    | ERefDrop => m_entry B hash_of t k (fun _ _ _ => Ok (t, OutBool true, [])) (fun _ => Ok (t, OutBool false, []))
    end.
  (* ------------------------------------------------------------------------------------------ *)
  (* closures handed to ENTRY methods that panic.
       OccupiedEntry::replace_entry_with(f) / Entry::and_replace_entry_with(f) (and the raw_entry_mut
       twins) call RawTable::replace_bucket_with with the adapter closure
            |(key, value)| if let Some(v) = f(&key, value) { Some((key, v)) } else { spare_key = Some(key); None }
       replace_bucket_with has already REMOVED the element when the closure runs (Model/Replace.v);
       a panic of f unwinds from there: the value is dropped by f's frame, the key by the adapter's,
       nothing is written back -- the state of the `None` branch.  On a vacant entry f never runs.
       Entry::and_modify(f) runs f(&mut v) on an occupied entry only (a panic before f writes
       leaves everything as it was) and then or_insert(v) inserts on a vacant one. *)
  Definition m_entry_replace_p (t : table kv) (k : Z) : res Map.result :=
    m_entry B hash_of t k
      (fun _ i _ => '(t1, _, item) <- replace_bucket_with B kv t i (fun _ => None) ;;
                    Ok (t1, OutUnwind, if needs_drop then [EvDrop item] else []))
      (fun _ => Ok (t, OutNone, [])).

  Definition m_entry_and_modify_p (t : table kv) (k stamp v : Z) : res Map.result :=
    m_entry B hash_of t k
      (fun _ _ _ => Ok (t, OutUnwind, []))
      (fun h => vacant_insert B tsize talign needs_drop guard_fix hash_of alloc_refuses t h (mkKV k stamp v) (OutVal v)).
End IterIntoPanic.
