(* Digest.v -- a flat numeric digest of the result of one model step, for the EXTRACTION SELF-TEST:
   the OCaml driver evaluates the extracted `map_step_digest` on a sample of the states it judged,
   prints the same arguments as a Coq term, and `coqc` evaluates that term with vm_compute; the two
   digests must be equal.  This checks the extraction and the OCaml runtime on the very steps the
   correspondence check relies on (it is not part of any theorem).  Definitions only. *)
From Coq Require Import ZArith List Bool.
From HB Require Import RsPrelude Sse2 Gen Group Raw Map.
Import ListNotations.
Open Scope Z_scope.

Definition hash_of_assoc (l : list (Z * option Z)) (k : Z) : option Z :=
  match List.find (fun p => Z.eqb (fst p) k) l with Some p => snd p | None => None end.

Definition backend_of (gw : Z) : backend := if Z.eqb gw 16 then sse2_backend else generic_backend.

Definition digest_kv (e : kv) : list Z := [k_id e; k_stamp e; v_val e].

Definition digest_out (o : out) : list Z :=
  match o with
  | OutUnit => [0]
  | OutNone => [1]
  | OutVal v => [2; v]
  | OutKV s v => [3; s; v]
  | OutBool b => [4; if b then 1 else 0]
  | OutNum n => [5; n]
  | OutTry TR_ok => [6; 0]
  | OutTry TR_capacity_overflow => [6; 1]
  | OutTry (TR_alloc_error s a) => [6; 2; s; a]
  | OutList l => 7 :: Z.of_nat (length l) :: flat_map digest_kv l
  | OutErrOccupied s v => [8; s; v]
  | OutUnwind => [9]
  | OutLibPanic => [10]
  end.

Definition digest_ev (e : event kv) : list Z :=
  match e with
  | EvAlloc s a => [1; s; a]
  | EvFree s a => [2; s; a]
  | EvDrop x => 3 :: digest_kv x
  | EvMoveOut x => 4 :: digest_kv x
  end.

Definition digest_table (t : table kv) : list Z :=
  [Z.of_nat (mask t); items t; growth_left t] ++ ctrl t ++
  flat_map (fun o => match o with Some e => 1 :: digest_kv e | None => [0] end) (slots t).

Definition digest_res (r : res Map.result) : list Z :=
  match r with
  | Ok (t, o, evs) => 1 :: digest_table t ++ [-7] ++ digest_out o ++ [-7] ++ flat_map digest_ev evs
  | Fail _ => [0]
  end.

Definition map_step_digest (gw tsize talign : Z) (needs_drop guard_fix : bool) (hl : list (Z * option Z))
           (refuse : bool) (t : table kv) (op : map_op) : list Z :=
  digest_res (map_step (backend_of gw) tsize talign needs_drop guard_fix (hash_of_assoc hl) refuse t op).
