(* Map.v -- HashMap<K,V,S,A> (src/map.rs) as compositions of the RawTable model, exactly as
   the source composes them, plus the executable one-step function `map_step` used by the
   correspondence check.  Elements are (key id, key stamp, value): Hash and Eq look at the id
   only; the stamp distinguishes equal keys so "which key object is stored" is observable. *)
From Coq Require Import ZArith List Bool Lia.
From HB Require Import RsPrelude Sse2 Gen Group Raw.
Import ListNotations.
Open Scope nat_scope.

Record kv : Type := mkKV { k_id : Z; k_stamp : Z; v_val : Z }.

Inductive map_op : Type :=
| OpWithCapacity (n : Z)                 (* replaces the collection by HashMap::with_capacity(n) *)
| OpInsert (k stamp v : Z)
| OpGet (k : Z)
| OpGetKeyValue (k : Z)
| OpContains (k : Z)
| OpGetMut (k newv : Z)                  (* *get_mut(k)? = newv *)
| OpRemove (k : Z)
| OpRemoveEntry (k : Z)
| OpTryInsert (k stamp v : Z)
| OpEntryOrInsert (k stamp v : Z)        (* entry(k).or_insert(v) *)
| OpEntryInsert (k stamp v : Z)          (* entry(k).insert(v) *)
| OpEntryRemove (k stamp : Z)            (* if let Occupied(e) = entry(k) { e.remove_entry() } *)
| OpEntryAndModify (k stamp add v : Z)   (* entry(k).and_modify(|x| *x += add).or_insert(v) *)
| OpEntryDrop (k stamp : Z)              (* drop(entry(k)) *)
| OpClear
| OpReserve (n : Z)
| OpTryReserve (n : Z)
| OpShrinkTo (n : Z)
| OpShrinkToFit
| OpRetain (keep : list Z) (bump : Z)    (* retain(|k, v| { *v += bump; keep.contains(k) }) *)
| OpExtend (kvs : list kv)
| OpDrain (n : nat)                      (* drain(), take n, drop the Drain *)
| OpExtractIf (sel : list Z) (n : nat)   (* extract_if(|k,_| sel.contains(k)), take n, drop it *)
| OpIter                                 (* iter().collect() *)
| OpIterFold (p : nat)                   (* p calls of next(), then fold *)
| OpLen
| OpCapacity
| OpAllocationSize
| OpDropMap                              (* drop the collection; state becomes HashMap::new() *)
(* HashSet<T> = HashMap<T, ()> (src/set.rs); values are 0 *)
| OpSetInsert (k stamp : Z)              (* insert(v) -> bool *)
| OpSetReplace (k stamp : Z)             (* replace(v) -> Option<T>: stores the NEW key object *)
| OpSetTake (k : Z)                      (* take(&v) -> Option<T> *)
| OpSetGet (k : Z)                       (* get(&v) -> Option<&T> (stamp of the stored key) *)
| OpSetGetOrInsert (k stamp : Z)         (* get_or_insert(v) -> &T *)
| OpSetGetOrInsertWith (k stamp fk : Z)  (* get_or_insert_with(&k, |_| key fk with this stamp) *)
| OpSetRemove (k : Z)                    (* remove(&v) -> bool *)
| OpSetToggle (k stamp : Z).             (* one step of `^=`: remove if present, else insert a clone *)

Inductive out : Type :=
| OutUnit
| OutNone
| OutVal (v : Z)
| OutKV (stamp v : Z)                     (* key stamp and value *)
| OutBool (b : bool)
| OutNum (n : Z)
| OutTry (r : try_result)
| OutList (l : list kv)                   (* in implementation order *)
| OutErrOccupied (stamp v : Z)            (* try_insert: stored key stamp and stored value *)
| OutUnwind                               (* the call unwound with a panic from a user callback *)
| OutLibPanic.                            (* the call unwound with a panic raised by the library itself *)

Section Map.
  Variable B : backend.
  Variable tsize talign : Z.
  Variable needs_drop : bool.
  Variable guard_fix : bool.                 (* Gen.rehash_guard_unconditional *)
  Variable hash_of : Z -> option Z.          (* BuildHasher on key ids; None = it panics *)
  Variable alloc_refuses : bool.             (* the allocator refuses the next request *)

  Let T := kv.
  Let tbl := table kv.
  Let ev := event kv.
  Definition hasher (e : kv) : option Z := hash_of (k_id e).
  Definition drop_ok (e : kv) : bool := true.

  Notation R_find := (Raw.find B kv).
  Notation R_remove := (Raw.remove B kv).

  Definition occupants_of (t : tbl) : list kv :=
    flat_map (fun o => match o with Some e => [e] | None => [] end) (slots t).

  Definition eq_key (k : Z) (e : kv) : res bool := Ok (Z.eqb (k_id e) k).

  Definition result : Type := tbl * out * list ev.

  Definition unwind (t : tbl) (evs : list ev) : res result := Ok (t, OutUnwind, evs).

  (* make_hash; a panicking hasher unwinds before the table is touched *)
  Definition with_hash (t : tbl) (k : Z) (f : Z -> res result) : res result :=
    match hash_of k with None => unwind t [] | Some h => f h end.

  (* get_inner: is_empty() short-circuit, no hashing *)
  Definition get_inner (t : tbl) (k : Z) (f : option (nat * kv) -> res result) : res result :=
    if (items t =? 0)%Z then f None else
    with_hash t k (fun h =>
      r <- R_find t h (eq_key k) ;;
      match r with
      | None => f None
      | Some i => e <- slot_ref kv t i ;; f (Some (i, e))
      end).

  Definition m_insert (t : tbl) (k stamp v : Z) : res result :=
    with_hash t k (fun h =>
      '(t1, evs, unw, r) <- find_or_find_insert_slot B kv tsize talign needs_drop hasher guard_fix t h (eq_key k) alloc_refuses ;;
      if unw then unwind t1 evs else
      match r with
      | Some (inl i) =>
          e <- slot_ref kv t1 i ;;
          t2 <- slot_write kv t1 i (mkKV (k_id e) (k_stamp e) v) ;;
          Ok (t2, OutVal (v_val e), evs)
      | Some (inr slot) =>
          t2 <- insert_in_slot B kv t1 h slot (mkKV k stamp v) ;;
          Ok (t2, OutNone, evs)
      | None => Fail UB_unreachable
      end).

  (* HashMap::entry: find only (no reserve); Vacant::insert = RawTable::insert *)
  Definition m_entry (t : tbl) (k : Z) (occ : Z -> nat -> kv -> res result) (vac : Z -> res result) : res result :=
    with_hash t k (fun h =>
      r <- R_find t h (eq_key k) ;;
      match r with
      | Some i => e <- slot_ref kv t i ;; occ h i e
      | None => vac h
      end).

  Definition vacant_insert (t : tbl) (h : Z) (e : kv) (o : out) : res result :=
    '(t1, evs, unw, _) <- Raw.insert B kv tsize talign needs_drop hasher guard_fix t h e alloc_refuses ;;
    if unw then unwind t1 evs else Ok (t1, o, evs).

  Definition m_remove_entry (t : tbl) (k : Z) (mk : kv -> out) : res result :=
    with_hash t k (fun h =>
      r <- R_find t h (eq_key k) ;;
      match r with
      | None => Ok (t, OutNone, [])
      | Some i => '(e, t1) <- R_remove t i ;; Ok (t1, mk e, [EvMoveOut e])
      end).

  (* retain: iterate with RawIter while erasing *)
  Fixpoint retain_loop (fuel : nat) (t : tbl) (it : raw_iter) (keep : list Z) (bump : Z) (evs : list ev)
    : res (tbl * list ev) :=
    match fuel with
    | O => Fail OutOfFuel
    | S f =>
        '(nxt, it') <- iter_next B kv t it ;;
        match nxt with
        | None => Ok (t, evs)
        | Some i =>
            e <- slot_ref kv t i ;;
            let e' := mkKV (k_id e) (k_stamp e) (wadd 64 (v_val e) bump) in
            t1 <- slot_write kv t i e' ;;
            if existsb (Z.eqb (k_id e)) keep then retain_loop f t1 it' keep bump evs
            else '(t2, evs2) <- erase_drop B kv needs_drop t1 i ;; retain_loop f t2 it' keep bump (evs ++ evs2)
        end
    end.

  (* extract_if(sel), n items taken, then dropped *)
  Fixpoint extract_loop (fuel : nat) (t : tbl) (it : raw_iter) (sel : list Z) (n : nat) (acc : list kv) (evs : list ev)
    : res (tbl * list kv * list ev) :=
    match n with
    | O => Ok (t, acc, evs)
    | S n' =>
        match fuel with
        | O => Fail OutOfFuel
        | S f =>
            '(nxt, it') <- iter_next B kv t it ;;
            match nxt with
            | None => Ok (t, acc, evs)
            | Some i =>
                e <- slot_ref kv t i ;;
                if existsb (Z.eqb (k_id e)) sel then
                  '(e', t1) <- R_remove t i ;;
                  extract_loop f t1 it' sel n' (acc ++ [e']) (evs ++ [EvMoveOut e'])
                else extract_loop f t it' sel n acc evs
            end
        end
    end.

  (* drain(): the table is moved out, n items are read, the rest dropped, then clear_no_drop *)
  Fixpoint take_n (t : tbl) (idx : list nat) (n : nat) : res (list kv * list nat * tbl) :=
    match n, idx with
    | S n', i :: r => '(e, t1) <- slot_take kv t i ;; '(es, rest, t2) <- take_n t1 r n' ;; Ok (e :: es, rest, t2)
    | _, _ => Ok ([], idx, t)
    end.

  Definition m_drain (t : tbl) (n : nat) : res result :=
    it <- iter_new B kv t ;;
    idx <- iter_all B kv t it ;;
    '(taken, rest, t1) <- take_n t idx n ;;
    '(dropped, t2) <- take_all kv t1 rest ;;
    let evs := map (fun e => EvMoveOut e) taken ++ (if needs_drop then map (fun e => EvDrop e) dropped else []) in
    Ok (clear_no_drop kv t2, OutList taken, evs).

  Definition elems_at (t : tbl) (idx : list nat) : res (list kv) :=
    fold_right (fun i acc => l <- acc ;; e <- slot_ref kv t i ;; Ok (e :: l)) (Ok []) idx.

  Definition tr_out (t : tbl) (x : tbl * list ev * try_result * bool) (o : try_result -> out) : res result :=
    let '(t1, evs, tr, unw) := x in if unw then unwind t1 evs else Ok (t1, o tr, evs).

  Definition lookup_stamp (t : tbl) (k : Z) : option Z :=
    match List.find (fun e => Z.eqb (k_id e) k) (occupants_of t) with Some e => Some (k_stamp e) | None => None end.

  (* `touched`: keys already written by this extend call.  The event log only reports drops of
     values that were stored when the operation started (what the harness can observe). *)
  Fixpoint extend_loop (t : tbl) (kvs : list kv) (touched : list Z) (evs : list ev) : res result :=
    match kvs with
    | [] => Ok (t, OutUnit, evs)
    | e :: r =>
        '(t1, o, evs1) <- m_insert t (k_id e) (k_stamp e) (v_val e) ;;
        match o with
        | OutUnwind => Ok (t1, OutUnwind, evs ++ evs1)
        | OutVal old =>                 (* `self.insert(k, v);` drops the replaced value *)
            let stored := match lookup_stamp t1 (k_id e) with Some s => s | None => k_stamp e end in
            let d := if needs_drop && negb (existsb (Z.eqb (k_id e)) touched)
                     then [EvDrop (mkKV (k_id e) stored old)] else [] in
            extend_loop t1 r (k_id e :: touched) (evs ++ evs1 ++ d)
        | _ => extend_loop t1 r (k_id e :: touched) (evs ++ evs1)
        end
    end.

  (* find_or_find_insert_slot followed by `found` / `vacant` (set.rs: replace, get_or_insert, get_or_insert_with) *)
  Definition m_find_or_slot (t : tbl) (k : Z)
             (found : tbl -> nat -> kv -> list ev -> res result)
             (vacant : tbl -> Z -> nat -> list ev -> res result) : res result :=
    with_hash t k (fun h =>
      '(t1, evs, unw, r) <- find_or_find_insert_slot B kv tsize talign needs_drop hasher guard_fix t h (eq_key k) alloc_refuses ;;
      if unw then unwind t1 evs else
      match r with
      | Some (inl i) => e <- slot_ref kv t1 i ;; found t1 i e evs
      | Some (inr slot) => vacant t1 h slot evs
      | None => Fail UB_unreachable
      end).

  Definition map_step (t : tbl) (op : map_op) : res result :=
    match op with
    | OpSetInsert k stamp =>
        '(t1, o, evs) <- m_insert t k stamp 0%Z ;;
        Ok (t1, match o with OutNone => OutBool true | OutVal _ => OutBool false | x => x end, evs)
    | OpSetReplace k stamp =>
        m_find_or_slot t k
          (fun t1 i e evs => t2 <- slot_write kv t1 i (mkKV k stamp (v_val e)) ;; Ok (t2, OutKV (k_stamp e) 0%Z, evs))
          (fun t1 h slot evs => t2 <- insert_in_slot B kv t1 h slot (mkKV k stamp 0%Z) ;; Ok (t2, OutNone, evs))
    | OpSetTake k => m_remove_entry t k (fun e => OutKV (k_stamp e) 0%Z)
    | OpSetGet k => get_inner t k (fun r => Ok (t, match r with Some (_, e) => OutKV (k_stamp e) 0%Z | None => OutNone end, []))
    | OpSetGetOrInsert k stamp =>
        m_find_or_slot t k
          (fun t1 i e evs => Ok (t1, OutKV (k_stamp e) 0%Z, evs))
          (fun t1 h slot evs => t2 <- insert_in_slot B kv t1 h slot (mkKV k stamp 0%Z) ;; Ok (t2, OutKV stamp 0%Z, evs))
    | OpSetGetOrInsertWith k stamp fk =>
        m_find_or_slot t k
          (fun t1 i e evs => Ok (t1, OutKV (k_stamp e) 0%Z, evs))
          (fun t1 h slot evs =>
             if Z.eqb fk k then t2 <- insert_in_slot B kv t1 h slot (mkKV fk stamp 0%Z) ;; Ok (t2, OutKV stamp 0%Z, evs)
             else Ok (t1, OutLibPanic, evs))        (* assert!(value.equivalent(&new)) *)
    | OpSetToggle k stamp =>
        m_find_or_slot t k
          (fun t1 i e evs => '(e', t2) <- R_remove t1 i ;; Ok (t2, OutBool false, evs ++ (if needs_drop then [EvDrop e'] else [])))
          (fun t1 h slot evs => t2 <- insert_in_slot B kv t1 h slot (mkKV k stamp 0%Z) ;; Ok (t2, OutBool true, evs))
    | OpSetRemove k =>                 (* self.map.remove(value).is_some(): the element is dropped inside *)
        '(t1, o, evs) <- m_remove_entry t k (fun e => OutBool true) ;;
        Ok (t1, match o with OutNone => OutBool false | x => x end,
            flat_map (fun e => match e with EvMoveOut x => if needs_drop then [EvDrop x] else [] | y => [y] end) evs)
    | OpWithCapacity n =>
        '(evs0, _) <- drop_inner_table B kv tsize talign needs_drop drop_ok t ;;
        r <- fallible_with_capacity B kv tsize talign n alloc_refuses Infallible ;;
        match r with
        | (Some nt, evs, _) => Ok (nt, OutUnit, evs ++ evs0)    (* `*m = with_capacity(n)`: new first, then drop the old one *)
        | _ => Fail UB_unreachable
        end
    | OpInsert k stamp v => m_insert t k stamp v
    | OpGet k => get_inner t k (fun r => Ok (t, match r with Some (_, e) => OutVal (v_val e) | None => OutNone end, []))
    | OpGetKeyValue k => get_inner t k (fun r => Ok (t, match r with Some (_, e) => OutKV (k_stamp e) (v_val e) | None => OutNone end, []))
    | OpContains k => get_inner t k (fun r => Ok (t, OutBool (match r with Some _ => true | None => false end), []))
    | OpGetMut k newv =>
        get_inner t k (fun r =>
          match r with
          | Some (i, e) => t1 <- slot_write kv t i (mkKV (k_id e) (k_stamp e) newv) ;; Ok (t1, OutVal (v_val e), [])
          | None => Ok (t, OutNone, [])
          end)
    | OpRemove k => m_remove_entry t k (fun e => OutVal (v_val e))
    | OpRemoveEntry k => m_remove_entry t k (fun e => OutKV (k_stamp e) (v_val e))
    | OpTryInsert k stamp v =>
        m_entry t k (fun _ _ e => Ok (t, OutErrOccupied (k_stamp e) (v_val e), []))
                    (fun h => vacant_insert t h (mkKV k stamp v) OutNone)
    | OpEntryOrInsert k stamp v =>
        m_entry t k (fun _ _ e => Ok (t, OutVal (v_val e), []))
                    (fun h => vacant_insert t h (mkKV k stamp v) (OutVal v))
    | OpEntryInsert k stamp v =>
        m_entry t k (fun _ i e => t1 <- slot_write kv t i (mkKV (k_id e) (k_stamp e) v) ;; Ok (t1, OutVal (v_val e), []))
                    (fun h => vacant_insert t h (mkKV k stamp v) OutNone)
    | OpEntryRemove k stamp =>
        m_entry t k (fun _ i _ => '(e, t1) <- R_remove t i ;; Ok (t1, OutKV (k_stamp e) (v_val e), [EvMoveOut e]))
                    (fun _ => Ok (t, OutNone, []))
    | OpEntryAndModify k stamp add v =>
        m_entry t k (fun _ i e => let nv := wadd 64 (v_val e) add in
                                  t1 <- slot_write kv t i (mkKV (k_id e) (k_stamp e) nv) ;; Ok (t1, OutVal nv, []))
                    (fun h => vacant_insert t h (mkKV k stamp v) (OutVal v))
    | OpEntryDrop k stamp =>
        m_entry t k (fun _ _ e => Ok (t, OutBool true, [])) (fun _ => Ok (t, OutBool false, []))
    | OpClear =>
        '(t1, evs, ok) <- Raw.clear B kv needs_drop drop_ok t ;;
        if ok then Ok (t1, OutUnit, evs) else unwind t1 evs
    | OpReserve n =>
        x <- Raw.reserve B kv tsize talign needs_drop hasher guard_fix t n alloc_refuses ;;
        tr_out t x (fun _ => OutUnit)
    | OpTryReserve n =>
        x <- Raw.try_reserve B kv tsize talign needs_drop hasher guard_fix t n alloc_refuses ;;
        tr_out t x OutTry
    | OpShrinkTo n =>
        '(t1, evs, unw) <- Raw.shrink_to B kv tsize talign needs_drop drop_ok hasher t n alloc_refuses ;;
        if unw then unwind t1 evs else Ok (t1, OutUnit, evs)
    | OpShrinkToFit =>
        '(t1, evs, unw) <- Raw.shrink_to B kv tsize talign needs_drop drop_ok hasher t 0%Z alloc_refuses ;;
        if unw then unwind t1 evs else Ok (t1, OutUnit, evs)
    | OpRetain keep bump =>
        it <- iter_new B kv t ;;
        '(t1, evs) <- retain_loop (S (buckets kv t)) t it keep bump [] ;;
        Ok (t1, OutUnit, evs)
    | OpExtend kvs =>
        let reserve_n := map_extend_reserve (items t =? 0)%Z (zn (length kvs)) in
        x <- Raw.reserve B kv tsize talign needs_drop hasher guard_fix t reserve_n alloc_refuses ;;
        let '(t1, evs, _, unw) := x in
        if unw then unwind t1 evs else extend_loop t1 kvs [] evs
    | OpDrain n => m_drain t n
    | OpExtractIf sel n =>
        it <- iter_new B kv t ;;
        '(t1, acc, evs) <- extract_loop (S (buckets kv t)) t it sel n [] [] ;;
        Ok (t1, OutList acc, evs)
    | OpIter =>
        it <- iter_new B kv t ;;
        idx <- iter_all B kv t it ;;
        es <- elems_at t idx ;;
        Ok (t, OutList es, [])
    | OpIterFold p =>
        it <- iter_new B kv t ;;
        (fix go (fuel p : nat) (it : raw_iter) (acc : list nat) : res result :=
           match p with
           | O => rest <- iter_fold B kv t it ;; es <- elems_at t (acc ++ rest) ;; Ok (t, OutList es, [])
           | S p' =>
               match fuel with
               | O => Fail OutOfFuel
               | S f =>
                   '(nxt, it') <- iter_next B kv t it ;;
                   match nxt with
                   | None => es <- elems_at t acc ;; Ok (t, OutList es, [])
                   | Some i => go f p' it' (acc ++ [i])
                   end
               end
           end) (S (buckets kv t)) p it []
    | OpLen => Ok (t, OutNum (items t), [])
    | OpCapacity => Ok (t, OutNum (Raw.capacity kv t), [])
    | OpAllocationSize => n <- Raw.allocation_size B kv tsize talign t ;; Ok (t, OutNum n, [])
    | OpDropMap =>
        '(evs, _) <- drop_inner_table B kv tsize talign needs_drop drop_ok t ;;
        Ok (new_table B kv, OutUnit, evs)
    end.
End Map.
