(* Raw.v -- executable model of hashbrown's RawTable / RawTableInner (src/raw/mod.rs).

   One Gallina function per Rust function, same control flow and same order of side effects.
   Every `unsafe` primitive is CHECKED: where the Rust code relies on a safety precondition the
   model returns `Fail <which one>`; loops carry the fuel bound the code relies on.  All index /
   accounting arithmetic is imported from the GENERATED file Gen.v (via the nat wrappers below),
   so the model follows the source expressions.  No proofs in this file. *)
From Coq Require Import ZArith List Bool Lia.
From HB Require Import RsPrelude Sse2 Gen Group.
Import ListNotations.
Open Scope nat_scope.

(* ---------------------------------------------------------------------------------------- *)
(* results                                                                                    *)
(* ---------------------------------------------------------------------------------------- *)
Inductive err : Type :=
| UB_ctrl_oob          (* control byte index >= buckets + Group::WIDTH *)
| UB_group_oob         (* Group::load past the end of the control bytes *)
| UB_group_unaligned   (* Group::load_aligned at a non multiple of Group::WIDTH *)
| UB_slot_oob          (* bucket index >= buckets *)
| UB_slot_uninit       (* read / drop of a slot that holds no element *)
| UB_slot_singleton    (* element access on the static empty singleton *)
| UB_write_singleton   (* control byte write on the static empty singleton *)
| UB_unwrap_none       (* unwrap_unchecked on None *)
| UB_unreachable       (* hint::unreachable_unchecked reached *)
| UB_free_singleton    (* free_buckets on the singleton *)
| UB_bad_layout        (* allocation_info: layout not computable *)
| OutOfFuel            (* a loop ran longer than the bound the code relies on *)
| Panic                (* a user callback panicked and no guard caught it at this level *)
| PanicCapacityOverflow(* Fallibility::Infallible.capacity_overflow() *)
| AbortAlloc           (* handle_alloc_error *)
| PanicOther.          (* an explicit panic!() of the library, e.g. "duplicate keys found" *)

Inductive res (A : Type) : Type := Ok (a : A) | Fail (e : err).
Arguments Ok {A} a.
Arguments Fail {A} e.

Definition bind {A C} (r : res A) (f : A -> res C) : res C :=
  match r with Ok a => f a | Fail e => Fail e end.
Notation "x <- r ;; k" := (bind r (fun x => k)) (at level 61, r at next level, right associativity).
Notation "' p <- r ;; k" := (bind r (fun p => k)) (at level 61, p pattern, r at next level, right associativity).

(* ---------------------------------------------------------------------------------------- *)
(* nat wrappers around the generated (Z) arithmetic                                           *)
(* ---------------------------------------------------------------------------------------- *)
Definition zn := Z.of_nat.
Definition nz := Z.to_nat.

Section Arith.
  Variable GW : nat.
  Definition n_land (a b : nat) : nat := nz (Z.land (zn a) (zn b)).
  Definition n_probe_start (mask : nat) (hash : Z) : nat := nz (fst (probe_seq (zn mask) hash)).
  Definition n_move_next (mask pos stride : nat) : nat * nat :=
    let '(p, s) := probe_move_next (zn GW) (zn pos) (zn stride) (zn mask) in (nz p, nz s).
  Definition n_index2 (mask i : nat) : nat := nz (set_ctrl_index2 (zn GW) (zn mask) (zn i)).
  Definition n_index_before (mask i : nat) : nat := nz (erase_index_before (zn GW) (zn mask) (zn i)).
  Definition z_cap (mask : nat) : Z := bucket_mask_to_capacity (zn mask).
  Definition n_same_group (mask i new_i : nat) (hash : Z) : bool :=
    is_in_same_group (zn GW) (zn mask) (zn i) (zn new_i) hash.
End Arith.

(* list update *)
Definition upd {A} (l : list A) (i : nat) (x : A) : list A := firstn i l ++ x :: skipn (S i) l.

(* ---------------------------------------------------------------------------------------- *)
(* state                                                                                      *)
(* ---------------------------------------------------------------------------------------- *)
Record table (T : Type) : Type := mkTable {
  mask : nat;                    (* bucket_mask; buckets = mask + 1 *)
  ctrl : list Z;                 (* buckets + Group::WIDTH control bytes, including the mirror *)
  slots : list (option T);       (* buckets slots; Some = initialised memory owned by the table *)
  items : Z;                     (* usize *)
  growth_left : Z                (* usize *)
}.
Arguments mkTable {T}.
Arguments mask {T}. Arguments ctrl {T}. Arguments slots {T}. Arguments items {T}. Arguments growth_left {T}.

(* observable side effects, in order *)
Inductive event (T : Type) : Type :=
| EvAlloc (size align : Z)
| EvFree (size align : Z)
| EvDrop (e : T)                 (* the table ran T's destructor on e *)
| EvMoveOut (e : T).             (* e was handed back to the caller *)
Arguments EvAlloc {T}. Arguments EvFree {T}. Arguments EvDrop {T}. Arguments EvMoveOut {T}.

Inductive try_result : Type :=
| TR_ok
| TR_capacity_overflow
| TR_alloc_error (size align : Z).

Inductive fallibility := Fallible | Infallible.

(* uninitialised control memory (new_uninitialized): a value that is no control byte *)
Definition POISON : Z := (-1)%Z.

Section Raw.
  Variable B : backend.
  Variable T : Type.
  (* TableLayout::new::<T>() and T::NEEDS_DROP *)
  Variable tsize talign : Z.
  Variable needs_drop : bool.

  Let GW := bk_width B.
  Let tbl := table T.
  Let ev := event T.

  Definition ctrl_align : Z := snd (table_layout_new (zn GW) tsize talign).
  Definition lay_size : Z := fst (table_layout_new (zn GW) tsize talign).

  Definition buckets (t : tbl) : nat := S (mask t).
  Definition num_ctrl (t : tbl) : nat := nz (num_ctrl_bytes (zn GW) (zn (mask t))).
  Definition is_singleton (t : tbl) : bool := mask t =? 0.

  (* RawTableInner::NEW *)
  Definition new_table : tbl :=
    mkTable 0 (repeat EMPTY GW) [None] 0%Z 0%Z.

  (* ---- checked primitives ---- *)
  Definition ctrl_at (t : tbl) (i : nat) : res Z :=
    match nth_error (ctrl t) i with Some b => Ok b | None => Fail UB_ctrl_oob end.

  Definition load (t : tbl) (p : nat) : res (list Z) :=
    if p + GW <=? length (ctrl t) then Ok (firstn GW (skipn p (ctrl t))) else Fail UB_group_oob.

  Definition load_aligned (t : tbl) (p : nat) : res (list Z) :=
    if p mod GW =? 0 then load t p else Fail UB_group_unaligned.

  Definition with_ctrl (t : tbl) (c : list Z) : tbl :=
    mkTable (mask t) c (slots t) (items t) (growth_left t).
  Definition with_slots (t : tbl) (s : list (option T)) : tbl :=
    mkTable (mask t) (ctrl t) s (items t) (growth_left t).
  Definition with_counts (t : tbl) (i g : Z) : tbl :=
    mkTable (mask t) (ctrl t) (slots t) i g.

  (* set_ctrl: writes the byte and its replica (index2 from the source expression) *)
  Definition set_ctrl (t : tbl) (i : nat) (b : Z) : res tbl :=
    if is_singleton t then Fail UB_write_singleton else
    let i2 := n_index2 GW (mask t) i in
    if (i <? length (ctrl t)) && (i2 <? length (ctrl t))
    then Ok (with_ctrl t (upd (upd (ctrl t) i b) i2 b))
    else Fail UB_ctrl_oob.

  Definition set_ctrl_hash (t : tbl) (i : nat) (hash : Z) : res tbl :=
    set_ctrl t i (tag_full hash).

  Definition slot_ref (t : tbl) (i : nat) : res T :=
    if is_singleton t then Fail UB_slot_singleton else
    match nth_error (slots t) i with
    | Some (Some e) => Ok e
    | Some None => Fail UB_slot_uninit
    | None => Fail UB_slot_oob
    end.

  Definition slot_write (t : tbl) (i : nat) (e : T) : res tbl :=
    if is_singleton t then Fail UB_slot_singleton else
    if i <? length (slots t) then Ok (with_slots t (upd (slots t) i (Some e))) else Fail UB_slot_oob.

  (* Bucket::read / drop: the value leaves the slot *)
  Definition slot_take (t : tbl) (i : nat) : res (T * tbl) :=
    e <- slot_ref t i ;; Ok (e, with_slots t (upd (slots t) i None)).

  Definition is_bucket_full (t : tbl) (i : nat) : res bool :=
    b <- ctrl_at t i ;; Ok (is_full b).

  (* ---- probing ---- *)
  (* the number of probe steps the code relies on: one per group *)
  Definition probe_fuel (t : tbl) : nat := Nat.max 1 (buckets t / GW).

  (* for bit in group.match_tag(tag): index = (pos + bit) & mask; if eq(index) return index *)
  Fixpoint scan_matches (t : tbl) (eq : nat -> res bool) (pos : nat) (bits : list nat) : res (option nat) :=
    match bits with
    | [] => Ok None
    | b :: r =>
        let index := n_land (pos + b) (mask t) in
        e <- eq index ;;
        if e then Ok (Some index) else scan_matches t eq pos r
    end.

  Fixpoint find_inner_loop (fuel : nat) (t : tbl) (tag : Z) (eq : nat -> res bool)
           (pos stride : nat) : res (option nat) :=
    match fuel with
    | O => Fail OutOfFuel
    | S f =>
        g <- load t pos ;;
        r <- scan_matches t eq pos (g_match_tag B g tag) ;;
        match r with
        | Some i => Ok (Some i)
        | None =>
            if g_any_empty B g then Ok None
            else let '(p', s') := n_move_next GW (mask t) pos stride in
                 find_inner_loop f t tag eq p' s'
        end
    end.

  (* RawTableInner::find_inner *)
  Definition find_inner (t : tbl) (hash : Z) (eq : nat -> res bool) : res (option nat) :=
    find_inner_loop (probe_fuel t) t (tag_full hash) eq (n_probe_start (mask t) hash) 0.

  (* the closure RawTable::find builds: eq(self.bucket(index).as_ref()) *)
  Definition eq_at (t : tbl) (eqf : T -> res bool) (i : nat) : res bool :=
    e <- slot_ref t i ;; eqf e.

  Definition find (t : tbl) (hash : Z) (eqf : T -> res bool) : res (option nat) :=
    find_inner t hash (eq_at t eqf).

  Definition find_insert_slot_in_group (t : tbl) (g : list Z) (pos : nat) : option nat :=
    match g_lowest_eod B g with
    | Some bit => Some (n_land (pos + bit) (mask t))
    | None => None
    end.

  (* fix_insert_slot *)
  Definition fix_insert_slot (t : tbl) (index : nat) : res nat :=
    full <- is_bucket_full t index ;;
    if full then
      g <- load_aligned t 0 ;;
      match g_lowest_eod B g with
      | Some i => Ok i
      | None => Fail UB_unwrap_none
      end
    else Ok index.

  Fixpoint find_insert_slot_loop (fuel : nat) (t : tbl) (pos stride : nat) : res nat :=
    match fuel with
    | O => Fail OutOfFuel
    | S f =>
        g <- load t pos ;;
        match find_insert_slot_in_group t g pos with
        | Some index => fix_insert_slot t index
        | None => let '(p', s') := n_move_next GW (mask t) pos stride in
                  find_insert_slot_loop f t p' s'
        end
    end.

  Definition find_insert_slot (t : tbl) (hash : Z) : res nat :=
    find_insert_slot_loop (probe_fuel t) t (n_probe_start (mask t) hash) 0.

  (* find_or_find_insert_slot_inner: inl = found bucket, inr = insert slot *)
  Fixpoint find_or_insert_loop (fuel : nat) (t : tbl) (tag : Z) (eq : nat -> res bool)
           (insert_slot : option nat) (pos stride : nat) : res (nat + nat) :=
    match fuel with
    | O => Fail OutOfFuel
    | S f =>
        g <- load t pos ;;
        r <- scan_matches t eq pos (g_match_tag B g tag) ;;
        match r with
        | Some i => Ok (inl i)
        | None =>
            let insert_slot' := match insert_slot with
                                | Some s => Some s
                                | None => find_insert_slot_in_group t g pos
                                end in
            if g_any_empty B g then
              match insert_slot' with
              | Some s => s' <- fix_insert_slot t s ;; Ok (inr s')
              | None => Fail UB_unwrap_none
              end
            else let '(p', s') := n_move_next GW (mask t) pos stride in
                 find_or_insert_loop f t tag eq insert_slot' p' s'
        end
    end.

  Definition find_or_find_insert_slot_inner (t : tbl) (hash : Z) (eq : nat -> res bool) : res (nat + nat) :=
    find_or_insert_loop (probe_fuel t) t (tag_full hash) eq None (n_probe_start (mask t) hash) 0.

  (* prepare_insert_slot *)
  Definition prepare_insert_slot (t : tbl) (hash : Z) : res (nat * Z * tbl) :=
    index <- find_insert_slot t hash ;;
    old <- ctrl_at t index ;;
    t' <- set_ctrl_hash t index hash ;;
    Ok (index, old, t').

  (* record_item_insert_at: accounting from the source *)
  Definition record_item_insert_at (t : tbl) (index : nat) (old_ctrl : Z) (hash : Z) : res tbl :=
    let '(g, i) := Gen.record_item_insert_at (growth_left t) (items t) 0 0 0 (tag_special_is_empty old_ctrl) in
    t' <- set_ctrl_hash t index hash ;;
    Ok (with_counts t' i g).

  (* RawTable::insert_in_slot *)
  Definition insert_in_slot (t : tbl) (hash : Z) (slot : nat) (value : T) : res tbl :=
    old <- ctrl_at t slot ;;
    t1 <- record_item_insert_at t slot old hash ;;
    if slot <? buckets t1 then slot_write t1 slot value else Fail UB_slot_oob.

  (* RawTableInner::erase *)
  Definition erase (t : tbl) (index : nat) : res tbl :=
    let index_before := n_index_before GW (mask t) index in
    gb <- load t index_before ;;
    ga <- load t index ;;
    let deleted := erase_choose_deleted (zn GW) (zn (g_empty_lz B gb)) (zn (g_empty_tz B ga)) in
    let c := if deleted then DELETED else EMPTY in
    let gl := if deleted then growth_left t else wadd 64 (growth_left t) 1 in
    t' <- set_ctrl t index c ;;
    Ok (with_counts t' (wsub 64 (items t) 1) gl).

  (* RawTable::remove: erase_no_drop then read *)
  Definition remove (t : tbl) (index : nat) : res (T * tbl) :=
    if buckets t <=? index then Fail UB_slot_oob else
    t1 <- erase t index ;;
    slot_take t1 index.

  (* RawTable::erase: erase_no_drop then drop in place *)
  Definition erase_drop (t : tbl) (index : nat) : res (tbl * list ev) :=
    '(e, t1) <- remove t index ;;
    Ok (t1, if needs_drop then [EvDrop e] else []).

  (* ---- allocation ---- *)
  Definition layout_for (nb : nat) : option (Z * Z * Z) :=
    match calculate_layout_for (zn GW) lay_size ctrl_align (zn nb) with
    | Some ((len, al), off) => Some (len, al, off)
    | None => None
    end.

  Definition capacity_overflow {A} (f : fallibility) (t : A) : res (A * try_result) :=
    match f with Fallible => Ok (t, TR_capacity_overflow) | Infallible => Fail PanicCapacityOverflow end.
  Definition alloc_err {A} (f : fallibility) (t : A) (size align : Z) : res (A * try_result) :=
    match f with Fallible => Ok (t, TR_alloc_error size align) | Infallible => Fail AbortAlloc end.

  (* new_uninitialized: control bytes are NOT initialised *)
  Definition new_uninitialized (nb : nat) (alloc_refuses : bool) (f : fallibility)
    : res (option tbl * list ev * try_result) :=
    match layout_for nb with
    | None => match f with Fallible => Ok (None, [], TR_capacity_overflow) | Infallible => Fail PanicCapacityOverflow end
    | Some (len, al, _) =>
        if alloc_refuses then
          match f with Fallible => Ok (None, [], TR_alloc_error len al) | Infallible => Fail AbortAlloc end
        else
          Ok (Some (mkTable (nb - 1) (repeat POISON (nb + GW)) (repeat None nb) 0%Z (z_cap (nb - 1))),
              [EvAlloc len al], TR_ok)
    end.

  (* fallible_with_capacity *)
  Definition fallible_with_capacity (cap : Z) (alloc_refuses : bool) (f : fallibility)
    : res (option tbl * list ev * try_result) :=
    if (cap =? 0)%Z then Ok (Some new_table, [], TR_ok) else
    match capacity_to_buckets (zn GW) cap lay_size ctrl_align with
    | None => match f with Fallible => Ok (None, [], TR_capacity_overflow) | Infallible => Fail PanicCapacityOverflow end
    | Some nb =>
        r <- new_uninitialized (nz nb) alloc_refuses f ;;
        match r with
        | (Some t, evs, tr) => Ok (Some (with_ctrl t (repeat EMPTY (length (ctrl t)))), evs, tr)
        | other => Ok other
        end
    end.

  (* free_buckets *)
  Definition free_buckets (t : tbl) : res (list ev) :=
    if is_singleton t then Fail UB_free_singleton else
    match layout_for (buckets t) with
    | Some (len, al, _) => Ok [EvFree len al]
    | None => Fail UB_bad_layout
    end.

  (* ---- iteration over FULL buckets (RawIterRange / RawIter / FullBucketsIndices) ---- *)
  Record raw_iter : Type := mkIter {
    it_cur : list nat;      (* current_group: remaining bits of the loaded group *)
    it_first : nat;         (* bucket index of the first byte of the loaded group (`data`) *)
    it_next : nat;          (* next_ctrl, as an index into the control bytes *)
    it_end : nat;           (* end *)
    it_items : Z            (* RawIter.items *)
  }.

  (* RawIterRange::new(ctrl + start, data, len) *)
  Definition range_new (t : tbl) (start len : nat) (n_items : Z) : res raw_iter :=
    g <- load_aligned t start ;;
    Ok (mkIter (g_match_full B g) start (start + GW) (start + len) n_items).

  (* RawTableInner::iter *)
  Definition iter_new (t : tbl) : res raw_iter := range_new t 0 (buckets t) (items t).

  (* RawIterRange::next_impl::<DO_CHECK_PTR_RANGE> *)
  Fixpoint next_impl (fuel : nat) (check : bool) (t : tbl) (it : raw_iter) : res (option nat * raw_iter) :=
    match it_cur it with
    | b :: r => Ok (Some (it_first it + b), mkIter r (it_first it) (it_next it) (it_end it) (it_items it))
    | [] =>
        if check && (it_end it <=? it_next it) then Ok (None, it) else
        match fuel with
        | O => Fail OutOfFuel
        | S f =>
            g <- load_aligned t (it_next it) ;;
            next_impl f check t
              (mkIter (g_match_full B g) (it_first it + GW) (it_next it + GW) (it_end it) (it_items it))
        end
    end.

  Definition iter_fuel (t : tbl) : nat := S (buckets t / GW).

  (* RawIter::next *)
  Definition iter_next (t : tbl) (it : raw_iter) : res (option nat * raw_iter) :=
    if (it_items it =? 0)%Z then Ok (None, it) else
    '(nxt, it') <- next_impl (iter_fuel t) false t it ;;
    Ok (nxt, mkIter (it_cur it') (it_first it') (it_next it') (it_end it') (wsub 64 (it_items it') 1)).

  (* all remaining buckets of a RawIter (repeated next) *)
  Fixpoint iter_collect (fuel : nat) (t : tbl) (it : raw_iter) : res (list nat) :=
    match fuel with
    | O => Fail OutOfFuel
    | S f =>
        '(nxt, it') <- iter_next t it ;;
        match nxt with
        | None => Ok []
        | Some i => rest <- iter_collect f t it' ;; Ok (i :: rest)
        end
    end.
  Definition iter_all (t : tbl) (it : raw_iter) : res (list nat) := iter_collect (S (buckets t)) t it.

  (* RawIterRange::fold_impl(n, ..): returns the visited buckets in order *)
  Fixpoint fold_impl (fuel : nat) (t : tbl) (it : raw_iter) (n : Z) : res (list nat) :=
    let visited := map (fun b => it_first it + b) (it_cur it) in
    let n' := wsub 64 n (zn (length (it_cur it))) in
    if (zn (length (it_cur it)) >? n)%Z then Fail UB_slot_uninit   (* debug_assert!(n != 0) violated *)
    else if (n' =? 0)%Z then Ok visited else
    match fuel with
    | O => Fail OutOfFuel
    | S f =>
        g <- load_aligned t (it_next it) ;;
        rest <- fold_impl f t (mkIter (g_match_full B g) (it_first it + GW) (it_next it + GW) (it_end it) 0%Z) n' ;;
        Ok (visited ++ rest)
    end.
  Definition iter_fold (t : tbl) (it : raw_iter) : res (list nat) :=
    fold_impl (iter_fuel t) t it (it_items it).

  (* full_buckets_indices: same scan, driven by the items countdown *)
  Definition full_buckets_indices (t : tbl) : res (list nat) :=
    it <- iter_new t ;; iter_all t it.

  (* ---- element destruction ---- *)
  Fixpoint take_all (t : tbl) (idx : list nat) : res (list T * tbl) :=
    match idx with
    | [] => Ok ([], t)
    | i :: r => '(e, t1) <- slot_take t i ;; '(es, t2) <- take_all t1 r ;; Ok (e :: es, t2)
    end.

  (* drop_elements: runs T's destructor on every FULL bucket (if T needs it), in bucket order.
     `drop_ok e = false` models a destructor that panics: the remaining elements are leaked
     and the panic propagates to the caller's guard. *)
  Variable drop_ok : T -> bool.

  Fixpoint drop_list (es : list T) : list ev * bool :=
    match es with
    | [] => ([], true)
    | e :: r => if drop_ok e then let '(evs, ok) := drop_list r in (EvDrop e :: evs, ok)
                else ([EvDrop e], false)
    end.

  Definition drop_elements (t : tbl) : res (tbl * list ev * bool) :=
    if needs_drop && negb (items t =? 0)%Z then
      idx <- full_buckets_indices t ;;
      '(es, t1) <- take_all t idx ;;
      let '(evs, ok) := drop_list es in Ok (t1, evs, ok)
    else Ok (t, [], true).

  (* clear_no_drop *)
  Definition clear_no_drop (t : tbl) : tbl :=
    let '(i, g) := clear_no_drop_accounting (items t) (growth_left t) (zn (mask t)) in
    mkTable (mask t)
            (if is_singleton t then ctrl t else repeat EMPTY (length (ctrl t)))
            (map (fun _ => None) (slots t)) i g.

  (* RawTable::clear with its guard; result bool = false when a destructor panicked (Unwind) *)
  Definition clear (t : tbl) : res (tbl * list ev * bool) :=
    if (items t =? 0)%Z then Ok (t, [], true) else
    '(t1, evs, ok) <- drop_elements t ;;
    Ok (clear_no_drop t1, evs, ok).

  (* drop_inner_table (the Drop impl and shrink_to(0)) *)
  Definition drop_inner_table (t : tbl) : res (list ev * bool) :=
    if is_singleton t then Ok ([], true) else
    '(t1, evs, ok) <- drop_elements t ;;
    if ok then fr <- free_buckets t1 ;; Ok (evs ++ fr, true) else Ok (evs, false).

  (* ---- resize ---- *)
  (* hasher(table, index): reads the element; None result = the hasher panicked *)
  Variable hasher : T -> option Z.

  Definition hash_at (t : tbl) (i : nat) : res (option Z) :=
    e <- slot_ref t i ;; Ok (hasher e).

  (* the loop of resize_inner; returns None when the hasher panicked *)
  Fixpoint resize_loop (t : tbl) (nt : tbl) (idx : list nat) : res (option tbl) :=
    match idx with
    | [] => Ok (Some nt)
    | i :: r =>
        oh <- hash_at t i ;;
        match oh with
        | None => Ok None
        | Some hash =>
            '(new_index, _, nt1) <- prepare_insert_slot nt hash ;;
            e <- slot_ref t i ;;
            nt2 <- slot_write nt1 new_index e ;;
            resize_loop t nt2 r
        end
    end.

  (* resize_inner.  Result: (table, events, try_result, unwound) *)
  Definition resize_inner (t : tbl) (capacity : Z) (alloc_refuses : bool) (f : fallibility)
    : res (tbl * list ev * try_result * bool) :=
    r <- fallible_with_capacity capacity alloc_refuses f ;;
    match r with
    | (None, evs, tr) => Ok (t, evs, tr, false)
    | (Some nt, evs, _) =>
        idx <- full_buckets_indices t ;;
        ont <- resize_loop t nt idx ;;
        match ont with
        | None =>                                       (* hasher panicked: guard frees the new table *)
            fr <- (if is_singleton nt then Ok [] else free_buckets nt) ;;
            Ok (t, evs ++ fr, TR_ok, true)
        | Some nt' =>
            let nt'' := with_counts nt' (items t) (wsub 64 (growth_left nt') (items t)) in
            fr <- (if is_singleton t then Ok [] else free_buckets t) ;;
            Ok (nt'', evs ++ fr, TR_ok, false)
        end
    end.

  (* ---- rehash_in_place ---- *)
  Fixpoint convert_groups (n : nat) (c : list Z) (p : nat) : list Z :=
    match n with
    | O => c
    | S k =>
        let g := firstn GW (skipn p c) in
        let c' := firstn p c ++ g_convert B g ++ skipn (p + GW) c in
        convert_groups k c' (p + GW)
    end.

  (* prepare_rehash_in_place *)
  Definition prepare_rehash_in_place (t : tbl) : res tbl :=
    if is_singleton t then Fail UB_write_singleton else
    let ngroups := (buckets t + GW - 1) / GW in                 (* (0..buckets).step_by(WIDTH) *)
    if ngroups * GW <=? length (ctrl t) then
      let c1 := convert_groups ngroups (ctrl t) 0 in
      let c2 := if buckets t <? GW
                then firstn GW c1 ++ firstn (buckets t) c1 ++ skipn (GW + buckets t) c1
                else firstn (buckets t) c1 ++ firstn GW c1 in
      Ok (with_ctrl t c2)
    else Fail UB_group_oob.

  (* the guard of rehash_in_place, as written in the source *)
  Variable guard_resets_without_drop : bool.
    (* true  <=> the guard's loop over DELETED bytes runs regardless of `drop` (repaired source);
       false <=> it runs only `if let Some(drop) = drop` (hashbrown 0.15.2 as pinned).
       The value is read from the source by the translator (Gen.rehash_guard_unconditional). *)

  Fixpoint guard_loop (n : nat) (t : tbl) (i : nat) (evs : list ev) : res (tbl * list ev) :=
    match n with
    | O => Ok (t, evs)
    | S k =>
        b <- ctrl_at t i ;;
        if (b =? DELETED)%Z then
          t1 <- set_ctrl t i EMPTY ;;
          if needs_drop then
            '(e, t2) <- slot_take t1 i ;;
            guard_loop k (with_counts t2 (wsub 64 (items t2) 1) (growth_left t2)) (S i) (evs ++ [EvDrop e])
          else
            guard_loop k (with_counts (with_slots t1 (upd (slots t1) i None)) (wsub 64 (items t1) 1) (growth_left t1))
                       (S i) evs
        else guard_loop k t (S i) evs
    end.

  Definition rehash_guard (t : tbl) : res (tbl * list ev) :=
    '(t1, evs) <- (if needs_drop || guard_resets_without_drop
                   then guard_loop (buckets t) t 0 [] else Ok (t, [])) ;;
    Ok (with_counts t1 (items t1) (wsub 64 (z_cap (mask t1)) (items t1)), evs).

  Definition swap_slots (t : tbl) (i j : nat) : res tbl :=
    match nth_error (slots t) i, nth_error (slots t) j with
    | Some a, Some b => Ok (with_slots t (upd (upd (slots t) i b) j a))
    | _, _ => Fail UB_slot_oob
    end.

  (* 'inner loop for bucket i; returns None when the hasher panicked (state = where it stopped) *)
  Fixpoint rehash_inner (fuel : nat) (t : tbl) (i : nat) : res (tbl * bool) :=
    match fuel with
    | O => Fail OutOfFuel
    | S f =>
        oh <- hash_at t i ;;
        match oh with
        | None => Ok (t, false)
        | Some hash =>
            new_i <- find_insert_slot t hash ;;
            if n_same_group GW (mask t) i new_i hash then
              t1 <- set_ctrl_hash t i hash ;; Ok (t1, true)
            else
              prev <- ctrl_at t new_i ;;
              t1 <- set_ctrl_hash t new_i hash ;;
              if (prev =? EMPTY)%Z then
                t2 <- set_ctrl t1 i EMPTY ;;
                e <- slot_ref t2 i ;;
                t3 <- slot_write t2 new_i e ;;
                Ok (with_slots t3 (upd (slots t3) i None), true)
              else
                (* debug_assert_eq!(prev_ctrl, DELETED) *)
                t2 <- swap_slots t1 i new_i ;;
                rehash_inner f t2 i
        end
    end.

  Fixpoint rehash_outer (n : nat) (t : tbl) (i : nat) : res (tbl * bool) :=
    match n with
    | O => Ok (t, true)
    | S k =>
        b <- ctrl_at t i ;;
        if negb (b =? DELETED)%Z then rehash_outer k t (S i) else
        '(t1, ok) <- rehash_inner (S (buckets t)) t i ;;
        if ok then rehash_outer k t1 (S i) else Ok (t1, false)
    end.

  (* rehash_in_place.  Result: (table, events, unwound) *)
  Definition rehash_in_place (t : tbl) : res (tbl * list ev * bool) :=
    t0 <- prepare_rehash_in_place t ;;
    '(t1, ok) <- rehash_outer (buckets t0) t0 0 ;;
    if ok then
      Ok (with_counts t1 (items t1) (wsub 64 (z_cap (mask t1)) (items t1)), [], false)
    else
      '(t2, evs) <- rehash_guard t1 ;; Ok (t2, evs, true).

  (* reserve_rehash_inner *)
  Definition reserve_rehash (t : tbl) (additional : Z) (alloc_refuses : bool) (f : fallibility)
    : res (tbl * list ev * try_result * bool) :=
    match reserve_rehash_new_items (items t) additional with
    | None => '(t', tr) <- capacity_overflow f t ;; Ok (t', [], tr, false)
    | Some new_items =>
        let full_capacity := reserve_rehash_full_capacity (zn (mask t)) in
        if reserve_rehash_in_place new_items full_capacity then
          '(t1, evs, unw) <- rehash_in_place t ;; Ok (t1, evs, TR_ok, unw)
        else
          resize_inner t (reserve_rehash_resize_target new_items full_capacity) alloc_refuses f
    end.

  (* RawTable::reserve / try_reserve *)
  Definition reserve (t : tbl) (additional : Z) (alloc_refuses : bool)
    : res (tbl * list ev * try_result * bool) :=
    if (additional >? growth_left t)%Z then
      '(t', evs, tr, unw) <- reserve_rehash t additional alloc_refuses Infallible ;;
      match tr with TR_ok => Ok (t', evs, tr, unw) | _ => Fail UB_unreachable end
    else Ok (t, [], TR_ok, false).

  Definition try_reserve (t : tbl) (additional : Z) (alloc_refuses : bool)
    : res (tbl * list ev * try_result * bool) :=
    if (additional >? growth_left t)%Z then reserve_rehash t additional alloc_refuses Fallible
    else Ok (t, [], TR_ok, false).

  (* RawTable::find_or_find_insert_slot: reserve(1) first *)
  Definition find_or_find_insert_slot (t : tbl) (hash : Z) (eqf : T -> res bool) (alloc_refuses : bool)
    : res (tbl * list ev * bool * option (nat + nat)) :=
    '(t1, evs, _, unw) <- reserve t 1 alloc_refuses ;;
    if unw then Ok (t1, evs, true, None) else
    r <- find_or_find_insert_slot_inner t1 hash (eq_at t1 eqf) ;;
    Ok (t1, evs, false, Some r).

  (* RawTable::insert *)
  Definition insert (t : tbl) (hash : Z) (value : T) (alloc_refuses : bool)
    : res (tbl * list ev * bool * option nat) :=
    slot <- find_insert_slot t hash ;;
    old <- ctrl_at t slot ;;
    if (growth_left t =? 0)%Z && tag_special_is_empty old then
      '(t1, evs, _, unw) <- reserve t 1 alloc_refuses ;;
      if unw then Ok (t1, evs, true, None) else
      slot' <- find_insert_slot t1 hash ;;
      t2 <- insert_in_slot t1 hash slot' value ;;
      Ok (t2, evs, false, Some slot')
    else
      t2 <- insert_in_slot t hash slot value ;;
      Ok (t2, [], false, Some slot).

  (* RawTable::shrink_to *)
  Definition shrink_to (t : tbl) (min_size : Z) (alloc_refuses : bool)
    : res (tbl * list ev * bool) :=
    let min_size := Z.max (items t) min_size in
    if (min_size =? 0)%Z then
      '(evs, ok) <- drop_inner_table t ;; Ok (new_table, evs, negb ok)
    else
      match capacity_to_buckets (zn GW) min_size lay_size ctrl_align with
      | None => Ok (t, [], false)
      | Some min_buckets =>
          if (min_buckets <? zn (buckets t))%Z then
            if (items t =? 0)%Z then
              r <- fallible_with_capacity min_size alloc_refuses Infallible ;;
              match r with
              | (Some nt, evs, _) =>
                  '(evs2, ok) <- drop_inner_table t ;; Ok (nt, evs ++ evs2, negb ok)
              | _ => Fail UB_unreachable
              end
            else
              '(t1, evs, tr, unw) <- resize_inner t min_size alloc_refuses Infallible ;;
              match tr with TR_ok => Ok (t1, evs, unw) | _ => Fail UB_unreachable end
          else Ok (t, [], false)
      end.

  (* allocation_size *)
  Definition allocation_size (t : tbl) : res Z :=
    if is_singleton t then Ok 0%Z else
    match layout_for (buckets t) with Some (len, _, _) => Ok len | None => Fail UB_bad_layout end.

  Definition capacity (t : tbl) : Z := raw_capacity (items t) (growth_left t).
End Raw.
