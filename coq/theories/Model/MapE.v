(* MapE.v -- Map.v's `map_step` with an ARBITRARY key comparison (C05: an `Eq` that is not an
   equivalence relation, and not related to `Hash`).

   Map.v fixes the comparison "query key k == stored element e" to the lawful closure
   `eq_key k = fun e => Ok (Z.eqb (k_id e) k)`.  Here it is a section variable

       eqk : Z -> kv -> bool          (query key id, stored element) |-> answer of `==`

   on which NOTHING is assumed: it need not be reflexive, symmetric or transitive, it may look at
   the stamp and at the value, and it has no relation to the hasher.  `map_step_e` is a line by
   line copy of `Map.map_step` and of exactly those helpers of Map.v that mention `eq_key`
   (get_inner, m_insert, m_entry, m_remove_entry, extend_loop, m_find_or_slot), in which
   `eq_key k` is replaced by `fun e => Ok (eqk k e)`.  The helpers that do not mention `eq_key`
   (with_hash, unwind, vacant_insert, retain_loop, extract_loop, take_n, m_drain, elems_at,
   tr_out, lookup_stamp) are the ones of Map.v, not copies.  The tests
   `existsb (Z.eqb (k_id e)) keep` of OpRetain / OpExtractIf and `Z.eqb fk k` of
   OpSetGetOrInsertWith are the harness's own closures on key ids, not `Eq`; they are unchanged.

   Instantiating `eqk := fun k e => Z.eqb (k_id e) k` gives `Map.map_step` back, by conversion
   (Proofs/MapEFacts.v, map_step_e_lawful), which ties this copy to the model that is compared
   with the implementation.

   An `Eq` whose answers also differ BETWEEN calls within one operation: every operation below
   performs at most one probe (`find` or `find_or_find_insert_slot`; OpExtend one per element it
   inserts), and within one probe every bucket is compared at most once (a bucket belongs to one
   position of one group of the probe sequence and the probe sequence visits every group at most
   once).  So the answers an inconsistent `==` gives during one operation are the values of SOME
   function of the stored element, i.e. of `eqk k` for an `eqk` chosen per operation (two buckets
   holding indistinguishable elements would need the bucket index as a further argument of `eqk`;
   that generalisation -- `Z -> nat -> kv -> bool` through Raw.eq_at -- is not carried out here,
   elements of the harness are distinguishable by their stamps).  The theorems quantify over `eqk`
   per OPERATION, and the history theorem (run_var_e_safe) lets `eqk` -- and the hasher -- change at
   every step. *)
From Coq Require Import ZArith List Bool Lia.
From HB Require Import RsPrelude Sse2 Gen Group Raw Map.
Import ListNotations.
Open Scope nat_scope.

Section MapE.
  Variable B : backend.
  Variable tsize talign : Z.
  Variable needs_drop : bool.
  Variable guard_fix : bool.                 (* Gen.rehash_guard_unconditional *)
  Variable hash_of : Z -> option Z.          (* BuildHasher on key ids; None = it panics *)
  Variable alloc_refuses : bool.             (* the allocator refuses the next request *)
  Variable eqk : Z -> kv -> bool.            (* `==` of the query key with a stored element: ARBITRARY *)

  Let T := kv.
  Let tbl := table kv.
  Let ev := event kv.

  Notation R_find := (Raw.find B kv).
  Notation R_remove := (Raw.remove B kv).
  Notation hasher := (Map.hasher hash_of).
  Notation result := Map.result.
  Notation unwind := Map.unwind.
  Notation with_hash := (Map.with_hash hash_of).
  Notation vacant_insert := (Map.vacant_insert B tsize talign needs_drop guard_fix hash_of alloc_refuses).

  (* the closure handed to RawTable::find: |x| k.eq(x.0.borrow()) *)
  Definition eq_key_e (k : Z) (e : kv) : res bool := Ok (eqk k e).

  (* get_inner: is_empty() short-circuit, no hashing *)
  Definition get_inner_e (t : tbl) (k : Z) (f : option (nat * kv) -> res result) : res result :=
    if (items t =? 0)%Z then f None else
    with_hash t k (fun h =>
      r <- R_find t h (eq_key_e k) ;;
      match r with
      | None => f None
      | Some i => e <- slot_ref kv t i ;; f (Some (i, e))
      end).

  Definition m_insert_e (t : tbl) (k stamp v : Z) : res result :=
    with_hash t k (fun h =>
      '(t1, evs, unw, r) <- find_or_find_insert_slot B kv tsize talign needs_drop hasher guard_fix t h (eq_key_e k) alloc_refuses ;;
      if unw then unwind t1 evs else
      match r with
      | Some (inl i) =>
          e <- slot_ref kv t1 i ;;
          t2 <- slot_write kv t1 i (mkKV (k_id e) (k_stamp e) v) ;;
          Ok (t2, OutVal (v_val e), evs)
      | Some (inr slot) =>
          t2 <- insert_in_slot B kv t1 h slot (mkKV k stamp v) ;;
          Ok (t2, OutNone, evs)
      | None => Fail UB_unreachable
      end).

  (* HashMap::entry: find only (no reserve); Vacant::insert = RawTable::insert *)
  Definition m_entry_e (t : tbl) (k : Z) (occ : Z -> nat -> kv -> res result) (vac : Z -> res result) : res result :=
    with_hash t k (fun h =>
      r <- R_find t h (eq_key_e k) ;;
      match r with
      | Some i => e <- slot_ref kv t i ;; occ h i e
      | None => vac h
      end).

  Definition m_remove_entry_e (t : tbl) (k : Z) (mk : kv -> out) : res result :=
    with_hash t k (fun h =>
      r <- R_find t h (eq_key_e k) ;;
      match r with
      | None => Ok (t, OutNone, [])
      | Some i => '(e, t1) <- R_remove t i ;; Ok (t1, mk e, [EvMoveOut e])
      end).

  (* `touched`: keys already written by this extend call (see Map.extend_loop) *)
  Fixpoint extend_loop_e (t : tbl) (kvs : list kv) (touched : list Z) (evs : list ev) : res result :=
    match kvs with
    | [] => Ok (t, OutUnit, evs)
    | e :: r =>
        '(t1, o, evs1) <- m_insert_e t (k_id e) (k_stamp e) (v_val e) ;;
        match o with
        | OutUnwind => Ok (t1, OutUnwind, evs ++ evs1)
        | OutVal old =>                 (* `self.insert(k, v);` drops the replaced value *)
            let stored := match lookup_stamp t1 (k_id e) with Some s => s | None => k_stamp e end in
            let d := if needs_drop && negb (existsb (Z.eqb (k_id e)) touched)
                     then [EvDrop (mkKV (k_id e) stored old)] else [] in
            extend_loop_e t1 r (k_id e :: touched) (evs ++ evs1 ++ d)
        | _ => extend_loop_e t1 r (k_id e :: touched) (evs ++ evs1)
        end
    end.

  (* find_or_find_insert_slot followed by `found` / `vacant` (set.rs: replace, get_or_insert, get_or_insert_with) *)
  Definition m_find_or_slot_e (t : tbl) (k : Z)
             (found : tbl -> nat -> kv -> list ev -> res result)
             (vacant : tbl -> Z -> nat -> list ev -> res result) : res result :=
    with_hash t k (fun h =>
      '(t1, evs, unw, r) <- find_or_find_insert_slot B kv tsize talign needs_drop hasher guard_fix t h (eq_key_e k) alloc_refuses ;;
      if unw then unwind t1 evs else
      match r with
      | Some (inl i) => e <- slot_ref kv t1 i ;; found t1 i e evs
      | Some (inr slot) => vacant t1 h slot evs
      | None => Fail UB_unreachable
      end).

  Definition map_step_e (t : tbl) (op : map_op) : res result :=
    match op with
    | OpSetInsert k stamp =>
        '(t1, o, evs) <- m_insert_e t k stamp 0%Z ;;
        Ok (t1, match o with OutNone => OutBool true | OutVal _ => OutBool false | x => x end, evs)
    | OpSetReplace k stamp =>
        m_find_or_slot_e t k
          (fun t1 i e evs => t2 <- slot_write kv t1 i (mkKV k stamp (v_val e)) ;; Ok (t2, OutKV (k_stamp e) 0%Z, evs))
          (fun t1 h slot evs => t2 <- insert_in_slot B kv t1 h slot (mkKV k stamp 0%Z) ;; Ok (t2, OutNone, evs))
    | OpSetTake k => m_remove_entry_e t k (fun e => OutKV (k_stamp e) 0%Z)
    | OpSetGet k => get_inner_e t k (fun r => Ok (t, match r with Some (_, e) => OutKV (k_stamp e) 0%Z | None => OutNone end, []))
    | OpSetGetOrInsert k stamp =>
        m_find_or_slot_e t k
          (fun t1 i e evs => Ok (t1, OutKV (k_stamp e) 0%Z, evs))
          (fun t1 h slot evs => t2 <- insert_in_slot B kv t1 h slot (mkKV k stamp 0%Z) ;; Ok (t2, OutKV stamp 0%Z, evs))
    | OpSetGetOrInsertWith k stamp fk =>
        m_find_or_slot_e t k
          (fun t1 i e evs => Ok (t1, OutKV (k_stamp e) 0%Z, evs))
          (fun t1 h slot evs =>
             if Z.eqb fk k then t2 <- insert_in_slot B kv t1 h slot (mkKV fk stamp 0%Z) ;; Ok (t2, OutKV stamp 0%Z, evs)
             else Ok (t1, OutLibPanic, evs))        (* assert!(value.equivalent(&new)) *)
    | OpSetToggle k stamp =>
        m_find_or_slot_e t k
          (fun t1 i e evs => '(e', t2) <- R_remove t1 i ;; Ok (t2, OutBool false, evs ++ (if needs_drop then [EvDrop e'] else [])))
          (fun t1 h slot evs => t2 <- insert_in_slot B kv t1 h slot (mkKV k stamp 0%Z) ;; Ok (t2, OutBool true, evs))
    | OpSetRemove k =>                 (* self.map.remove(value).is_some(): the element is dropped inside *)
        '(t1, o, evs) <- m_remove_entry_e t k (fun e => OutBool true) ;;
        Ok (t1, match o with OutNone => OutBool false | x => x end,
            flat_map (fun e => match e with EvMoveOut x => if needs_drop then [EvDrop x] else [] | y => [y] end) evs)
    | OpWithCapacity n =>
        '(evs0, _) <- drop_inner_table B kv tsize talign needs_drop drop_ok t ;;
        r <- fallible_with_capacity B kv tsize talign n alloc_refuses Infallible ;;
        match r with
        | (Some nt, evs, _) => Ok (nt, OutUnit, evs ++ evs0)    (* `*m = with_capacity(n)`: new first, then drop the old one *)
        | _ => Fail UB_unreachable
        end
    | OpInsert k stamp v => m_insert_e t k stamp v
    | OpGet k => get_inner_e t k (fun r => Ok (t, match r with Some (_, e) => OutVal (v_val e) | None => OutNone end, []))
    | OpGetKeyValue k => get_inner_e t k (fun r => Ok (t, match r with Some (_, e) => OutKV (k_stamp e) (v_val e) | None => OutNone end, []))
    | OpContains k => get_inner_e t k (fun r => Ok (t, OutBool (match r with Some _ => true | None => false end), []))
    | OpGetMut k newv =>
        get_inner_e t k (fun r =>
          match r with
          | Some (i, e) => t1 <- slot_write kv t i (mkKV (k_id e) (k_stamp e) newv) ;; Ok (t1, OutVal (v_val e), [])
          | None => Ok (t, OutNone, [])
          end)
    | OpRemove k => m_remove_entry_e t k (fun e => OutVal (v_val e))
    | OpRemoveEntry k => m_remove_entry_e t k (fun e => OutKV (k_stamp e) (v_val e))
    | OpTryInsert k stamp v =>
        m_entry_e t k (fun _ _ e => Ok (t, OutErrOccupied (k_stamp e) (v_val e), []))
                      (fun h => vacant_insert t h (mkKV k stamp v) OutNone)
    | OpEntryOrInsert k stamp v =>
        m_entry_e t k (fun _ _ e => Ok (t, OutVal (v_val e), []))
                      (fun h => vacant_insert t h (mkKV k stamp v) (OutVal v))
    | OpEntryInsert k stamp v =>
        m_entry_e t k (fun _ i e => t1 <- slot_write kv t i (mkKV (k_id e) (k_stamp e) v) ;; Ok (t1, OutVal (v_val e), []))
                      (fun h => vacant_insert t h (mkKV k stamp v) OutNone)
    | OpEntryRemove k stamp =>
        m_entry_e t k (fun _ i _ => '(e, t1) <- R_remove t i ;; Ok (t1, OutKV (k_stamp e) (v_val e), [EvMoveOut e]))
                      (fun _ => Ok (t, OutNone, []))
    | OpEntryAndModify k stamp add v =>
        m_entry_e t k (fun _ i e => let nv := wadd 64 (v_val e) add in
                                    t1 <- slot_write kv t i (mkKV (k_id e) (k_stamp e) nv) ;; Ok (t1, OutVal nv, []))
                      (fun h => vacant_insert t h (mkKV k stamp v) (OutVal v))
    | OpEntryDrop k stamp =>
        m_entry_e t k (fun _ _ e => Ok (t, OutBool true, [])) (fun _ => Ok (t, OutBool false, []))
    | OpClear =>
        '(t1, evs, ok) <- Raw.clear B kv needs_drop drop_ok t ;;
        if ok then Ok (t1, OutUnit, evs) else unwind t1 evs
    | OpReserve n =>
        x <- Raw.reserve B kv tsize talign needs_drop hasher guard_fix t n alloc_refuses ;;
        tr_out t x (fun _ => OutUnit)
    | OpTryReserve n =>
        x <- Raw.try_reserve B kv tsize talign needs_drop hasher guard_fix t n alloc_refuses ;;
        tr_out t x OutTry
    | OpShrinkTo n =>
        '(t1, evs, unw) <- Raw.shrink_to B kv tsize talign needs_drop drop_ok hasher t n alloc_refuses ;;
        if unw then unwind t1 evs else Ok (t1, OutUnit, evs)
    | OpShrinkToFit =>
        '(t1, evs, unw) <- Raw.shrink_to B kv tsize talign needs_drop drop_ok hasher t 0%Z alloc_refuses ;;
        if unw then unwind t1 evs else Ok (t1, OutUnit, evs)
    | OpRetain keep bump =>
        it <- iter_new B kv t ;;
        '(t1, evs) <- retain_loop B needs_drop (S (buckets kv t)) t it keep bump [] ;;
        Ok (t1, OutUnit, evs)
    | OpExtend kvs =>
        let reserve_n := map_extend_reserve (items t =? 0)%Z (zn (length kvs)) in
        x <- Raw.reserve B kv tsize talign needs_drop hasher guard_fix t reserve_n alloc_refuses ;;
        let '(t1, evs, _, unw) := x in
        if unw then unwind t1 evs else extend_loop_e t1 kvs [] evs
    | OpDrain n => m_drain B needs_drop t n
    | OpExtractIf sel n =>
        it <- iter_new B kv t ;;
        '(t1, acc, evs) <- extract_loop B (S (buckets kv t)) t it sel n [] [] ;;
        Ok (t1, OutList acc, evs)
    | OpIter =>
        it <- iter_new B kv t ;;
        idx <- iter_all B kv t it ;;
        es <- elems_at t idx ;;
        Ok (t, OutList es, [])
    | OpIterFold p =>
        it <- iter_new B kv t ;;
        (fix go (fuel p : nat) (it : raw_iter) (acc : list nat) : res result :=
           match p with
           | O => rest <- iter_fold B kv t it ;; es <- elems_at t (acc ++ rest) ;; Ok (t, OutList es, [])
           | S p' =>
               match fuel with
               | O => Fail OutOfFuel
               | S f =>
                   '(nxt, it') <- iter_next B kv t it ;;
                   match nxt with
                   | None => es <- elems_at t acc ;; Ok (t, OutList es, [])
                   | Some i => go f p' it' (acc ++ [i])
                   end
               end
           end) (S (buckets kv t)) p it []
    | OpLen => Ok (t, OutNum (items t), [])
    | OpCapacity => Ok (t, OutNum (Raw.capacity kv t), [])
    | OpAllocationSize => n <- Raw.allocation_size B kv tsize talign t ;; Ok (t, OutNum n, [])
    | OpDropMap =>
        '(evs, _) <- drop_inner_table B kv tsize talign needs_drop drop_ok t ;;
        Ok (new_table B kv, OutUnit, evs)
    end.
End MapE.
