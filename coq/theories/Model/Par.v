(* Par.v -- the splitting of RawIterRange used by the rayon producers
   (src/raw/mod.rs RawIterRange::split, src/external_trait_impls/rayon/raw.rs).
   A split tree is given as the pre-order list of split-or-consume decisions that
   rayon's scheduler could take; every leaf consumes its range with `next()`. *)
From Coq Require Import ZArith List Bool Lia.
From HB Require Import RsPrelude Sse2 Gen Group Raw.
Import ListNotations.
Open Scope nat_scope.

Section Par.
  Variable B : backend.
  Variable T : Type.
  Let GW := bk_width B.

  (* RawIterRange::split: the head keeps its loaded group and the first `mid` bytes of the
     remaining range, the tail starts at a group boundary (mid from the generated expression) *)
  Definition split (t : table T) (it : raw_iter) : res (raw_iter * option raw_iter) :=
    if it_end it <=? it_next it then Ok (it, None) else
    let len := it_end it - it_next it in
    let mid := nz (split_mid (zn GW) (zn len)) in
    tail <- range_new B T t (it_next it + mid) (len - mid) (it_items it) ;;
    Ok (mkIter (it_cur it) (it_first it) (it_next it) (it_next it + mid) (it_items it), Some tail).

  (* consume a range with RawIterRange::next (range-checked) *)
  Fixpoint range_consume (calls : nat) (t : table T) (it : raw_iter) : res (list nat) :=
    match calls with
    | O => Fail OutOfFuel
    | S c =>
        '(nxt, it') <- next_impl B T (S (buckets T t / GW)) true t it ;;
        match nxt with
        | None => Ok []
        | Some i => rest <- range_consume c t it' ;; Ok (i :: rest)
        end
    end.

  (* drive split along pre-order decisions (true = try to split this node); when the decisions
     run out every node is a leaf.  Returns the leaves' bucket lists, left to right. *)
  Fixpoint run_decisions (fuel : nat) (t : table T) (it : raw_iter) (dec : list bool)
    : res (list (list nat) * list bool) :=
    match fuel with
    | O => Fail OutOfFuel
    | S f =>
        match dec with
        | true :: d =>
            '(l, r) <- split t it ;;
            match r with
            | None => run_decisions f t l d
            | Some rt =>
                '(la, d1) <- run_decisions f t l d ;;
                '(lb, d2) <- run_decisions f t rt d1 ;;
                Ok (la ++ lb, d2)
            end
        | false :: d => l <- range_consume (S (S (buckets T t))) t it ;; Ok ([l], d)
        | [] => l <- range_consume (S (S (buckets T t))) t it ;; Ok ([l], [])
        end
    end.

  Definition split_leaves (t : table T) (dec : list bool) : res (list (list nat)) :=
    it <- iter_new B T t ;;
    '(ls, _) <- run_decisions (S (length dec)) t it dec ;;
    Ok ls.

  (* par_drain with a consumer that stops: per leaf, the first `take` elements are delivered,
     the rest of that leaf is dropped by ParDrainProducer::drop *)
  Definition drain_leaf (l : list nat) (take : nat) : list nat * list nat := (firstn take l, skipn take l).
End Par.
