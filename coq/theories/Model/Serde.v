(* Serde.v -- the Deserialize visitors of src/external_trait_impls/serde.rs:
   visit_map = with_capacity(cautious(size_hint)) then insert every pair in input order;
   an error from the input aborts and drops the partially built map.  The pre-allocation size
   is the expression GENERATED from serde.rs (Gen.serde_cautious). *)
From Coq Require Import ZArith List Bool Lia.
From HB Require Import RsPrelude Sse2 Gen Group Raw Map.
Import ListNotations.
Open Scope nat_scope.

Section Serde.
  Variable B : backend.
  Variable tsize talign : Z.
  Variable needs_drop : bool.
  Variable guard_fix : bool.
  Variable hash_of : Z -> option Z.

  Let step := map_step B tsize talign needs_drop guard_fix hash_of false.

  Fixpoint insert_all (t : table kv) (items : list kv) (evs : list (event kv)) : res (table kv * list (event kv) * bool) :=
    match items with
    | [] => Ok (t, evs, true)
    | e :: r =>
        '(t1, o, evs1) <- step t (OpInsert (k_id e) (k_stamp e) (v_val e)) ;;
        match o with
        | OutUnwind => Ok (t1, evs ++ evs1, false)
        | _ => insert_all t1 r (evs ++ evs1)
        end
    end.

  (* allocator traffic only: elements created by the call itself are not in the event log *)
  Definition alloc_only (evs : list (event kv)) : list (event kv) :=
    filter (fun e => match e with EvAlloc _ _ | EvFree _ _ => true | _ => false end) evs.

  (* Result: Some map on success, None when the input failed at position err_at (the partial map
     has been dropped and its block freed) *)
  Definition deser_map (hint : option Z) (items : list kv) (err_at : option nat)
    : res (option (table kv) * list (event kv)) :=
    '(t0, _, evs0) <- step (new_table B kv) (OpWithCapacity (serde_cautious hint)) ;;
    let consumed := match err_at with Some p => firstn p items | None => items end in
    let fails := match err_at with Some p => Nat.leb p (length items) | None => false end in
    '(t1, evs1, ok) <- insert_all t0 consumed evs0 ;;
    if negb ok then Fail Panic else
    if fails then
      '(_, _, evs2) <- step t1 OpDropMap ;;
      Ok (None, alloc_only (evs1 ++ evs2))
    else Ok (Some t1, alloc_only evs1).
End Serde.
