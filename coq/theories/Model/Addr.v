(* Addr.v -- address model of the buckets and control bytes of a RawTable (src/raw/mod.rs).

   Memory layout of one table allocation (module docs of raw/mod.rs and RawTable::data_end):

       [Padding], T_n, ..., T1, T0, |CT0, CT1, ..., CT_n|, CTa_0, CTa_1, ..., CTa_m
       ^                            ^
       start of the block           ctrl  (= data_end, the `NonNull<T>` base)

   where n = buckets - 1 and m = Group::WIDTH - 1 (the mirrored first group).

   All addresses below are Z byte offsets RELATIVE TO THE START OF THE ALLOCATED BLOCK, i.e. the
   block returned by `do_alloc(alloc, layout)` is [0, len).  An absolute address is obtained by
   adding the absolute address `base` of the block (`abs`).  The only addresses that are NOT
   relative to the block are the integer pseudo-pointers that hashbrown fabricates with
   `invalid_mut` for zero-sized T.

   Inputs: GW = Group::WIDTH (8 or 16), tsize = mem::size_of::<T>(), talign =
   mem::align_of::<T>(), b = buckets, off = ctrl_offset and len = layout.size() as returned by
   TableLayout::calculate_layout_for (Gen.calculate_layout_for, GENERATED from the source).

   Definitions only; the facts are in Proofs/AddrFacts.v, the statements in Properties/C02a.v. *)
From Coq Require Import ZArith List Bool.
From HB Require Import RsPrelude Sse2 Gen.
Open Scope Z_scope.

(* ------------------------------------------------------------------------------------------ *)
(* The layout of a table of element type T                                                      *)
(* ------------------------------------------------------------------------------------------ *)

(* TableLayout::new::<T>().ctrl_align
       ctrl_align: if layout.align() > Group::WIDTH { layout.align() } else { Group::WIDTH } *)
Definition ctrl_align (GW tsize talign : Z) : Z :=
  snd (table_layout_new GW tsize talign).

(* RawTableInner::new_uninitialized / allocation_info:
       let (layout, ctrl_offset) = match table_layout.calculate_layout_for(buckets) { ... }
   with table_layout = TableLayout::new::<T>();  result Some ((len, al), ctrl_offset) where
   layout = Layout::from_size_align_unchecked(len, al). *)
Definition table_alloc_layout (GW tsize talign b : Z) : option ((Z * Z) * Z) :=
  calculate_layout_for GW (fst (table_layout_new GW tsize talign))
                          (snd (table_layout_new GW tsize talign)) b.

(* The standing assumptions of every address theorem: a group width of the crate, a Rust layout
   for T (size < 2^64, power-of-two alignment, size a multiple of the alignment), a power-of-two
   bucket count, and a SUCCESSFUL layout computation with result ((len, al), off). *)
Definition valid_layout (GW tsize talign b len al off : Z) : Prop :=
  (GW = 8 \/ GW = 16) /\
  0 <= tsize < 2 ^ 64 /\
  (exists a, 0 <= a <= 62 /\ talign = 2 ^ a) /\
  (talign | tsize) /\
  (exists k, 0 <= k <= 62 /\ b = 2 ^ k) /\
  table_alloc_layout GW tsize talign b = Some ((len, al), off).

(* An absolute address: block base address + offset inside the block. *)
Definition abs (base rel : Z) : Z := base + rel.

(* ------------------------------------------------------------------------------------------ *)
(* Control bytes                                                                                *)
(* ------------------------------------------------------------------------------------------ *)

(* RawTableInner::new_uninitialized:
       let ctrl = NonNull::new_unchecked(ptr.as_ptr().add(ctrl_offset));
   relative to the block `ptr` this is ctrl_offset itself. *)
Definition ctrl_base (off : Z) : Z := off.

(* RawTableInner::ctrl(index):
       self.ctrl.as_ptr().add(index).cast()                      (index < num_ctrl_bytes()) *)
Definition ctrl_addr (off j : Z) : Z := off + j.

(* A group load/store at control index p touches the GW bytes [ctrl(p), ctrl(p) + GW):
       Group::load(self.ctrl(pos)) / Group::load_aligned(self.ctrl(pos)) *)
Definition group_range (GW off p : Z) : Z * Z := (ctrl_addr off p, ctrl_addr off p + GW).

(* RawTableInner::allocation_info:
       NonNull::new_unchecked(self.ctrl.as_ptr().sub(ctrl_offset))
   recovers the start of the block from the ctrl pointer. *)
Definition allocation_start (ctrl off : Z) : Z := ctrl - off.

(* ------------------------------------------------------------------------------------------ *)
(* Buckets                                                                                      *)
(* ------------------------------------------------------------------------------------------ *)

(* RawTableInner::data_end::<T>() / RawTable::data_end():
       self.ctrl.cast()            -- "points here (to the end of `T0`)" *)
Definition data_end (off : Z) : Z := off.

(* Bucket::from_base_index(base, index), with base = data_end  (RawTable::bucket(index)):
       let ptr = if T::IS_ZERO_SIZED {
           invalid_mut(index + 1)               -- integer pseudo-pointer, NOT relative to the block
       } else {
           base.as_ptr().sub(index)             -- *mut T arithmetic: index * size_of::<T>() bytes
       };
   The result points to the END of element `index`. *)
Definition bucket_ptr (tsize off i : Z) : Z :=
  if tsize =? 0 then i + 1 else data_end off - i * tsize.

(* Bucket::as_ptr(&self), p = self.ptr:
       if T::IS_ZERO_SIZED {
           invalid_mut(mem::align_of::<T>())    -- "an arbitrary ZST pointer which is properly aligned"
       } else {
           unsafe { self.ptr.as_ptr().sub(1) }  -- start of the element
       } *)
Definition bucket_as_ptr (tsize talign p : Z) : Z :=
  if tsize =? 0 then talign else p - tsize.

(* Bucket::to_base_index(&self, base), p = self.ptr, base = data_end  (RawTable::bucket_index):
       if T::IS_ZERO_SIZED {
           self.ptr.as_ptr() as usize - 1
       } else {
           offset_from(base.as_ptr(), self.ptr.as_ptr())      -- (base - p) / size_of::<T>()
       } *)
Definition to_base_index (tsize off p : Z) : Z :=
  if tsize =? 0 then p - 1 else (data_end off - p) / tsize.

(* Bucket::next_n(&self, offset), p = self.ptr:
       let ptr = if T::IS_ZERO_SIZED {
           invalid_mut(self.ptr.as_ptr() as usize + offset)
       } else {
           self.ptr.as_ptr().sub(offset)
       }; *)
Definition next_n (tsize p n : Z) : Z :=
  if tsize =? 0 then p + n else p - n * tsize.

(* RawTableInner::bucket_ptr(index, size_of)  (the type-erased variant, used by resize/rehash):
       let base: *mut u8 = self.data_end().as_ptr();
       base.sub((index + 1) * size_of) *)
Definition inner_bucket_ptr (size_of off i : Z) : Z :=
  data_end off - (i + 1) * size_of.

(* The bytes of element i, as a half-open range [lo, hi): what Bucket::as_ref / as_mut / read /
   write / drop access, namely size_of::<T>() bytes starting at as_ptr():
       pub unsafe fn as_ref<'a>(&self) -> &'a T { &*self.as_ptr() }
       pub unsafe fn as_mut<'a>(&self) -> &'a mut T { &mut *self.as_ptr() } *)
Definition elem_range (tsize off i : Z) : Z * Z :=
  (off - (i + 1) * tsize, off - i * tsize).

(* ------------------------------------------------------------------------------------------ *)
(* Vocabulary for the statements                                                                *)
(* ------------------------------------------------------------------------------------------ *)

(* half-open byte ranges *)
Definition range_in_block (len : Z) (r : Z * Z) : Prop := 0 <= fst r /\ fst r <= snd r /\ snd r <= len.
Definition ranges_disjoint (r1 r2 : Z * Z) : Prop := snd r1 <= fst r2 \/ snd r2 <= fst r1.
