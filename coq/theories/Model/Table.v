(* Table.v -- HashTable<T, A> (src/table.rs): the explicit-hash API as compositions of the
   RawTable model.  Elements are kv records (id, stamp, value); the caller-supplied hash of an
   element is `hash_of (k_id e)`; identical elements may be stored several times (multiset). *)
From Coq Require Import ZArith List Bool Lia.
From HB Require Import RsPrelude Sse2 Gen Group Raw Map.
Import ListNotations.
Open Scope nat_scope.

(* equality closures: by id (lawful) or by a value class (may match several entries) *)
Inductive tpred : Type :=
| PId (k : Z)                       (* |e| e.id == k *)
| PValMod (m r : Z).                (* |e| e.val % m == r   -- not tied to the hash at all *)

Definition tpred_holds (p : tpred) (e : kv) : bool :=
  match p with
  | PId k => Z.eqb (k_id e) k
  | PValMod m r => Z.eqb (Z.modulo (v_val e) m) r
  end.

Inductive tbl_op : Type :=
| TWithCapacity (n : Z)
| TFind (hk : Z) (p : tpred)                    (* find(hash(hk), p) *)
| TFindMut (hk : Z) (p : tpred) (newv : Z)
| TFindEntryRemove (hk : Z) (p : tpred)         (* find_entry(..).map(|e| e.remove().0) *)
| TRemoveReinsert (hk : Z) (p : tpred) (stamp v : Z)   (* let (old, vacant) = occupied.remove(); vacant.insert(new) *)
| TEntryInsert (k stamp v : Z)                  (* entry(hash k, id == k, hasher).insert(new) *)
| TEntryOrInsert (k stamp v : Z)
| TEntryDrop (k : Z)
| TInsertUnique (k stamp v : Z)
| TRetain (keep : list Z) (bump : Z)
| TExtractIf (sel : list Z) (n : nat)
| TDrain (n : nat)
| TClear
| TReserve (n : Z)
| TTryReserve (n : Z)
| TShrinkTo (n : Z)
| TShrinkToFit
| TGetManyMut (reqs : list (Z * tpred)) (add : Z)   (* get_many_mut([hashes], preds); each result += add *)
| TIterHash (hk : Z)
| TIter
| TLen
| TCapacity
| TAllocationSize
| TDropTable.

Inductive tout : Type :=
| TOutUnit | TOutNone
| TOutElem (e : kv)
| TOutBool (b : bool)
| TOutNum (n : Z)
| TOutTry (r : try_result)
| TOutList (l : list kv)
| TOutOpts (l : list (option kv))      (* get_many_mut: per request *)
| TOutUnwind
| TOutLibPanic.

Section Table.
  Variable B : backend.
  Variable tsize talign : Z.
  Variable needs_drop : bool.
  Variable guard_fix : bool.
  Variable hash_of : Z -> option Z.
  Variable alloc_refuses : bool.

  Let tbl := table kv.
  Let ev := event kv.
  Definition thasher (e : kv) : option Z := hash_of (k_id e).
  Definition tdrop_ok (e : kv) : bool := true.
  Definition tresult : Type := tbl * tout * list ev.

  Definition tunwind (t : tbl) (evs : list ev) : res tresult := Ok (t, TOutUnwind, evs).
  Definition with_h (t : tbl) (k : Z) (f : Z -> res tresult) : res tresult :=
    match hash_of k with None => tunwind t [] | Some h => f h end.
  Definition peq (p : tpred) (e : kv) : res bool := Ok (tpred_holds p e).

  (* RawIterHash: every bucket whose control byte matches the tag, along the probe sequence,
     until a group containing an EMPTY byte has been scanned *)
  Fixpoint iter_hash_loop (fuel : nat) (t : tbl) (tag : Z) (pos stride : nat) : res (list nat) :=
    match fuel with
    | O => Fail OutOfFuel
    | S f =>
        g <- load B kv t pos ;;
        let idx := map (fun b => n_land (pos + b) (mask t)) (g_match_tag B g tag) in
        if g_any_empty B g then Ok idx
        else let '(p', s') := n_move_next (bk_width B) (mask t) pos stride in
             rest <- iter_hash_loop f t tag p' s' ;; Ok (idx ++ rest)
    end.

  Definition iter_hash (t : tbl) (hash : Z) : res (list nat) :=
    iter_hash_loop (probe_fuel B kv t) t (tag_full hash) (n_probe_start (mask t) hash) 0.

  Fixpoint many_find (t : tbl) (reqs : list (Z * tpred)) : res (option (list (option nat))) :=
    match reqs with
    | [] => Ok (Some [])
    | (hk, p) :: r =>
        match hash_of hk with
        | None => Ok None                      (* the caller's hash computation panicked *)
        | Some h =>
            i <- Raw.find B kv t h (peq p) ;;
            rest <- many_find t r ;;
            Ok (match rest with Some l => Some (i :: l) | None => None end)
        end
    end.

  Fixpoint has_dup (l : list (option nat)) : bool :=
    match l with
    | [] => false
    | None :: r => has_dup r
    | Some i :: r => existsb (fun x => match x with Some j => Nat.eqb i j | None => false end) r || has_dup r
    end.

  Fixpoint bump_all (t : tbl) (l : list (option nat)) (add : Z) : res (tbl * list (option kv)) :=
    match l with
    | [] => Ok (t, [])
    | None :: r => '(t1, os) <- bump_all t r add ;; Ok (t1, None :: os)
    | Some i :: r =>
        e <- slot_ref kv t i ;;
        let e' := mkKV (k_id e) (k_stamp e) (wadd 64 (v_val e) add) in
        t1 <- slot_write kv t i e' ;;
        '(t2, os) <- bump_all t1 r add ;; Ok (t2, Some e' :: os)
    end.

  Fixpoint t_retain_loop (fuel : nat) (t : tbl) (it : raw_iter) (keep : list Z) (bump : Z) (evs : list ev)
    : res (tbl * list ev) :=
    match fuel with
    | O => Fail OutOfFuel
    | S f =>
        '(nxt, it') <- iter_next B kv t it ;;
        match nxt with
        | None => Ok (t, evs)
        | Some i =>
            e <- slot_ref kv t i ;;
            let e' := mkKV (k_id e) (k_stamp e) (wadd 64 (v_val e) bump) in
            t1 <- slot_write kv t i e' ;;
            if existsb (Z.eqb (k_id e)) keep then t_retain_loop f t1 it' keep bump evs
            else '(t2, evs2) <- erase_drop B kv needs_drop t1 i ;; t_retain_loop f t2 it' keep bump (evs ++ evs2)
        end
    end.

  Definition wrap_try (x : tbl * list ev * try_result * bool) (o : try_result -> tout) : res tresult :=
    let '(t1, evs, tr, unw) := x in if unw then tunwind t1 evs else Ok (t1, o tr, evs).

  Definition table_step (t : tbl) (op : tbl_op) : res tresult :=
    match op with
    | TWithCapacity n =>
        r <- fallible_with_capacity B kv tsize talign n alloc_refuses Infallible ;;
        '(evs0, _) <- drop_inner_table B kv tsize talign needs_drop tdrop_ok t ;;
        match r with
        | (Some nt, evs, _) => Ok (nt, TOutUnit, evs ++ evs0)
        | _ => Fail UB_unreachable
        end
    | TFind hk p =>
        with_h t hk (fun h =>
          r <- Raw.find B kv t h (peq p) ;;
          match r with
          | None => Ok (t, TOutNone, [])
          | Some i => e <- slot_ref kv t i ;; Ok (t, TOutElem e, [])
          end)
    | TFindMut hk p newv =>
        with_h t hk (fun h =>
          r <- Raw.find B kv t h (peq p) ;;
          match r with
          | None => Ok (t, TOutNone, [])
          | Some i => e <- slot_ref kv t i ;;
                      t1 <- slot_write kv t i (mkKV (k_id e) (k_stamp e) newv) ;; Ok (t1, TOutElem e, [])
          end)
    | TFindEntryRemove hk p =>
        with_h t hk (fun h =>
          r <- Raw.find B kv t h (peq p) ;;
          match r with
          | None => Ok (t, TOutNone, [])
          | Some i => '(e, t1) <- Raw.remove B kv t i ;; Ok (t1, TOutElem e, [EvMoveOut e])
          end)
    | TRemoveReinsert hk p stamp v =>
        with_h t hk (fun h =>
          r <- Raw.find B kv t h (peq p) ;;
          match r with
          | None => Ok (t, TOutNone, [])
          | Some i =>
              '(e, t1) <- Raw.remove B kv t i ;;
              (* VacantEntry { hash, insert_slot: i }.insert(new): the new element takes the old id's hash *)
              t2 <- insert_in_slot B kv t1 h i (mkKV (k_id e) stamp v) ;;
              Ok (t2, TOutElem e, [EvMoveOut e])
          end)
    | TEntryInsert k stamp v =>
        with_h t k (fun h =>
          '(t1, evs, unw, r) <- find_or_find_insert_slot B kv tsize talign needs_drop thasher guard_fix t h (peq (PId k)) alloc_refuses ;;
          if unw then tunwind t1 evs else
          match r with
          | Some (inl i) =>
              e <- slot_ref kv t1 i ;;
              t2 <- slot_write kv t1 i (mkKV k stamp v) ;;          (* *entry.get_mut() = value: old element dropped *)
              Ok (t2, TOutBool true, evs ++ (if needs_drop then [EvDrop e] else []))
          | Some (inr slot) =>
              t2 <- insert_in_slot B kv t1 h slot (mkKV k stamp v) ;; Ok (t2, TOutBool false, evs)
          | None => Fail UB_unreachable
          end)
    | TEntryOrInsert k stamp v =>
        with_h t k (fun h =>
          '(t1, evs, unw, r) <- find_or_find_insert_slot B kv tsize talign needs_drop thasher guard_fix t h (peq (PId k)) alloc_refuses ;;
          if unw then tunwind t1 evs else
          match r with
          | Some (inl i) => e <- slot_ref kv t1 i ;; Ok (t1, TOutElem e, evs)
          | Some (inr slot) =>
              t2 <- insert_in_slot B kv t1 h slot (mkKV k stamp v) ;; Ok (t2, TOutElem (mkKV k stamp v), evs)
          | None => Fail UB_unreachable
          end)
    | TEntryDrop k =>
        with_h t k (fun h =>
          '(t1, evs, unw, r) <- find_or_find_insert_slot B kv tsize talign needs_drop thasher guard_fix t h (peq (PId k)) alloc_refuses ;;
          if unw then tunwind t1 evs else
          match r with
          | Some (inl _) => Ok (t1, TOutBool true, evs)
          | Some (inr _) => Ok (t1, TOutBool false, evs)
          | None => Fail UB_unreachable
          end)
    | TInsertUnique k stamp v =>
        with_h t k (fun h =>
          '(t1, evs, unw, _) <- Raw.insert B kv tsize talign needs_drop thasher guard_fix t h (mkKV k stamp v) alloc_refuses ;;
          if unw then tunwind t1 evs else Ok (t1, TOutUnit, evs))
    | TRetain keep bump =>
        it <- iter_new B kv t ;;
        '(t1, evs) <- t_retain_loop (S (buckets kv t)) t it keep bump [] ;;
        Ok (t1, TOutUnit, evs)
    | TExtractIf sel n =>
        it <- iter_new B kv t ;;
        '(t1, acc, evs) <- extract_loop B (S (buckets kv t)) t it sel n [] [] ;;
        Ok (t1, TOutList acc, evs)
    | TDrain n =>
        '(t1, o, evs) <- m_drain B needs_drop t n ;;
        Ok (t1, match o with OutList l => TOutList l | _ => TOutUnit end, evs)
    | TClear =>
        '(t1, evs, ok) <- Raw.clear B kv needs_drop tdrop_ok t ;;
        if ok then Ok (t1, TOutUnit, evs) else tunwind t1 evs
    | TReserve n =>
        x <- Raw.reserve B kv tsize talign needs_drop thasher guard_fix t n alloc_refuses ;;
        wrap_try x (fun _ => TOutUnit)
    | TTryReserve n =>
        x <- Raw.try_reserve B kv tsize talign needs_drop thasher guard_fix t n alloc_refuses ;;
        wrap_try x TOutTry
    | TShrinkTo n =>
        '(t1, evs, unw) <- Raw.shrink_to B kv tsize talign needs_drop tdrop_ok thasher t n alloc_refuses ;;
        if unw then tunwind t1 evs else Ok (t1, TOutUnit, evs)
    | TShrinkToFit =>                   (* self.raw.shrink_to(self.len(), hasher) *)
        '(t1, evs, unw) <- Raw.shrink_to B kv tsize talign needs_drop tdrop_ok thasher t (items t) alloc_refuses ;;
        if unw then tunwind t1 evs else Ok (t1, TOutUnit, evs)
    | TGetManyMut reqs add =>
        ol <- many_find t reqs ;;
        match ol with
        | None => tunwind t []
        | Some l =>
            if has_dup l then Ok (t, TOutLibPanic, [])          (* panic!("duplicate keys found") *)
            else '(t1, os) <- bump_all t l add ;; Ok (t1, TOutOpts os, [])
        end
    | TIterHash hk =>
        with_h t hk (fun h =>
          idx <- iter_hash t h ;;
          es <- elems_at t idx ;;
          Ok (t, TOutList es, []))
    | TIter =>
        it <- iter_new B kv t ;;
        idx <- iter_all B kv t it ;;
        es <- elems_at t idx ;;
        Ok (t, TOutList es, [])
    | TLen => Ok (t, TOutNum (items t), [])
    | TCapacity => Ok (t, TOutNum (Raw.capacity kv t), [])
    | TAllocationSize => n <- Raw.allocation_size B kv tsize talign t ;; Ok (t, TOutNum n, [])
    | TDropTable =>
        '(evs, _) <- drop_inner_table B kv tsize talign needs_drop tdrop_ok t ;;
        Ok (new_table B kv, TOutUnit, evs)
    end.
End Table.
