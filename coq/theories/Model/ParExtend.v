(* ParExtend.v -- rayon's par_extend / from_par_iter for HashMap and HashSet
   (src/external_trait_impls/rayon/{map,set,helpers}.rs):

       let (list, len) = super::helpers::collect(par_iter);          // LinkedList<Vec<T>>, in input order
       let reserve = if map.is_empty() { len } else { (len + 1) / 2 };
       map.reserve(reserve);
       for vec in list { map.extend(vec); }

   `collect` folds every leaf of rayon's split tree into a Vec and appends the Vecs left to right, so
   the list of chunks concatenates to the input sequence; HOW the input is cut into chunks depends on
   the scheduler.  The model takes the chunking as an argument (any list of lists) and runs the
   sequential code on it: every chunk is one HashMap::extend of the table model.  Definitions only. *)
From Coq Require Import ZArith List Bool.
From HB Require Import RsPrelude Sse2 Gen Group Raw Map.
Import ListNotations.
Open Scope nat_scope.

Section ParExtend.
  Variable B : backend.
  Variable tsize talign : Z.
  Variable needs_drop : bool.
  Variable guard_fix : bool.
  Variable hash_of : Z -> option Z.
  Variable alloc_refuses : bool.

  Let step := map_step B tsize talign needs_drop guard_fix hash_of alloc_refuses.

  Fixpoint extend_chunks (t : table kv) (chunks : list (list kv)) (evs : list (event kv)) : res Map.result :=
    match chunks with
    | [] => Ok (t, OutUnit, evs)
    | c :: r =>
        '(t1, o, evs1) <- step t (OpExtend c) ;;
        match o with
        | OutUnwind => Ok (t1, OutUnwind, evs ++ evs1)
        | _ => extend_chunks t1 r (evs ++ evs1)
        end
    end.

  Definition m_par_extend (t : table kv) (chunks : list (list kv)) : res Map.result :=
    let len := zn (length (concat chunks)) in
    '(t1, o, evs) <- step t (OpReserve (map_extend_reserve (items t =? 0)%Z len)) ;;
    match o with
    | OutUnwind => Ok (t1, OutUnwind, evs)
    | _ => extend_chunks t1 chunks evs
    end.
End ParExtend.
