(* Group.v -- control bytes, scanner back-ends, and the byte-wise contract (BackendSpec) that
   the table model and all table proofs are written against.

   The two concrete back-ends are assembled from the definitions GENERATED from
   control/group/{generic,sse2}.rs and control/bitmask.rs (Gen.v).  *)
From Coq Require Import ZArith List Bool Lia Sorted.
From HB Require Import RsPrelude Sse2 Gen.
Import ListNotations.
Open Scope Z_scope.

(* ---------------------------------------------------------------------------------------- *)
(* control bytes                                                                              *)
(* ---------------------------------------------------------------------------------------- *)
Definition EMPTY : Z := tag_EMPTY.        (* 255 *)
Definition DELETED : Z := tag_DELETED.    (* 128 *)
Definition is_full (b : Z) : bool := tag_is_full b.
Definition is_special (b : Z) : bool := tag_is_special b.
Definition is_empty (b : Z) : bool := Z.eqb b EMPTY.
Definition is_deleted (b : Z) : bool := Z.eqb b DELETED.

(* the only bytes the table ever stores *)
Definition valid_ctrl (b : Z) : Prop := (0 <= b < 128) \/ b = DELETED \/ b = EMPTY.
Definition valid_ctrlb (b : Z) : bool := ((0 <=? b) && (b <? 128)) || (b =? DELETED) || (b =? EMPTY).

(* little-endian word <-> bytes *)
Fixpoint word_of_bytes (l : list Z) : Z :=
  match l with [] => 0 | b :: r => b + 256 * word_of_bytes r end.
Fixpoint bytes_of_word (n : nat) (w : Z) : list Z :=
  match n with O => [] | S k => (w mod 256) :: bytes_of_word k (w / 256) end.

(* ---------------------------------------------------------------------------------------- *)
(* back-ends                                                                                  *)
(* ---------------------------------------------------------------------------------------- *)
Record backend := {
  bk_width : nat;                       (* Group::WIDTH *)
  bk_bits : Z;                          (* width of BitMaskWord *)
  bk_stride : Z;                        (* BITMASK_STRIDE *)
  bk_mask : Z;                          (* BITMASK_MASK *)
  bk_iter_mask : Z;                     (* BITMASK_ITER_MASK *)
  bk_match_tag : list Z -> Z -> Z;      (* group bytes -> tag -> BitMask word *)
  bk_match_empty : list Z -> Z;
  bk_match_eod : list Z -> Z;           (* match_empty_or_deleted *)
  bk_match_full : list Z -> Z;
  bk_convert : list Z -> list Z         (* convert_special_to_empty_and_full_to_deleted *)
}.

Definition generic_backend : backend := {|
  bk_width := 8; bk_bits := 64;
  bk_stride := generic_BITMASK_STRIDE; bk_mask := generic_BITMASK_MASK;
  bk_iter_mask := generic_BITMASK_ITER_MASK;
  bk_match_tag := fun g t => generic_match_tag (word_of_bytes g) t;
  bk_match_empty := fun g => generic_match_empty (word_of_bytes g);
  bk_match_eod := fun g => generic_match_empty_or_deleted (word_of_bytes g);
  bk_match_full := fun g => generic_match_full (word_of_bytes g);
  bk_convert := fun g => bytes_of_word 8 (generic_convert (word_of_bytes g)) |}.

Definition sse2_backend : backend := {|
  bk_width := 16; bk_bits := 16;
  bk_stride := sse2_BITMASK_STRIDE; bk_mask := sse2_BITMASK_MASK;
  bk_iter_mask := sse2_BITMASK_ITER_MASK;
  bk_match_tag := sse2_match_tag;
  bk_match_empty := sse2_match_empty;
  bk_match_eod := sse2_match_empty_or_deleted;
  bk_match_full := sse2_match_full;
  bk_convert := sse2_convert |}.

Section Views.
  Variable B : backend.

  (* BitMaskIter::next repeated: lowest_set_bit / remove_lowest_bit until the word is 0.
     One iteration per set bit, so bk_bits iterations always suffice. *)
  Fixpoint bm_iter_fuel (fuel : nat) (w : Z) : list nat :=
    match fuel with
    | O => []
    | S f =>
        match bm_lowest_set_bit (bk_bits B) (bk_stride B) w with
        | None => []
        | Some b => Z.to_nat b :: bm_iter_fuel f (bm_remove_lowest_bit (bk_bits B) w)
        end
    end.
  Definition bm_iter (w : Z) : list nat :=
    bm_iter_fuel (Z.to_nat (bk_bits B)) (bm_into_iter (bk_iter_mask B) w).

  (* the five ways the table code looks at a group *)
  Definition g_match_tag (g : list Z) (t : Z) : list nat := bm_iter (bk_match_tag B g t).
  Definition g_match_full (g : list Z) : list nat := bm_iter (bk_match_full B g).
  Definition g_any_empty (g : list Z) : bool := bm_any_bit_set (bk_match_empty B g).
  Definition g_lowest_eod (g : list Z) : option nat :=
    option_map Z.to_nat (bm_lowest_set_bit (bk_bits B) (bk_stride B) (bk_match_eod B g)).
  Definition g_empty_lz (g : list Z) : nat :=
    Z.to_nat (bm_leading_zeros (bk_bits B) (bk_stride B) (bk_match_empty B g)).
  Definition g_empty_tz (g : list Z) : nat :=
    Z.to_nat (bm_trailing_zeros (bk_bits B) (bk_stride B) (bk_match_empty B g)).
  Definition g_convert (g : list Z) : list Z := bk_convert B g.
End Views.

(* ---------------------------------------------------------------------------------------- *)
(* byte-by-byte definitions                                                                   *)
(* ---------------------------------------------------------------------------------------- *)

(* indices j (ascending) of g whose byte satisfies p, offset by `from` *)
Fixpoint indices_from (p : Z -> bool) (from : nat) (g : list Z) : list nat :=
  match g with
  | [] => []
  | b :: r => if p b then from :: indices_from p (S from) r else indices_from p (S from) r
  end.
Definition indices (p : Z -> bool) (g : list Z) : list nat := indices_from p 0 g.

(* index of the first byte satisfying p *)
Fixpoint first_from (p : Z -> bool) (from : nat) (g : list Z) : option nat :=
  match g with
  | [] => None
  | b :: r => if p b then Some from else first_from p (S from) r
  end.
Definition first_index (p : Z -> bool) (g : list Z) : option nat := first_from p 0 g.

(* length of the longest prefix of g all of whose bytes satisfy p *)
Fixpoint prefix_len (p : Z -> bool) (g : list Z) : nat :=
  match g with
  | [] => O
  | b :: r => if p b then S (prefix_len p r) else O
  end.

Definition byte_convert (b : Z) : Z := if is_full b then DELETED else EMPTY.

Definition group_ok (w : nat) (g : list Z) : Prop := length g = w /\ Forall valid_ctrl g.

(* The contract.  For every group of bk_width valid control bytes and every tag < 128: *)
Record BackendSpec (B : backend) : Prop := {
  bs_width_pos : (0 < bk_width B)%nat;
  (* match_full / match_empty / match_empty_or_deleted / convert are exact *)
  bs_match_full : forall g, group_ok (bk_width B) g ->
      g_match_full B g = indices is_full g;
  bs_any_empty : forall g, group_ok (bk_width B) g ->
      g_any_empty B g = existsb is_empty g;
  bs_lowest_eod : forall g, group_ok (bk_width B) g ->
      g_lowest_eod B g = first_index is_special g;
  (* leading_zeros of match_empty: number of trailing (highest-index) non-EMPTY bytes;
     trailing_zeros: number of leading (lowest-index) non-EMPTY bytes *)
  bs_empty_lz : forall g, group_ok (bk_width B) g ->
      g_empty_lz B g = prefix_len (fun b => negb (is_empty b)) (rev g);
  bs_empty_tz : forall g, group_ok (bk_width B) g ->
      g_empty_tz B g = prefix_len (fun b => negb (is_empty b)) g;
  bs_convert : forall g, group_ok (bk_width B) g ->
      g_convert B g = map byte_convert g;
  (* match_tag: ascending indices below the width; every true match is reported; anything
     else that is reported differs from the tag only in its lowest bit and lies above a true
     match (the portable scanner's documented false positive) *)
  bs_match_tag_sorted : forall g t, group_ok (bk_width B) g -> 0 <= t < 128 ->
      StronglySorted lt (g_match_tag B g t);
  bs_match_tag_bound : forall g t j, group_ok (bk_width B) g -> 0 <= t < 128 ->
      In j (g_match_tag B g t) -> (j < bk_width B)%nat;
  bs_match_tag_complete : forall g t j, group_ok (bk_width B) g -> 0 <= t < 128 ->
      (j < bk_width B)%nat -> nth j g 0 = t -> In j (g_match_tag B g t);
  bs_match_tag_sound : forall g t j, group_ok (bk_width B) g -> 0 <= t < 128 ->
      In j (g_match_tag B g t) ->
      nth j g 0 = t \/
      (Z.lxor (nth j g 0) t = 1 /\ exists i, (i < j)%nat /\ nth i g 0 = t)
}.

(* an exact back-end: no false positives at all (what the SSE2 scanner provides) *)
Definition ExactMatchTag (B : backend) : Prop :=
  forall g t, group_ok (bk_width B) g -> 0 <= t < 128 ->
    g_match_tag B g t = indices (fun b => Z.eqb b t) g.
