(* Check.v -- the table invariant as an executable boolean (wf_check).  Proofs/WF.v shows that
   it reflects the Prop-level invariant used in the theorems.  The correspondence check runs it
   on every state the implementation dumps (level B oracle). *)
From Coq Require Import ZArith List Bool Lia.
From HB Require Import RsPrelude Sse2 Gen Group Raw.
Import ListNotations.
Open Scope nat_scope.

Section Check.
  Variable B : backend.
  Variable T : Type.
  Variable hasher : T -> option Z.
  Let GW := bk_width B.

  Definition count_p (p : Z -> bool) (l : list Z) : nat := length (filter p l).

  (* the first `buckets` control bytes *)
  Definition real_ctrl (t : table T) : list Z := firstn (buckets T t) (ctrl t).

  Definition nthZ (l : list Z) (i : nat) : Z := nth i l POISON.

  Definition mirror_ok (t : table T) : bool :=
    let nb := buckets T t in
    let c := ctrl t in
    if GW <=? nb then
      forallb (fun i => Z.eqb (nthZ c (nb + i)) (nthZ c i)) (seq 0 GW)
    else
      forallb (fun i => Z.eqb (nthZ c i) EMPTY) (seq nb (GW - nb)) &&
      forallb (fun i => Z.eqb (nthZ c (GW + i)) (nthZ c i)) (seq 0 nb).

  Definition slots_match_ctrl (t : table T) : bool :=
    forallb (fun i => Bool.eqb (match nth i (slots t) None with Some _ => true | None => false end)
                               (is_full (nthZ (ctrl t) i)))
            (seq 0 (buckets T t)).

  (* SafeWF: shape, valid bytes, mirror, counters; no assumption on Hash/Eq *)
  Definition safe_wf_check (t : table T) : bool :=
    if mask t =? 0 then
      forallb (Z.eqb EMPTY) (ctrl t) && (length (ctrl t) =? GW) &&
      (match slots t with [None] => true | _ => false end) &&
      (items t =? 0)%Z && (growth_left t =? 0)%Z
    else
      is_power_of_two (zn (buckets T t)) &&
      (length (ctrl t) =? buckets T t + GW) &&
      (length (slots t) =? buckets T t) &&
      forallb valid_ctrlb (ctrl t) &&
      mirror_ok t &&
      slots_match_ctrl t &&
      (items t =? zn (count_p is_full (real_ctrl t)))%Z &&
      (growth_left t + items t + zn (count_p is_deleted (real_ctrl t)) =? z_cap (mask t))%Z &&
      (0 <=? growth_left t)%Z.

  (* bucket i is reachable from hash: walking the probe sequence, no group before the one that
     contains i holds an EMPTY byte *)
  Fixpoint reach_loop (fuel : nat) (t : table T) (i pos stride : nat) : bool :=
    match fuel with
    | O => false
    | S f =>
        let nb := buckets T t in
        if ((i + nb - pos) mod nb) <? GW then true else
        match load B T t pos with
        | Ok g => if g_any_empty B g then false
                  else let '(p', s') := n_move_next GW (mask t) pos stride in reach_loop f t i p' s'
        | Fail _ => false
        end
    end.

  Definition reach_ok (t : table T) (hash : Z) (i : nat) : bool :=
    reach_loop (probe_fuel B T t) t i (n_probe_start (mask t) hash) 0.

  (* Tags + Reach for a lawful hasher *)
  Definition hash_wf_check (t : table T) : bool :=
    forallb (fun i =>
               match nth i (slots t) None with
               | None => true
               | Some e =>
                   match hasher e with
                   | None => true
                   | Some h => Z.eqb (nthZ (ctrl t) i) (tag_full h) && reach_ok t h i
                   end
               end) (seq 0 (buckets T t)).

  Definition wf_check (t : table T) : bool := safe_wf_check t && hash_wf_check t.

  (* occupants in bucket order *)
  Definition occupants (t : table T) : list T :=
    flat_map (fun o => match o with Some e => [e] | None => [] end) (slots t).
End Check.
