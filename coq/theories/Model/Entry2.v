(* Entry2.v -- executable models of the entry code paths that do NOT go through RawTable::insert
   with a reserve inside (src/raw/mod.rs `insert_no_grow`, src/rustc_entry.rs) and of the raw
   entry builders (src/raw_entry.rs), written as separate model code, one line of Gallina per
   line of Rust, Rust quoted in the comments, built from the CHECKED primitives of Raw.v and the
   helpers of Map.v (`with_hash`, `unwind`, `eq_key`, `vacant_insert`) so that the results are
   comparable, as values, with those of `map_step`.  No proofs in this file.

   A Bucket<T> is its index.  `debug_assert!`s are not part of a release build; the safety
   precondition of `RawTableInner::bucket(index)` (index < buckets) is checked like in
   Raw.insert_in_slot.  Arithmetic on usize wraps (release build). *)
From Coq Require Import ZArith List Bool.
From HB Require Import RsPrelude Sse2 Gen Group Raw Map.
Import ListNotations.
Open Scope nat_scope.

(* ------------------------------------------------------------------------------------------ *)
(* RawTable::insert_no_grow  (src/raw/mod.rs l.1086, feature "rustc-internal-api")             *)
(*                                                                                            *)
(*     pub unsafe fn insert_no_grow(&mut self, hash: u64, value: T) -> Bucket<T> {            *)
(*         let (index, old_ctrl) = self.table.prepare_insert_slot(hash);                      *)
(*         let bucket = self.table.bucket(index);                                             *)
(*         // If we are replacing a DELETED entry then we don't need to update                *)
(*         // the load counter.                                                               *)
(*         self.table.growth_left -= old_ctrl.special_is_empty() as usize;                    *)
(*         bucket.write(value);                                                               *)
(*         self.table.items += 1;                                                             *)
(*         bucket                                                                             *)
(*     }                                                                                      *)
(*                                                                                            *)
(* prepare_insert_slot (l.1788) = find_insert_slot; read the old control byte; set_ctrl_hash  *)
(* -- i.e. the control byte (and its mirror) is ALREADY written when the counters are         *)
(* updated; this is Raw.prepare_insert_slot.                                                  *)
(* ------------------------------------------------------------------------------------------ *)
Section InsertNoGrow.
  Variable B : backend.
  Variable T : Type.

  Definition insert_no_grow (t : table T) (hash : Z) (value : T) : res (table T * nat) :=
    (* let (index, old_ctrl) = self.table.prepare_insert_slot(hash); *)
    '(index, old_ctrl, t1) <- prepare_insert_slot B T t hash ;;
    (* let bucket = self.table.bucket(index);      -- safety: index < self.buckets() *)
    if negb (index <? buckets T t1) then Fail UB_slot_oob else
    (* self.table.growth_left -= old_ctrl.special_is_empty() as usize; *)
    let t2 := with_counts T t1 (items t1)
                (wsub 64 (growth_left t1) (bool_to_Z (tag_special_is_empty old_ctrl))) in
    (* bucket.write(value); *)
    t3 <- slot_write T t2 index value ;;
    (* self.table.items += 1; *)
    let t4 := with_counts T t3 (wadd 64 (items t3) 1) (growth_left t3) in
    (* bucket *)
    Ok (t4, index).
End InsertNoGrow.

(* ------------------------------------------------------------------------------------------ *)
(* the entry actions the model distinguishes (the same four shapes as the Op* of Map.v)        *)
(* ------------------------------------------------------------------------------------------ *)
Inductive entry_act : Type :=
| ActOrInsert (v : Z)        (* .or_insert(v)                         -> the value now stored *)
| ActInsert (v : Z)          (* .insert(v)                            -> old value / None     *)
| ActRemoveEntry             (* if let Occupied(e) = .. { e.remove_entry() }                   *)
| ActDrop.                   (* drop(entry); reports Occupied / Vacant                         *)

(* the operation of Map.v (HashMap::entry based) with the same action *)
Definition entry_op_of (k stamp : Z) (a : entry_act) : map_op :=
  match a with
  | ActOrInsert v => OpEntryOrInsert k stamp v
  | ActInsert v => OpEntryInsert k stamp v
  | ActRemoveEntry => OpEntryRemove k stamp
  | ActDrop => OpEntryDrop k stamp
  end.

(* the actions of a RawEntryMut: the key object to insert is an argument of the ACTION
   (or_insert(default_key, default_val) / insert(key, value)), not of the builder *)
Inductive raw_act : Type :=
| RActOrInsert (ik stamp v : Z)     (* .or_insert(key, v) *)
| RActInsert (ik stamp v : Z)       (* .insert(key, v) *)
| RActRemoveEntry                   (* if let Occupied(e) = .. { e.remove_entry() } *)
| RActDrop.

(* the HashMap::entry operation a raw action on key k corresponds to when the action's key is k
   (no key object is handed to the raw builders: the stamp of OpEntryRemove / OpEntryDrop, which
   map_step ignores, is 0) *)
Definition raw_op_of (k : Z) (a : raw_act) : map_op :=
  match a with
  | RActOrInsert _ stamp v => OpEntryOrInsert k stamp v
  | RActInsert _ stamp v => OpEntryInsert k stamp v
  | RActRemoveEntry => OpEntryRemove k 0%Z
  | RActDrop => OpEntryDrop k 0%Z
  end.

Definition raw_act_key_is (k : Z) (a : raw_act) : Prop :=
  match a with RActOrInsert ik _ _ | RActInsert ik _ _ => ik = k | _ => True end.

Section Entry2.
  Variable B : backend.
  Variable tsize talign : Z.
  Variable needs_drop : bool.
  Variable guard_fix : bool.                 (* Gen.rehash_guard_unconditional *)
  Variable hash_of : Z -> option Z.          (* BuildHasher on key ids; None = it panics *)
  Variable alloc_refuses : bool.             (* the allocator refuses the next request *)

  Let tbl := table kv.
  Let ev := event kv.

  Notation R_find := (Raw.find B kv).
  Notation R_remove := (Raw.remove B kv).
  Notation R_reserve := (Raw.reserve B kv tsize talign needs_drop (hasher hash_of) guard_fix).
  Notation WITH_HASH := (with_hash hash_of).

  (* ---------------------------------------------------------------------------------------- *)
  (* src/rustc_entry.rs                                                                         *)
  (* ---------------------------------------------------------------------------------------- *)
  (* RustcOccupiedEntry / RustcEntry, Occupied arms.  `elem` = bucket index, `e` = *elem.
       or_insert:     Occupied(entry) => entry.into_mut()                 unsafe { &mut self.elem.as_mut().1 }
       insert:        Occupied(mut entry) => { entry.insert(value); entry }   mem::replace(self.get_mut(), value)
       remove_entry:  unsafe { self.table.remove(self.elem).0 }
       drop:          nothing *)
  Definition rustc_occupied (t : tbl) (elem : nat) (e : kv) (a : entry_act) : res result :=
    match a with
    | ActOrInsert _ => Ok (t, OutVal (v_val e), [])
    | ActInsert v => t1 <- slot_write kv t elem (mkKV (k_id e) (k_stamp e) v) ;; Ok (t1, OutVal (v_val e), [])
    | ActRemoveEntry => '(e', t1) <- R_remove t elem ;; Ok (t1, OutKV (k_stamp e') (v_val e'), [EvMoveOut e'])
    | ActDrop => Ok (t, OutBool true, [])
    end.

  (* RustcVacantEntry { hash, key, table }, Vacant arms; `evs` = what the reserve(1) of
     rustc_entry already emitted.
       or_insert:     Vacant(entry) => entry.insert(default)
                        let bucket = self.table.insert_no_grow(self.hash, (self.key, value)); &mut bucket.as_mut().1
       insert:        Vacant(entry) => entry.insert_entry(value)
                        let bucket = unsafe { self.table.insert_no_grow(self.hash, (self.key, value)) };
       remove_entry:  not Occupied: nothing
       drop:          nothing (the reserve has happened all the same) *)
  Definition rustc_vacant (t : tbl) (hash k stamp : Z) (a : entry_act) (evs : list ev) : res result :=
    match a with
    | ActOrInsert v => '(t1, _) <- insert_no_grow B kv t hash (mkKV k stamp v) ;; Ok (t1, OutVal v, evs)
    | ActInsert v => '(t1, _) <- insert_no_grow B kv t hash (mkKV k stamp v) ;; Ok (t1, OutNone, evs)
    | ActRemoveEntry => Ok (t, OutNone, evs)
    | ActDrop => Ok (t, OutBool false, evs)
    end.

  (* pub fn rustc_entry(&mut self, key: K) -> RustcEntry<'_, K, V, A>, then the action *)
  Definition rustc_step (t : tbl) (k stamp : Z) (a : entry_act) : res result :=
    (* let hash = make_hash(&self.hash_builder, &key);     -- may panic: nothing touched yet *)
    WITH_HASH t k (fun hash =>
      (* if let Some(elem) = self.table.find(hash, |q| q.0.eq(&key)) *)
      r <- R_find t hash (eq_key k) ;;
      match r with
      | Some elem =>
          (* RustcEntry::Occupied(RustcOccupiedEntry { elem, table: &mut self.table }) *)
          e <- slot_ref kv t elem ;; rustc_occupied t elem e a
      | None =>
          (* self.reserve(1);     -- HashMap::reserve = self.table.reserve(1, make_hasher(&self.hash_builder)):
                                     may unwind (hasher panics while rehashing / resizing),
                                     may abort (allocation failure), may panic (capacity overflow) *)
          '(t1, evs, _, unw) <- R_reserve t 1%Z alloc_refuses ;;
          if unw then unwind t1 evs else
          (* RustcEntry::Vacant(RustcVacantEntry { hash, key, table: &mut self.table }) *)
          rustc_vacant t1 hash k stamp a evs
      end).

  (* ---------------------------------------------------------------------------------------- *)
  (* src/raw_entry.rs                                                                           *)
  (* ---------------------------------------------------------------------------------------- *)
  (* RawOccupiedEntryMut, Occupied arms of RawEntryMut:
       or_insert:     RawEntryMut::Occupied(entry) => entry.into_key_value()
       insert:        RawEntryMut::Occupied(mut entry) => { entry.insert(value); entry }   (the key argument is dropped)
       remove_entry:  unsafe { self.table.remove(self.elem).0 } *)
  Definition raw_occupied (t : tbl) (elem : nat) (e : kv) (a : raw_act) : res result :=
    match a with
    | RActOrInsert _ _ _ => Ok (t, OutVal (v_val e), [])
    | RActInsert _ _ v => t1 <- slot_write kv t elem (mkKV (k_id e) (k_stamp e) v) ;; Ok (t1, OutVal (v_val e), [])
    | RActRemoveEntry => '(e', t1) <- R_remove t elem ;; Ok (t1, OutKV (k_stamp e') (v_val e'), [EvMoveOut e'])
    | RActDrop => Ok (t, OutBool true, [])
    end.

  (* RawVacantEntryMut::insert(key, value) / insert_entry(key, value):
         let hash = make_hash::<K, S>(self.hash_builder, &key);          -- a SECOND hasher call; may panic
         self.insert_hashed_nocheck(hash, key, value)
           = self.table.insert_entry(hash, (key, value), make_hasher::<_, V, S>(self.hash_builder))
           = RawTable::insert (with its own reserve(1) when needed)          -- Map.vacant_insert *)
  Definition raw_vacant_insert (t : tbl) (ik stamp v : Z) (o : out) : res result :=
    WITH_HASH t ik (fun hash =>
      vacant_insert B tsize talign needs_drop guard_fix hash_of alloc_refuses t hash (mkKV ik stamp v) o).

  Definition raw_vacant (t : tbl) (a : raw_act) : res result :=
    match a with
    | RActOrInsert ik stamp v => raw_vacant_insert t ik stamp v (OutVal v)
    | RActInsert ik stamp v => raw_vacant_insert t ik stamp v OutNone
    | RActRemoveEntry => Ok (t, OutNone, [])
    | RActDrop => Ok (t, OutBool false, [])
    end.

  (* m.raw_entry_mut().from_key_hashed_nocheck(hash, &k) = self.from_hash(hash, equivalent(k))
       = self.search(hash, is_match):
           match self.map.table.find(hash, |(k, _)| is_match(k)) { Some(elem) => Occupied.., None => Vacant.. }
     the CALLER's hash is used as is: no hashing, no is_empty shortcut, no reserve *)
  Definition raw_step_hashed (t : tbl) (hash k : Z) (a : raw_act) : res result :=
    r <- R_find t hash (eq_key k) ;;
    match r with
    | Some elem => e <- slot_ref kv t elem ;; raw_occupied t elem e a
    | None => raw_vacant t a
    end.

  (* m.raw_entry_mut().from_key(&k):
         let hash = make_hash::<Q, S>(&self.map.hash_builder, k);
         self.from_key_hashed_nocheck(hash, k) *)
  Definition raw_step (t : tbl) (k : Z) (a : raw_act) : res result :=
    WITH_HASH t k (fun hash => raw_step_hashed t hash k a).

  (* m.raw_entry().from_key_hashed_nocheck(hash, &k) = self.search(hash, equivalent(k)):
         match self.map.table.get(hash, |(k, _)| is_match(k)) { Some((key, value)) => Some((key, value)), None => None }
     RawTable::get = match self.find(hash, eq) { Some(bucket) => Some(bucket.as_ref()), None => None }:
     no is_empty shortcut (HashMap::get_inner has one) *)
  Definition raw_get_hashed (t : tbl) (hash k : Z) : res result :=
    r <- R_find t hash (eq_key k) ;;
    match r with
    | Some i => e <- slot_ref kv t i ;; Ok (t, OutKV (k_stamp e) (v_val e), [])
    | None => Ok (t, OutNone, [])
    end.

  (* m.raw_entry().from_key(&k):  let hash = make_hash::<Q, S>(&self.map.hash_builder, k); ... *)
  Definition raw_get (t : tbl) (k : Z) : res result :=
    WITH_HASH t k (fun hash => raw_get_hashed t hash k).
End Entry2.
