(* Marker.v -- the auto-trait (Send / Sync) and variance calculus over the declarations that
   tools/sigx.py extracts into Gen/GenTypes.v  (property C16).

   Hand-written, total (fuel) and executable.  It is a *model* of what rustc computes for the
   constructs that occur in these declarations; tools/c16_probes.py compares it with the compiler
   on generated programs.  The rules:

     a type without an explicit impl   structural: the conjunction over its fields
     &T      : Send <-> T : Sync       &T      : Sync <-> T : Sync
     &mut T  : Send <-> T : Send       &mut T  : Sync <-> T : Sync
     *const T, *mut T, NonNull<T>      neither Send nor Sync
     PhantomData<T>                    as T
     (A, B, ..)                        componentwise
     fn(..) -> ..                      Send and Sync
     `unsafe impl Send for X<..> where bounds`
                                       REPLACES the structural answer for Send by exactly the
                                       conjunction of the bounds, evaluated on the instantiation;
                                       same for Sync; the trait without an explicit impl keeps its
                                       structural answer.

   Evaluation is by environments, not substitution: to evaluate X<t1..tn> the (Send, Sync) bits of
   t1..tn are computed first and bound to X's parameters.  Every function returns None when the fuel
   runs out or a declaration is missing, so a `Some` answer is never an artefact of the fuel. *)
From Coq Require Import String List Bool Arith.
From HB Require Import Gen.GenTypes.
Import ListNotations.
Open Scope string_scope.

Definition env := list decl.
Definition bb := (bool * bool)%type.               (* (is Send, is Sync) *)
Definition sigma := string -> bb.

Fixpoint lookup (e : env) (n : string) : option decl :=
  match e with
  | [] => None
  | d :: r => if String.eqb (d_name d) n then Some d else lookup r n
  end.

Definition andbb (a b : bb) : bb := (fst a && fst b, snd a && snd b).

Fixpoint all_o (l : list (option bb)) : option bb :=
  match l with
  | [] => Some (true, true)
  | x :: r => match x, all_o r with
              | Some a, Some b => Some (andbb a b)
              | _, _ => None
              end
  end.

Fixpoint sequence {A} (l : list (option A)) : option (list A) :=
  match l with
  | [] => Some []
  | x :: r => match x, sequence r with
              | Some a, Some b => Some (a :: b)
              | _, _ => None
              end
  end.

(* bind the parameters of a declaration to the bits of the arguments (first occurrence wins) *)
Fixpoint bind (ps : list string) (bits : list bb) : sigma :=
  fun p => match ps, bits with
           | q :: ps', b :: bits' => if String.eqb q p then b else bind ps' bits' p
           | _, _ => (false, false)
           end.

Definition sel (m : marker) (b : bb) : bool := match m with MSend => fst b | MSync => snd b end.

Fixpoint bounds_o (l : list (option bb * marker)) : option bool :=
  match l with
  | [] => Some true
  | (x, m) :: r => match x, bounds_o r with
                   | Some b, Some c => Some (sel m b && c)
                   | _, _ => None
                   end
  end.

(* the (Send, Sync) bits of a declaration applied to arguments with the given bits;
   `rec` evaluates a type of the declaration's body under an assignment of its parameters *)
Definition decl_marks (rec : sigma -> ty -> option bb) (d : decl) (bits : list bb) : option bb :=
  if negb (Nat.eqb (List.length bits) (List.length (d_params d))) then None else
  let s := bind (d_params d) bits in
  match all_o (map (fun f => rec s (snd f)) (d_fields d)) with
  | None => None
  | Some structural =>
    let one (explicit : option (list (ty * marker))) (dflt : bool) : option bool :=
      match explicit with
      | None => Some dflt
      | Some bs => bounds_o (map (fun b => (rec s (fst b), snd b)) bs)
      end in
    match one (d_send d) (fst structural), one (d_sync d) (snd structural) with
    | Some a, Some b => Some (a, b)
    | _, _ => None
    end
  end.

Fixpoint marks (e : env) (fuel : nat) (s : sigma) (t : ty) : option bb :=
  match fuel with
  | O => None
  | S f =>
    match t with
    | TParam p => Some (s p)
    | TRef t' => option_map (fun m => (snd m, snd m)) (marks e f s t')
    | TRefMut t' => marks e f s t'
    | TPtrConst t' | TPtrMut t' | TNonNull t' => option_map (fun _ => (false, false)) (marks e f s t')
    | TPhantom t' => marks e f s t'
    | TTuple l => all_o (map (marks e f s) l)
    | TPrim => Some (true, true)
    | TFnPtr a r => option_map (fun _ => (true, true)) (all_o (map (marks e f s) (r :: a)))
    | TApp n args =>
      match lookup e n with
      | None => None
      | Some d => match sequence (map (marks e f s) args) with
                  | None => None
                  | Some bits => decl_marks (marks e f) d bits
                  end
      end
    end
  end.

Definition send (e : env) (fuel : nat) (s : sigma) (t : ty) : bool :=
  match marks e fuel s t with Some (true, _) => true | _ => false end.
Definition sync (e : env) (fuel : nat) (s : sigma) (t : ty) : bool :=
  match marks e fuel s t with Some (_, true) => true | _ => false end.

(* ---------------------------------------------------------------------------------------------- *)
(* variance of the type parameters (rustc's rules)                                                *)
(* ---------------------------------------------------------------------------------------------- *)
Inductive var := Bi | Co | Contra | Inv.            (* Bi = the parameter does not occur *)

Definition var_eqb (a b : var) : bool :=
  match a, b with Bi, Bi | Co, Co | Contra, Contra | Inv, Inv => true | _, _ => false end.

Definition glb (a b : var) : var :=
  match a, b with
  | Bi, x | x, Bi => x
  | Co, Co => Co
  | Contra, Contra => Contra
  | _, _ => Inv
  end.

(* the variance of a position of variance [b] inside a position of variance [a] *)
Definition xform (a b : var) : var :=
  match a, b with
  | _, Bi | Bi, _ => Bi
  | Co, x => x
  | Contra, Co => Contra
  | Contra, Contra => Co
  | Contra, Inv => Inv
  | Inv, _ => Inv
  end.

Fixpoint glb_o (l : list (option var)) : option var :=
  match l with
  | [] => Some Bi
  | x :: r => match x, glb_o r with
              | Some a, Some b => Some (glb a b)
              | _, _ => None
              end
  end.

(* variance of parameter [q] of declaration [d]: the meet over its fields *)
Definition decl_var (rec : string -> ty -> option var) (d : decl) (q : string) : option var :=
  glb_o (map (fun f => rec q (snd f)) (d_fields d)).

Fixpoint var_ty (e : env) (fuel : nat) (p : string) (t : ty) : option var :=
  match fuel with
  | O => None
  | S f =>
    match t with
    | TParam q => Some (if String.eqb p q then Co else Bi)
    | TRef t' | TPtrConst t' | TNonNull t' | TPhantom t' => var_ty e f p t'
    | TRefMut t' | TPtrMut t' => option_map (xform Inv) (var_ty e f p t')
    | TTuple l => glb_o (map (var_ty e f p) l)
    | TPrim => Some Bi
    | TFnPtr a r =>
      match glb_o (map (var_ty e f p) a), var_ty e f p r with
      | Some va, Some vr => Some (glb (xform Contra va) vr)
      | _, _ => None
      end
    | TApp n args =>
      match lookup e n with
      | None => None
      | Some d =>
        if negb (Nat.eqb (List.length args) (List.length (d_params d))) then None else
        glb_o (map (fun qa => match decl_var (var_ty e f) d (fst qa), var_ty e f p (snd qa) with
                              | Some vq, Some va => Some (xform vq va)
                              | _, _ => None
                              end)
                   (combine (d_params d) args))
      end
    end
  end.

(* a declaration applied to its own parameters *)
Definition self_ty (d : decl) : ty := TApp (d_name d) (map TParam (d_params d)).

Definition FUEL : nat := 64.

(* variance of parameter [p] of the declaration named [n] *)
Definition variance (e : env) (n p : string) : option var :=
  match lookup e n with
  | None => None
  | Some d => if existsb (String.eqb p) (d_params d) then decl_var (var_ty e FUEL) d p else None
  end.

(* all assignments of (Send, Sync) bits to k parameters *)
Fixpoint all_bits (k : nat) : list (list bb) :=
  match k with
  | O => [[]]
  | S k' => flat_map (fun r => [(true, true) :: r; (true, false) :: r; (false, true) :: r; (false, false) :: r])
                     (all_bits k')
  end.
