(* OwnIter.v -- the OWNING iterators of RawTable (src/raw/mod.rs: RawIntoIter, RawDrain) as
   STEP-WISE objects: creation, one call of next(), Drop, and mem::forget at any point are
   separate model functions, so that an iterator dropped or leaked half-way, and a consumer that
   panics (unwinding drops the iterator), are runs of the model.  Built from the CHECKED
   primitives of Raw.v (iter_new / iter_next / slot_take / take_all / drop_list / clear_no_drop /
   free_buckets), one line of Gallina per line of Rust, Rust quoted above each definition.
   No proofs in this file (Proofs/OwnIterFacts.v).

   HashMap's IntoIter / Drain / IntoKeys / IntoValues (src/map.rs) are thin wrappers:
       impl Iterator for IntoIter<K, V, A> { fn next(&mut self) -> Option<(K, V)> { self.inner.next() } }
       impl Iterator for Drain<'_, K, V, A> { fn next(&mut self) -> Option<(K, V)> { self.inner.next() } }
   with `inner: RawIntoIter<(K, V), A>` / `inner: RawDrain<'a, (K, V), A>` and NO Drop impl of
   their own: dropping / leaking the wrapper is dropping / leaking `inner`.

   A Bucket<T> is its index.  `debug_assert!`s are not part of a release build. *)
From Coq Require Import ZArith List Bool.
From HB Require Import RsPrelude Sse2 Gen Group Raw.
Import ListNotations.
Open Scope nat_scope.

Section OwnIter.
  Variable B : backend.
  Variable T : Type.
  (* TableLayout::new::<T>() and T::NEEDS_DROP *)
  Variable tsize talign : Z.
  Variable needs_drop : bool.
  (* `drop_ok e = false`: T's destructor panics on e (as in Raw.drop_elements) *)
  Variable drop_ok : T -> bool.

  Let tbl := table T.
  Let ev := event T.

  (* ---------------------------------------------------------------------------------------- *)
  (*   pub struct RawIntoIter<T, A: Allocator = Global> {                                      *)
  (*       iter: RawIter<T>,                                                                   *)
  (*       allocation: Option<(NonNull<u8>, Layout, A)>,                                       *)
  (*       marker: PhantomData<T>,                                                             *)
  (*   }                                                                                       *)
  (*   pub struct RawDrain<'a, T, A: Allocator = Global> {                                     *)
  (*       iter: RawIter<T>,                                                                   *)
  (*       // The table is moved into the iterator for the duration of the drain. This         *)
  (*       // ensures that an empty table is left if the drain iterator is leaked              *)
  (*       // without dropping.                                                                *)
  (*       table: RawTableInner,                                                               *)
  (*       orig_table: NonNull<RawTableInner>,                                                 *)
  (*       marker: PhantomData<&'a RawTable<T, A>>,                                            *)
  (*   }                                                                                       *)
  (*                                                                                           *)
  (* One record for both: `oi_tbl` is the table memory the iterator OWNS -- for RawIntoIter    *)
  (* the block `allocation` (None <=> the table is the static singleton; the layout is a       *)
  (* function of the bucket count, Raw.layout_for) together with the buckets reachable         *)
  (* through `iter`; for RawDrain the moved-out `table`.  `oi_it` is `iter`.  A slot of        *)
  (* `oi_tbl` is Some exactly while the iterator still owns the element stored there.          *)
  (* ---------------------------------------------------------------------------------------- *)
  Record own_iter : Type := mkOwn {
    oi_tbl : tbl;
    oi_it : raw_iter
  }.

  (* ---------------------------------------------------------------------------------------- *)
  (*   impl<T, A: Allocator> IntoIterator for RawTable<T, A> {                                 *)
  (*       fn into_iter(self) -> RawIntoIter<T, A> {                                           *)
  (*           unsafe {                                                                        *)
  (*               let iter = self.iter();                                                     *)
  (*               self.into_iter_from(iter)                                                   *)
  (*           }                                                                               *)
  (*       }                                                                                   *)
  (*   }                                                                                       *)
  (*   pub unsafe fn into_iter_from(self, iter: RawIter<T>) -> RawIntoIter<T, A> {             *)
  (*       debug_assert_eq!(iter.len(), self.len());                                           *)
  (*       let allocation = self.into_allocation();                                            *)
  (*       RawIntoIter { iter, allocation, marker: PhantomData }                               *)
  (*   }                                                                                       *)
  (*   pub(crate) fn into_allocation(self) -> Option<(NonNull<u8>, Layout, A)> {               *)
  (*       let alloc = if self.table.is_empty_singleton() {                                    *)
  (*           None                                                                            *)
  (*       } else {                                                                            *)
  (*           let (layout, ctrl_offset) =                                                     *)
  (*               match Self::TABLE_LAYOUT.calculate_layout_for(self.table.buckets()) {       *)
  (*                   Some(lco) => lco,                                                       *)
  (*                   None => unsafe { hint::unreachable_unchecked() },                       *)
  (*               };                                                                          *)
  (*           Some((ptr, layout, unsafe { ptr::read(&self.alloc) }))                          *)
  (*       };                                                                                  *)
  (*       mem::forget(self);                                                                  *)
  (*       alloc                                                                               *)
  (*   }                                                                                       *)
  (* The collection is consumed (`self` by value, then mem::forget): nothing is left behind.   *)
  (* ---------------------------------------------------------------------------------------- *)
  Definition into_allocation (t : tbl) : res (option (Z * Z)) :=
    if is_singleton T t then Ok None else
    match layout_for B tsize talign (buckets T t) with
    | Some (len, al, _) => Ok (Some (len, al))
    | None => Fail UB_unreachable                 (* hint::unreachable_unchecked() *)
    end.

  Definition into_iter_from (t : tbl) (iter : raw_iter) : res own_iter :=
    (* let allocation = self.into_allocation(); *)
    _ <- into_allocation t ;;
    (* RawIntoIter { iter, allocation, marker } *)
    Ok (mkOwn t iter).

  Definition into_iter_new (t : tbl) : res own_iter :=
    (* let iter = self.iter(); *)
    iter <- iter_new B T t ;;
    (* self.into_iter_from(iter) *)
    into_iter_from t iter.

  (* ---------------------------------------------------------------------------------------- *)
  (*   pub fn drain(&mut self) -> RawDrain<'_, T, A> {                                         *)
  (*       unsafe {                                                                            *)
  (*           let iter = self.iter();                                                         *)
  (*           self.drain_iter_from(iter)                                                      *)
  (*       }                                                                                   *)
  (*   }                                                                                       *)
  (*   pub unsafe fn drain_iter_from(&mut self, iter: RawIter<T>) -> RawDrain<'_, T, A> {      *)
  (*       debug_assert_eq!(iter.len(), self.len());                                           *)
  (*       RawDrain {                                                                          *)
  (*           iter,                                                                           *)
  (*           table: mem::replace(&mut self.table, RawTableInner::NEW),                       *)
  (*           orig_table: NonNull::from(&mut self.table),                                     *)
  (*           marker: PhantomData,                                                            *)
  (*       }                                                                                   *)
  (*   }                                                                                       *)
  (* Result: the Drain, and what is LEFT in the collection while the Drain is alive            *)
  (* (RawTableInner::NEW = Raw.new_table).                                                     *)
  (* ---------------------------------------------------------------------------------------- *)
  Definition drain_iter_from (t : tbl) (iter : raw_iter) : own_iter * tbl :=
    (* table: mem::replace(&mut self.table, RawTableInner::NEW) *)
    (mkOwn t iter, new_table B T).

  Definition drain_new (t : tbl) : res (own_iter * tbl) :=
    (* let iter = self.iter(); *)
    iter <- iter_new B T t ;;
    (* self.drain_iter_from(iter) *)
    Ok (drain_iter_from t iter).

  (* ---------------------------------------------------------------------------------------- *)
  (*   impl<T, A: Allocator> Iterator for RawIntoIter<T, A> {                                  *)
  (*       fn next(&mut self) -> Option<T> {                                                   *)
  (*           unsafe { Some(self.iter.next()?.read()) }                                       *)
  (*       }                                                                                   *)
  (*       fn size_hint(&self) -> (usize, Option<usize>) { self.iter.size_hint() }             *)
  (*   }                                                                                       *)
  (*   impl<T, A: Allocator> Iterator for RawDrain<'_, T, A> {                                 *)
  (*       fn next(&mut self) -> Option<T> {                                                   *)
  (*           unsafe {                                                                        *)
  (*               let item = self.iter.next()?;                                               *)
  (*               Some(item.read())                                                           *)
  (*           }                                                                               *)
  (*       }                                                                                   *)
  (*       fn size_hint(&self) -> (usize, Option<usize>) { self.iter.size_hint() }             *)
  (*   }                                                                                       *)
  (* Bucket::read moves the value out of the slot (Raw.slot_take): the element now belongs     *)
  (* to the caller (EvMoveOut).                                                                *)
  (* ---------------------------------------------------------------------------------------- *)
  Definition own_next (oi : own_iter) : res (option T * own_iter * list ev) :=
    (* let item = self.iter.next()?; *)
    '(nxt, it') <- iter_next B T (oi_tbl oi) (oi_it oi) ;;
    match nxt with
    | None => Ok (None, mkOwn (oi_tbl oi) it', [])
    | Some i =>
        (* Some(item.read()) *)
        '(e, t1) <- slot_take T (oi_tbl oi) i ;;
        Ok (Some e, mkOwn t1 it', [EvMoveOut e])
    end.

  (* size_hint / ExactSizeIterator::len: RawIter.items *)
  Definition own_len (oi : own_iter) : Z := it_items (oi_it oi).

  (* ---------------------------------------------------------------------------------------- *)
  (*   impl<T> RawIter<T> {                                                                    *)
  (*       unsafe fn drop_elements(&mut self) {                                                *)
  (*           if T::NEEDS_DROP && self.items != 0 {                                           *)
  (*               for item in self {                                                          *)
  (*                   item.drop();                                                            *)
  (*               }                                                                           *)
  (*           }                                                                               *)
  (*       }                                                                                   *)
  (*   }                                                                                       *)
  (* on the iterator's CURRENT state: every element not yet yielded, in iteration order.       *)
  (* Modelled like Raw.drop_elements: the remaining buckets (iter_all), their elements leave   *)
  (* the slots (take_all), the destructors run in order (drop_list) and stop at the first one  *)
  (* that panics: the elements after it are leaked (they are in no slot and in no event) and   *)
  (* the bool is false (the panic propagates).                                                 *)
  (* ---------------------------------------------------------------------------------------- *)
  Definition own_drop_elements (oi : own_iter) : res (tbl * list ev * bool) :=
    if needs_drop && negb (it_items (oi_it oi) =? 0)%Z then
      idx <- iter_all B T (oi_tbl oi) (oi_it oi) ;;
      '(es, t1) <- take_all T (oi_tbl oi) idx ;;
      let '(evs, ok) := drop_list T drop_ok es in Ok (t1, evs, ok)
    else Ok (oi_tbl oi, [], true).

  (* ---------------------------------------------------------------------------------------- *)
  (*   impl<T, A: Allocator> Drop for RawIntoIter<T, A> {                                      *)
  (*       fn drop(&mut self) {                                                                *)
  (*           unsafe {                                                                        *)
  (*               // Drop all remaining elements                                              *)
  (*               self.iter.drop_elements();                                                  *)
  (*               // Free the table                                                           *)
  (*               if let Some((ptr, layout, ref alloc)) = self.allocation {                   *)
  (*                   alloc.deallocate(ptr, layout);                                          *)
  (*               }                                                                           *)
  (*           }                                                                               *)
  (*       }                                                                                   *)
  (*   }                                                                                       *)
  (* Result bool = false: a destructor panicked; the deallocation is not reached (the block    *)
  (* and the remaining elements are leaked).  `allocation` is Some <=> not the singleton, with *)
  (* the layout of the bucket count: Raw.free_buckets.                                         *)
  (* ---------------------------------------------------------------------------------------- *)
  Definition into_iter_drop (oi : own_iter) : res (list ev * bool) :=
    (* self.iter.drop_elements(); *)
    '(t1, evs, ok) <- own_drop_elements oi ;;
    if ok then
      (* if let Some((ptr, layout, ref alloc)) = self.allocation { alloc.deallocate(ptr, layout); } *)
      fr <- (if is_singleton T t1 then Ok [] else free_buckets B T tsize talign t1) ;;
      Ok (evs ++ fr, true)
    else Ok (evs, false).

  (* ---------------------------------------------------------------------------------------- *)
  (*   impl<T, A: Allocator> Drop for RawDrain<'_, T, A> {                                     *)
  (*       fn drop(&mut self) {                                                                *)
  (*           unsafe {                                                                        *)
  (*               // Drop all remaining elements. Note that this may panic.                   *)
  (*               self.iter.drop_elements();                                                  *)
  (*               // Reset the contents of the table now that all elements have been          *)
  (*               // dropped.                                                                 *)
  (*               self.table.clear_no_drop();                                                 *)
  (*               // Move the now empty table back to its original location.                  *)
  (*               self.orig_table.as_ptr().copy_from_nonoverlapping(&self.table, 1);          *)
  (*           }                                                                               *)
  (*       }                                                                                   *)
  (*   }                                                                                       *)
  (* Result: the collection's table afterwards.  When a destructor panics (bool = false) the   *)
  (* last two statements are not reached: the collection keeps RawTableInner::NEW and the      *)
  (* block is leaked.                                                                          *)
  (* ---------------------------------------------------------------------------------------- *)
  Definition drain_drop (oi : own_iter) : res (tbl * list ev * bool) :=
    (* self.iter.drop_elements(); *)
    '(t1, evs, ok) <- own_drop_elements oi ;;
    if ok then
      (* self.table.clear_no_drop(); *orig_table = self.table *)
      Ok (clear_no_drop T t1, evs, true)
    else Ok (new_table B T, evs, false).

  (* ---------------------------------------------------------------------------------------- *)
  (* the caller: k calls of next() (stopping at the first None), the yielded elements in order  *)
  (* ---------------------------------------------------------------------------------------- *)
  Fixpoint own_run (k : nat) (oi : own_iter) : res (list T * own_iter * list ev) :=
    match k with
    | O => Ok ([], oi, [])
    | S k' =>
        '(o, oi1, evs1) <- own_next oi ;;
        match o with
        | None => Ok ([], oi1, evs1)
        | Some e => '(es, oi2, evs2) <- own_run k' oi1 ;; Ok (e :: es, oi2, evs1 ++ evs2)
        end
    end.

  (* let mut it = table.into_iter(); n x it.next(); drop(it)
     -> (yielded elements, events, false iff a destructor panicked) *)
  Definition into_iter_consume (t : tbl) (n : nat) : res (list T * list ev * bool) :=
    oi <- into_iter_new t ;;
    '(es, oi1, evs1) <- own_run n oi ;;
    '(evs2, ok) <- into_iter_drop oi1 ;;
    Ok (es, evs1 ++ evs2, ok).

  (* let mut it = table.into_iter(); n x it.next(); mem::forget(it) *)
  Definition into_iter_leak (t : tbl) (n : nat) : res (list T * list ev) :=
    oi <- into_iter_new t ;;
    '(es, _, evs1) <- own_run n oi ;;
    Ok (es, evs1).

  (* let mut d = table.drain(); n x d.next(); drop(d)
     -> (the collection's table afterwards, yielded elements, events, false iff a destructor
         panicked) *)
  Definition drain_consume (t : tbl) (n : nat) : res (tbl * list T * list ev * bool) :=
    '(oi, _) <- drain_new t ;;
    '(es, oi1, evs1) <- own_run n oi ;;
    '(t', evs2, ok) <- drain_drop oi1 ;;
    Ok (t', es, evs1 ++ evs2, ok).

  (* let mut d = table.drain(); n x d.next(); mem::forget(d): the collection keeps what
     drain_iter_from left in it *)
  Definition drain_leak (t : tbl) (n : nat) : res (tbl * list T * list ev) :=
    '(oi, rest_tbl) <- drain_new t ;;
    '(es, _, evs1) <- own_run n oi ;;
    Ok (rest_tbl, es, evs1).

  (* ---------------------------------------------------------------------------------------- *)
  (* A consumer that panics.  `for_each`, `fold`, `collect`, ... on IntoIter / Drain /          *)
  (* IntoKeys / IntoValues go through Iterator::fold, whose implementations take `self` BY      *)
  (* VALUE and call next() in a loop:                                                           *)
  (*     fn fold<B, F>(mut self, init: B, mut f: F) -> B {                                      *)
  (*         let mut accum = init;                                                              *)
  (*         while let Some(x) = self.next() { accum = f(accum, x); }                           *)
  (*         accum                                                                              *)
  (*     }                                                                                      *)
  (* (map.rs: `self.inner.map(..).fold(init, f)` / `self.inner.fold(init, f)`).  After n calls  *)
  (* of next() by the caller, a closure that panics in its k-th call (k = 0 for the first) has  *)
  (* been handed the elements of k + 1 further calls of next(): the element of the panicking   *)
  (* call has been MOVED OUT to the closure (it is the closure's to drop).  Unwinding then      *)
  (* drops `self`, i.e. runs the iterator's Drop.  If the iterator is exhausted before the      *)
  (* k-th call the fold returns normally and drops `self` all the same.  Hence:                 *)
  (* ---------------------------------------------------------------------------------------- *)
  Definition into_iter_fold_panic (t : tbl) (n k : nat) : res (list T * list ev * bool) :=
    into_iter_consume t (n + k + 1).

  Definition drain_fold_panic (t : tbl) (n k : nat) : res (tbl * list T * list ev * bool) :=
    drain_consume t (n + k + 1).
End OwnIter.

Arguments mkOwn {T}.
Arguments oi_tbl {T}.
Arguments oi_it {T}.
