(* RsPrelude.v -- the fixed-width integer vocabulary that the generated file Gen.v is
   written in.  Every Rust integer is a Z; every operation that can leave the type's range
   is wrapped explicitly (release-mode semantics; the theorems then show that on the inputs
   the table code produces no wrap ever happens, so debug and release builds agree). *)
From Coq Require Import ZArith List Bool Lia.
Import ListNotations.
Open Scope Z_scope.

Definition wrap (w x : Z) : Z := x mod 2 ^ w.
Definition W : Z := 64.                       (* usize / u64 width of the modelled target *)
Definition usize_max : Z := 2 ^ 64 - 1.
Definition isize_max : Z := 2 ^ 63 - 1.

Definition wadd (w a b : Z) : Z := wrap w (a + b).
Definition wsub (w a b : Z) : Z := wrap w (a - b).
Definition wmul (w a b : Z) : Z := wrap w (a * b).
Definition wshl (w a b : Z) : Z := wrap w (Z.shiftl a b).
Definition wnot (w a : Z) : Z := 2 ^ w - 1 - a.

Definition checked_add (w a b : Z) : option Z := if a + b <? 2 ^ w then Some (a + b) else None.
Definition checked_mul (w a b : Z) : option Z := if a * b <? 2 ^ w then Some (a * b) else None.
Definition saturating_sub (a b : Z) : Z := if a <? b then 0 else a - b.
Definition saturating_add (w a b : Z) : Z := if a + b <? 2 ^ w then a + b else 2 ^ w - 1.

(* usize::next_power_of_two: smallest power of two >= x (1 for 0); wraps to 0 on overflow
   in release builds. *)
Definition next_power_of_two (w x : Z) : Z :=
  wrap w (if x <=? 1 then 1 else 2 ^ Z.log2_up x).
Definition is_power_of_two (x : Z) : bool := (0 <? x) && (x =? 2 ^ Z.log2 x).

Fixpoint ctz_pos (p : positive) : Z :=
  match p with xO q => 1 + ctz_pos q | _ => 0 end.
Definition trailing_zeros (w x : Z) : Z :=
  match x with Zpos p => ctz_pos p | _ => w end.
Definition leading_zeros (w x : Z) : Z :=
  match x with Zpos _ => w - (Z.log2 x + 1) | _ => w end.

Definition bool_to_Z (b : bool) : Z := if b then 1 else 0.

(* [b; n] as a little-endian word: the byte b repeated n times. *)
Fixpoint repeat_byte_nat (n : nat) (b : Z) : Z :=
  match n with O => 0 | S k => b + 256 * repeat_byte_nat k b end.
Definition repeat_byte (n b : Z) : Z := repeat_byte_nat (Z.to_nat n) b.

(* signed reinterpretation used by `x as i8` *)
Definition to_signed (w x : Z) : Z := if x <? 2 ^ (w - 1) then x else x - 2 ^ w.

Definition obind {A B} (o : option A) (f : A -> option B) : option B :=
  match o with Some a => f a | None => None end.
Definition unwrap_or {A} (o : option A) (d : A) : A := match o with Some a => a | None => d end.
