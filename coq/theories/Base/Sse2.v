(* Sse2.v -- byte-wise semantics of the SSE2 intrinsics used by control/group/sse2.rs, written
   from Intel's documented behaviour (trusted base: these definitions ARE the intrinsics as far
   as the proofs are concerned).  A __m128i is a list of 16 bytes, lowest address first. *)
From Coq Require Import ZArith List Bool.
From HB Require Import RsPrelude.
Import ListNotations.
Open Scope Z_scope.

Fixpoint map2 {A B C} (f : A -> B -> C) (a : list A) (b : list B) : list C :=
  match a, b with x :: a', y :: b' => f x y :: map2 f a' b' | _, _ => [] end.

Definition mm_setzero_si128 : list Z := repeat 0 16.
Definition mm_set1_epi8 (x : Z) : list Z := repeat (x mod 256) 16.          (* x : i8 *)
Definition mm_cmpeq_epi8 (a b : list Z) : list Z :=
  map2 (fun x y => if Z.eqb x y then 255 else 0) a b.
Definition mm_cmpgt_epi8 (a b : list Z) : list Z :=                           (* signed > *)
  map2 (fun x y => if Z.gtb (to_signed 8 x) (to_signed 8 y) then 255 else 0) a b.
Definition mm_or_si128 (a b : list Z) : list Z := map2 Z.lor a b.
Fixpoint movemask_from (v : list Z) (bit : Z) : Z :=
  match v with
  | [] => 0
  | x :: r => (if Z.leb 128 x then bit else 0) + movemask_from r (2 * bit)
  end.
Definition mm_movemask_epi8 (v : list Z) : Z := movemask_from v 1.           (* i32, upper bits 0 *)
