(* C04q -- a panic in the iterator handed to HashMap::extend, and in the Into conversion of the
   entry_ref API (companion of C04.v / C04p.v / C04u.v).  Only property theorems (proofs:
   Proofs/PanicFacts2.v; model: Model/PanicOps2.v, tied at level C through the harness operations
   `extendp`, the `intopanic` arm, and `predpanic_nth` on the entry-closure operations).

   For both scanners, every element layout, every total hash function, every allocator answer
   and EVERY well-formed map (Inv: WF + owns its block + represents the reference map s):

   * extend(iter), the iterator panicking after having handed over ANY number p of pairs of ANY
     list: the map is well-formed afterwards (so len() = what it yields = what it finds) and
     represents exactly  s  plus the first p pairs inserted in order -- no element of the
     pre-state is lost (each old key keeps its stored key object), nothing is there twice;
   * entry_ref(&q).or_insert(..) / insert(..) with a conversion K::from(&q) that panics: the
     call unwinds exactly when q is absent, and the table is then IDENTICAL to the pre-state
     (same control bytes, same slots: nothing was written, nothing dropped, nothing allocated);
     on a present key no conversion happens and the occupied branch runs on the stored entry. *)
From Coq Require Import ZArith List Bool.
From HB Require Import RsPrelude Sse2 Gen Group Raw Map Check AssocSpec WFDefs MapDefs MapRefineBase MapStepRefine PanicOps2 PanicFacts2.
Import ListNotations.
Open Scope Z_scope.

Theorem C04q_extend_iterator_panic :
  forall B, WidthOK B -> BackendSpec B -> forall tsize talign, LayoutOK tsize talign ->
  forall needs_drop hash_of, TotalHash hash_of -> forall alloc_refuses (t : table kv) (s : spec) kvs p t' o evs,
  Inv B tsize talign hash_of t s -> Z.of_nat (length kvs) < 2 ^ 62 ->
  m_extend_p B tsize talign needs_drop true hash_of alloc_refuses t kvs p = Ok (t', o, evs) ->
  Inv B tsize talign hash_of t'
      (fold_left (fun acc (e : kv) => insert_like acc (k_id e) (k_stamp e) (v_val e)) (firstn p kvs) s) /\
  o = (if Nat.ltb p (length kvs) then OutUnwind else OutUnit).
Proof. exact extend_p_refines. Qed.

Theorem C04q_extend_iterator_panic_loses_nothing :
  forall B, WidthOK B -> BackendSpec B -> forall tsize talign, LayoutOK tsize talign ->
  forall needs_drop hash_of, TotalHash hash_of -> forall alloc_refuses (t : table kv) (s : spec) kvs p t' o evs,
  Inv B tsize talign hash_of t s -> Z.of_nat (length kvs) < 2 ^ 62 ->
  m_extend_p B tsize talign needs_drop true hash_of alloc_refuses t kvs p = Ok (t', o, evs) ->
  exists s', Inv B tsize talign hash_of t' s' /\
             forall k e, lookup s k = Some e -> exists e', lookup s' k = Some e' /\ k_stamp e' = k_stamp e.
Proof. exact extend_p_keeps_old. Qed.

Theorem C04q_entry_ref_into_panic_leaves_table_untouched :
  forall B, WidthOK B -> BackendSpec B -> forall tsize talign hash_of, TotalHash hash_of ->
  forall (t : table kv) (s : spec) k occ t' o evs,
  Inv B tsize talign hash_of t s -> lookup s k = None ->
  m_entry_ref_into_p B hash_of t k occ = Ok (t', o, evs) ->
  t' = t /\ o = OutUnwind /\ evs = [].
Proof. exact entry_ref_into_p_unchanged. Qed.

Theorem C04q_entry_ref_into_panic_occupied_never_converts :
  forall B, WidthOK B -> BackendSpec B -> forall tsize talign hash_of, TotalHash hash_of ->
  forall (t : table kv) (s : spec) k e occ,
  Inv B tsize talign hash_of t s -> lookup s k = Some e ->
  exists hv i, (i < nb kv t)%nat /\ slot kv t i = Some e /\ m_entry_ref_into_p B hash_of t k occ = occ hv i e.
Proof. exact entry_ref_into_p_occupied. Qed.

(* the closure handed to replace_entry_with / and_replace_entry_with (HashMap entries and the
   raw_entry_mut twins, all through RawTable::replace_bucket_with) panics: on a present key the map
   is well-formed and represents s WITHOUT that key, and the removed element is released exactly
   once (one destructor event when the type has drop glue, none otherwise); on an absent key the
   closure never runs and nothing happens *)
Theorem C04q_replace_entry_with_closure_panic :
  forall B, WidthOK B -> BackendSpec B -> forall tsize talign needs_drop hash_of, TotalHash hash_of ->
  forall (t : table kv) (s : spec) k t' o evs,
  Inv B tsize talign hash_of t s -> m_entry_replace_p B needs_drop hash_of t k = Ok (t', o, evs) ->
  match lookup s k with
  | Some e => o = OutUnwind /\ Inv B tsize talign hash_of t' (delete s k) /\ evs = (if needs_drop then [EvDrop e] else [])
  | None => o = OutNone /\ t' = t /\ evs = []
  end.
Proof. exact entry_replace_p_refines. Qed.

(* and_modify(f).or_insert(v), f panicking before it writes: a present key leaves the table
   IDENTICAL to the pre-state; on an absent key f never runs and v is inserted as by entry().or_insert *)
Theorem C04q_and_modify_closure_panic :
  forall B, WidthOK B -> BackendSpec B -> forall tsize talign, LayoutOK tsize talign ->
  forall needs_drop hash_of, TotalHash hash_of -> forall alloc_refuses (t : table kv) (s : spec) k stamp v t' o evs,
  Inv B tsize talign hash_of t s ->
  m_entry_and_modify_p B tsize talign needs_drop true hash_of alloc_refuses t k stamp v = Ok (t', o, evs) ->
  match lookup s k with
  | Some _ => o = OutUnwind /\ t' = t /\ evs = []
  | None => o = OutVal v /\ Inv B tsize talign hash_of t' (put s (mkKV k stamp v))
  end.
Proof. exact entry_and_modify_p_refines. Qed.

(* non-vacuity: all-colliding hash, 3 stored pairs, the iterator panics after 2 of 4 pairs *)
Example C04q_example :
  match run sse2_backend 24 8 true (fun _ : Z => Some 0) false (new_table sse2_backend kv)
            [OpInsert 1 0 10; OpInsert 2 0 20; OpInsert 3 0 30] with
  | Ok (_, t) =>
      match m_extend_p sse2_backend 24 8 true true (fun _ : Z => Some 0) false t
                       [mkKV 2 9 21; mkKV 7 9 70; mkKV 8 9 80; mkKV 1 9 11] 2 with
      | Ok (t', o, _) => o = OutUnwind /\ items t' = 4 /\
                         map (fun e => (k_id e, k_stamp e, v_val e)) (occupants kv t') = [(1, 0, 10); (2, 0, 21); (3, 0, 30); (7, 9, 70)]
      | Fail _ => False
      end
  | Fail _ => False
  end.
Proof. vm_compute. repeat split. Qed.

Print Assumptions C04q_extend_iterator_panic.
Print Assumptions C04q_extend_iterator_panic_loses_nothing.
Print Assumptions C04q_entry_ref_into_panic_leaves_table_untouched.
Print Assumptions C04q_entry_ref_into_panic_occupied_never_converts.
Print Assumptions C04q_replace_entry_with_closure_panic.
Print Assumptions C04q_and_modify_closure_panic.
