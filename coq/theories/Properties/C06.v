(* C06 -- HashTable (explicit-hash API) equals a multiset keyed by caller-supplied hashes.
   Only property theorems (proofs: Proofs/TableStepSafe.v, TableStepRefine.v, TableRun.v,
   IterHashFacts.v).  Elements are kv records; `hash_of (k_id e)` is the hash the caller supplies
   for e -- an ARBITRARY total assignment (collisions in position bits, tag bits or both;
   duplicates of identical elements are allowed: the reference is a multiset, Spec/MultisetSpec.v).
   Closures are `tpred`s (by id, by value class, always-true, ...).  The reference is an
   acceptor: it leaves the implementation exactly the freedom the API leaves (WHICH of several
   matching elements a lookup returns, iteration order, which elements a partial drain takes). *)
From Coq Require Import ZArith List Bool Permutation.
From HB Require Import RsPrelude Sse2 Gen Group Raw Map Check Table AssocSpec MultisetSpec WFDefs MapDefs
  RawOpsSafe TableStepSafe TableStepRefine TableRun.
Import ListNotations.

(* one step, from ANY valid state: the output and the contents afterwards are accepted by the
   multiset reference, the operation did not unwind, the full invariant is kept.
   top_pre is True except: OccupiedEntry::remove + re-insertion through the VacantEntry requires a
   closure that only accepts elements of the queried hash (re-inserting an element under a foreign
   hash is a caller error -- see remove_reinsert_unlawful_generic for what happens otherwise);
   get_many_mut requires stored values to be u64 (always true of the real element type). *)
Theorem C06_step_refines :
  forall B tsize talign needs_drop hash_of alloc_refuses (t : table kv) (s : mset) (op : tbl_op) t' o evs,
  WidthOK B -> BackendSpec B -> LayoutOK tsize talign -> TotalHash hash_of -> top_args_ok op ->
  top_pre hash_of s op ->
  WF B kv (fun e => hash_of (k_id e)) t -> TOwn B kv tsize talign t -> Permutation (occupants kv t) s ->
  table_step B tsize talign needs_drop true hash_of alloc_refuses t op = Ok (t', o, evs) ->
  o <> TOutUnwind /\ tspec_accepts hash_of s op o (occupants kv t') = true /\
  WF B kv (fun e => hash_of (k_id e)) t' /\ TOwn B kv tsize talign t'.
Proof. exact table_step_refines. Qed.

(* every history from the empty table (induction over the operation list, no bound) *)
Theorem C06_history_refines :
  forall B tsize talign needs_drop hash_of alloc_refuses (ops : list tbl_op) tr t',
  WidthOK B -> BackendSpec B -> LayoutOK tsize talign -> TotalHash hash_of -> Forall top_args_ok ops ->
  trun_trace B tsize talign needs_drop hash_of alloc_refuses (new_table B kv) ops = Ok (tr, t') ->
  tpre_run hash_of [] ops tr ->
  Forall (fun x => fst x <> TOutUnwind) tr /\ tspec_run hash_of [] ops tr = true /\
  WF B kv (fun e => hash_of (k_id e)) t' /\ TOwn B kv tsize talign t'.
Proof.
  exact (fun B ts ta nd h ar ops tr t' HW HB HL HT HA E HP =>
           trun_refines_from B HW HB ts ta HL nd h HT ar ops (new_table B kv) tr t'
             (WF_new_table B h) (TOwn_new_table B kv ts ta) HA E HP).
Qed.

(* what the reference demands of a lookup: a miss is only allowed when NO stored element with the
   queried hash satisfies the closure; a hit returns a stored element satisfying the closure *)
Theorem C06_find_semantics : forall hash_of (s : mset) hk p o post,
  tspec_accepts hash_of s (TFind hk p) o post = true ->
  match o with
  | TOutNone => forall e, In e s -> same_hash hash_of (k_id e) hk = true -> tpred_holds p e = false
  | TOutElem e => tpred_holds p e = true /\ remove_one e s <> None
  | _ => False
  end.
Proof.
  intros h s hk p o post H. destruct o; cbn [tspec_accepts] in H; try discriminate;
    apply andb_prop in H; destruct H as [H _].
  - apply negb_true_iff in H. unfold must_find in H.
    intros e Hin Hh. destruct (tpred_holds p e) eqn:Hp; [|reflexivity].
    assert (X : existsb (fun e0 => same_hash h (k_id e0) hk && tpred_holds p e0) s = true).
    { apply existsb_exists. exists e. split; [exact Hin|]. rewrite Hh, Hp. reflexivity. }
    rewrite X in H. discriminate H.
  - apply andb_prop in H. destruct H as [H1 H2].
    split; [exact H1|]. destruct (remove_one _ s); [discriminate|discriminate H2].
Qed.

(* iter_hash(h): yields stored elements (as a sub-multiset: none twice) and leaves no stored
   element of that hash un-yielded *)
Theorem C06_iter_hash_semantics : forall hash_of (s : mset) hk l post,
  tspec_accepts hash_of s (TIterHash hk) (TOutList l) post = true ->
  exists rest, msub s l = Some rest /\ forall e, In e rest -> same_hash hash_of (k_id e) hk = false.
Proof.
  intros h s hk l post H. cbn [tspec_accepts] in H. apply andb_prop in H. destruct H as [H _].
  destruct (msub s l) as [rest|]; [|discriminate]. exists rest. split; [reflexivity|].
  apply negb_true_iff in H. intros e Hin. destruct (same_hash h (k_id e) hk) eqn:E; [|reflexivity].
  assert (X : existsb (fun e0 => same_hash h (k_id e0) hk) rest = true) by (apply existsb_exists; exists e; tauto).
  rewrite X in H. discriminate H.
Qed.

(* len() counts duplicates *)
Theorem C06_len_semantics : forall hash_of (s : mset) n post,
  tspec_accepts hash_of s TLen (TOutNum n) post = true -> n = Z.of_nat (length s).
Proof.
  intros h s n post H. cbn [tspec_accepts] in H. apply andb_prop in H. destruct H as [H _].
  apply Z.eqb_eq in H. exact H.
Qed.

(* memory discipline for ANY closures and hashes, lawful or not (incl. the unlawful
   remove-and-reinsert above): the shape/counter invariant and block ownership survive *)
Theorem C06_step_safe :
  forall B tsize talign needs_drop hash_of alloc_refuses (t : table kv) (op : tbl_op),
  WidthOK B -> BackendSpec B -> LayoutOK tsize talign -> top_args_ok op ->
  SafeWF B kv t -> TOwn B kv tsize talign t ->
  match table_step B tsize talign needs_drop true hash_of alloc_refuses t op with
  | Ok (t', o, evs) => SafeWF B kv t' /\ TOwn B kv tsize talign t'
  | Fail e => benign e end.
Proof. exact table_step_safe. Qed.

Print Assumptions C06_step_refines.
Print Assumptions C06_history_refines.
Print Assumptions C06_find_semantics.
Print Assumptions C06_iter_hash_semantics.
Print Assumptions C06_len_semantics.
Print Assumptions C06_step_safe.
