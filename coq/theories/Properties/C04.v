(* C04 -- A panic in any user callback leaves a valid collection and no double drop.
   Only property theorems.  In the model a callback that panics is a hasher returning None
   (`hash_of k = None`: hashing key k panics; since `hash_of` is an arbitrary function and may
   change at every step, this covers "the k-th Hash invocation panics" for every k and every
   operation) and a destructor with `drop_ok e = false`.  Every scope guard of raw/mod.rs is
   in the model as written (clear, prepare_resize, rehash_in_place -- with the repaired guard,
   `guard flag = true`, which the translator reads from the source --, RawDrain's drop).
   PARTIAL (see MANIFEST): panics of Eq, Clone, predicates / closures and extend iterators have
   no counterpart in the model; those classes are decided by the fault-injection runs only. *)
From Coq Require Import ZArith List Bool Permutation.
From HB Require Import RsPrelude Sse2 Gen Group Raw Map Check WFDefs MapDefs RawOpsSafe SafeAllocClear ResizeFacts RehashSafe MapStepSafe IterFacts.
Import ListNotations.
Open Scope Z_scope.

(* whatever panics, the collection is valid afterwards: len() = number of stored elements =
   number of elements iteration yields; no checked unsafe precondition is reached *)
Theorem C04_valid_after_any_panic :
  forall (B : backend) (tsize talign : Z) (needs_drop : bool) (hash_of : Z -> option Z) (alloc_refuses : bool)
         (t : table kv) (op : map_op),
  WidthOK B -> BackendSpec B -> LayoutOK tsize talign -> op_args_ok op ->
  SafeWF B kv t -> TOwn B kv tsize talign t ->
  match map_step B tsize talign needs_drop true hash_of alloc_refuses t op with
  | Ok (t', o, evs) => SafeWF B kv t' /\ TOwn B kv tsize talign t'
  | Fail e => benign e
  end.
Proof. exact map_step_safe. Qed.

Section C04.
  Variable B : backend.
  Variable T : Type.
  Hypothesis HW : WidthOK B.
  Hypothesis HB : BackendSpec B.
  Variable tsize talign : Z.
  Hypothesis Hts : 0 <= tsize < 2 ^ 64.
  Hypothesis Hta : exists a, 0 <= a <= 62 /\ talign = 2 ^ a.
  Variable needs_drop : bool.
  Variable drop_ok : T -> bool.
  Variable hasher : T -> option Z.

  (* a hasher panic while the table is being grown into a new allocation leaves the contents
     unchanged (the table is EQUAL to the pre-state) and the new block is freed *)
  Theorem C04_resize_panic_unchanged : forall t cap alloc_refuses f,
    SafeWF B T t -> (mask t = 0%nat \/ Allocated B T tsize talign t) -> items t <= cap < 2 ^ 64 ->
    forall t' evs tr,
    resize_inner B T tsize talign hasher t cap alloc_refuses f = Ok (t', evs, tr, true) ->
    tr = TR_ok /\ t' = t /\ (exists e, In e (occupants T t) /\ hasher e = None) /\
    cap <> 0 /\ alloc_refuses = false /\
    exists len al, evs = [EvAlloc len al; EvFree len al] /\ ValidLayout len al.
  Proof. exact (resize_inner_unwind B T HW HB tsize talign Hts Hta hasher). Qed.

  (* a hasher panic during an in-place rehash (for element types with AND without drop glue):
     the table is valid afterwards, every element of the pre-state is still present or was
     dropped exactly once (`dropped`), and len() was adjusted accordingly *)
  Theorem C04_rehash_panic : forall t, SafeWF B T t -> mask t <> 0%nat ->
    exists t' evs unw, rehash_in_place B T needs_drop hasher true t = Ok (t', evs, unw) /\
      SafeWF B T t' /\ mask t' = mask t /\
      (unw = false -> evs = [] /\ Permutation (occupants T t') (occupants T t) /\ items t' = items t /\
                      growth_left t' = z_cap (mask t) - items t /\
                      (forall j, (j < nb T t)%nat -> byte T t' j <> DELETED)) /\
      (unw = true -> exists dropped, Permutation (occupants T t) (occupants T t' ++ dropped) /\
                      evs = (if needs_drop then map EvDrop dropped else []) /\
                      items t' = items t - Z.of_nat (length dropped)) /\
      (unw = true -> exists e, In e (occupants T t) /\ hasher e = None).
  Proof. exact (rehash_in_place_safe B T HW HB needs_drop hasher). Qed.

  (* reserve / the reserve inside insert and entry, when the hasher panics: valid table, contents
     a sub-multiset of the pre-state, the missing ones dropped exactly once *)
  Theorem C04_reserve_panic : forall t additional alloc_refuses f t' evs tr,
    SafeWF B T t -> TOwn B T tsize talign t ->
    reserve_post B T tsize talign needs_drop hasher t additional alloc_refuses f (Ok (t', evs, tr, true)) ->
    SafeWF B T t' /\ TOwn B T tsize talign t' /\ tr = TR_ok /\
    ReserveUnwind T needs_drop hasher t t' evs /\
    (exists dropped, Permutation (occupants T t) (occupants T t' ++ dropped)).
  Proof.
    intros t additional alloc_refuses f t' evs tr H1 H2 H3.
    destruct (reserve_post_ok B T tsize talign needs_drop hasher t additional alloc_refuses f t' evs tr true H1 H2 H3)
      as (S & O & _ & _ & U). destruct (U eq_refl) as (E & R & D & _). tauto.
  Qed.

  (* a destructor panic inside clear: the guard still empties the table; the elements dropped
     so far are a prefix of the contents (none twice), the rest is leaked *)
  Theorem C04_clear_drop_panic : forall t, SafeWF B T t ->
    exists t' evs ok, clear B T needs_drop drop_ok t = Ok (t', evs, ok) /\
      SafeWF B T t' /\ occupants T t' = [] /\ items t' = 0 /\
      drops_prefix T evs (occupants T t) /\
      (ok = false -> exists l e, evs = map EvDrop (l ++ [e]) /\ drop_ok e = false).
  Proof.
    intros t H.
    destruct (clear_safe B T HW HB tsize talign needs_drop drop_ok t H)
      as (t' & evs & ok & E & S & _ & O & I & D & _ & _ & P & _).
    exists t', evs, ok. tauto.
  Qed.
End C04.

Print Assumptions C04_valid_after_any_panic.
Print Assumptions C04_resize_panic_unchanged.
Print Assumptions C04_rehash_panic.
Print Assumptions C04_reserve_panic.
Print Assumptions C04_clear_drop_panic.
