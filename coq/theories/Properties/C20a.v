(* C20a -- the Deserialize visitors on the TABLE model (companion of C20.v, which works at the
   level of the reference map).  Only property theorems (proof: Proofs/SerdeTableFacts.v).

   `deser_map hint items err_at` (Model/Serde.v, tied to visit_map / visit_seq at level C) is
   with_capacity(cautious(hint)) -- the GENERATED expression -- followed by `insert` of every pair
   in input order with real probing / growth, and, when the input reports an error after `p`
   elements, the drop of the partially built map.  For every scanner, element layout, total hash
   function, claimed size hint and every input (repeated keys included) and every error position:

   * success: the result is a well-formed table (WF: every element is found by lookup) owning its
     block and holding exactly the last value of each key under the first key object;
   * error: the partial map was a valid table holding exactly what had been built from the first p
     pairs, each key once, and dropping it releases each of those elements exactly once (when the
     element type has drop glue) and then its block exactly once with the layout it was requested
     with; nothing else is released: "without leaking or double-dropping already-built elements". *)
From Coq Require Import ZArith List Bool.
From HB Require Import RsPrelude Sse2 Gen Group Raw Map Check AssocSpec WFDefs SafeAllocClear RawOpsSafe MapDefs
  MapRefineBase Serde SerdeFacts SerdeTableFacts.
Import ListNotations.
Open Scope Z_scope.

Theorem C20a_deserialize_on_tables :
  forall B, WidthOK B -> BackendSpec B -> forall tsize talign, LayoutOK tsize talign ->
  forall needs_drop hash_of, TotalHash hash_of -> forall hint items err_at r evs,
  (forall h, hint = Some h -> 0 <= h) ->
  deser_map B tsize talign needs_drop true hash_of hint items err_at = Ok (r, evs) ->
  let fails := match err_at with Some p => Nat.leb p (length items) | None => false end in
  let consumed := match err_at with Some p => firstn p items | None => items end in
  (fails = false ->
     exists t1, r = Some t1 /\ Inv B tsize talign hash_of t1 (build consumed) /\
                forall k, lookup (build consumed) k =
                          match last_val consumed k with
                          | Some v => Some (mkKV k (match first_stamp consumed k with Some s => s | None => 0 end) v)
                          | None => None
                          end) /\
  (fails = true ->
     r = None /\
     exists t1 evs2, Inv B tsize talign hash_of t1 (build consumed) /\
       map_step B tsize talign needs_drop true hash_of false t1 OpDropMap = Ok (new_table B kv, OutUnit, evs2) /\
       (mask t1 = 0%nat -> evs2 = []) /\
       (mask t1 <> 0%nat -> exists len al off,
          layout_for B tsize talign (nb kv t1) = Some (len, al, off) /\ ValidLayout len al /\
          evs2 = (if needs_drop then map EvDrop (occupants kv t1) else []) ++ [EvFree len al])).
Proof. exact deser_map_refines. Qed.

(* non-vacuity: three pairs with a repeated key, error after the second pair, all-colliding hash *)
Example C20a_example_error :
  match deser_map sse2_backend 24 8 true true (fun _ : Z => Some 0) (Some 1000000)
                  [mkKV 1 10 100; mkKV 2 20 200; mkKV 1 11 101] (Some 2%nat) with
  | Ok (None, evs) => length evs = 2%nat      (* one request, one release *)
  | _ => False
  end.
Proof. vm_compute. reflexivity. Qed.

Print Assumptions C20a_deserialize_on_tables.
