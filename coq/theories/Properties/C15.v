(* C15 -- Multi-key mutable borrows never alias.
   Only property theorems (proofs: Proofs/TableStepSafe.v).  get_many_mut /
   get_many_key_value_mut of HashMap and get_many_mut of HashTable all go through
   RawTable::get_many_mut = get_many_mut_pointers (one `find` per request) + the pairwise
   duplicate check; the model (Model/Table.v: many_find, has_dup) follows that code.  A request is
   (hash source, closure); closures are ARBITRARY tpreds, incl. unlawful ones matching several
   entries; N is any list length; the state is ANY SafeWF table; the hasher is arbitrary.
   "Reference to bucket i" is the bucket index i: two references alias iff the indices are equal.
   The write `bump add` models a write through each returned reference. *)
From Coq Require Import ZArith List Bool.
From HB Require Import RsPrelude Sse2 Gen Group Raw Map Check Table MultisetSpec WFDefs MapDefs RawOpsSafe TableStepSafe.
Import ListNotations.

(* when the call returns: N results in request order; request k resolved (by find with its hash
   and closure) to bucket l[k]; the buckets handed out are pairwise DISTINCT (NoDup); result k is
   None exactly when request k found nothing, otherwise it is the stored element of bucket l[k],
   which satisfies the closure; the write landed in exactly that bucket and every other bucket,
   the control bytes and the counters are unchanged *)
Theorem C15_results_distinct :
  forall B tsize talign needs_drop hash_of alloc_refuses (t : table kv) reqs add t' os evs,
  WidthOK B -> BackendSpec B -> LayoutOK tsize talign ->
  SafeWF B kv t -> TOwn B kv tsize talign t ->
  table_step B tsize talign needs_drop true hash_of alloc_refuses t (TGetManyMut reqs add) = Ok (t', TOutOpts os, evs) ->
  exists l : list (option nat),
    many_find B hash_of t reqs = Ok (Some l) /\ has_dup l = false /\
    Forall2 (Resolved B hash_of t) reqs l /\ NoDup (somes l) /\
    Forall3 (Handed t t' add) reqs l os /\ length os = length reqs /\
    (forall j, ~ In j (somes l) -> slot kv t' j = slot kv t j) /\
    ctrl t' = ctrl t /\ mask t' = mask t /\ items t' = items t /\ growth_left t' = growth_left t /\ evs = [].
Proof.
  exact (fun B ts ta nd h ar t reqs add t' os evs HW HB HL =>
           get_many_mut_distinct B HW HB ts ta HL nd h ar t reqs add t' os evs).
Qed.

(* the call panics EXACTLY when two requests resolve to the same bucket, and then nothing changed *)
Theorem C15_panics_iff_alias :
  forall B tsize talign needs_drop hash_of alloc_refuses (t : table kv) reqs add t' o evs,
  WidthOK B -> BackendSpec B -> LayoutOK tsize talign ->
  SafeWF B kv t -> TOwn B kv tsize talign t ->
  table_step B tsize talign needs_drop true hash_of alloc_refuses t (TGetManyMut reqs add) = Ok (t', o, evs) ->
  (o = TOutLibPanic <->
     exists l, many_find B hash_of t reqs = Ok (Some l) /\
       exists a b i, a < b /\ nth_error l a = Some (Some i) /\ nth_error l b = Some (Some i)) /\
  (o = TOutLibPanic -> t' = t /\ evs = []).
Proof.
  exact (fun B ts ta nd h ar t reqs add t' o evs HW HB HL =>
           get_many_mut_panic_iff B HW HB ts ta HL nd h ar t reqs add t' o evs).
Qed.

(* the duplicate check itself: whatever get_many_mut_pointers found, passing the check means
   pairwise distinct buckets *)
Theorem C15_check_sound : forall B hash_of (t : table kv) reqs l,
  many_find B hash_of t reqs = Ok (Some l) -> has_dup l = false -> NoDup (somes l).
Proof. exact many_find_distinct. Qed.

Print Assumptions C15_results_distinct.
Print Assumptions C15_panics_iff_alias.
Print Assumptions C15_check_sound.
