(* C01 -- HashMap equals a sequential key-value map for every history and hasher.
   Only property theorems.  `map_step` = the model of every HashMap operation (Model/Map.v),
   `spec_accepts` = the reference association list as an acceptor (Spec/AssocSpec.v): insert on
   a present key replaces the value, returns the old value and KEEPS the originally stored key
   object (`insert_like` keeps the stamp); lookups go by key id (any equivalent borrowed form).
   Quantified over: both scanners (any BackendSpec back-end), every element layout, EVERY total
   deterministic hash function (`TotalHash`: no assumption on quality: constant functions, any
   collision pattern in position and tag bits), every allocator answer, every finite history;
   all capacity histories (growth, shrinking, tombstones, in-place rehash, tables smaller than /
   equal to / larger than a group) are covered because the invariant WF is. *)
From Coq Require Import ZArith List Bool Permutation.
From HB Require Import RsPrelude Sse2 Gen Group Raw Map Check AssocSpec WFDefs MapDefs RawOpsSafe MapRefineBase MapStepRefine.
Import ListNotations.

(* one step from any valid state: the output is what the reference allows, and afterwards the
   table is valid (every stored element is found by lookup: Tags + Reach) and holds exactly the
   reference's pairs, each key once *)
Theorem C01_step_refines :
  forall B tsize talign needs_drop hash_of alloc_refuses (t : table kv) (s : spec) (op : map_op) t' o evs,
  WidthOK B -> BackendSpec B -> LayoutOK tsize talign -> TotalHash hash_of -> op_args_ok op ->
  not_set_insert op ->
  WF B kv (fun e => hash_of (k_id e)) t -> TOwn B kv tsize talign t -> AbsRel t s ->
  map_step B tsize talign needs_drop true hash_of alloc_refuses t op = Ok (t', o, evs) ->
  is_unwind o = false /\
  exists s', spec_accepts s op o = Some s' /\
             WF B kv (fun e => hash_of (k_id e)) t' /\ TOwn B kv tsize talign t' /\ AbsRel t' s'.
Proof. exact map_step_refines_covered. Qed.

(* every finite history from HashMap::new(): every output accepted by the reference run from
   the empty association list *)
Theorem C01_history_refines :
  forall B, WidthOK B -> BackendSpec B -> forall tsize talign, LayoutOK tsize talign ->
  forall needs_drop hash_of, TotalHash hash_of -> forall alloc_refuses ops os t',
  Forall op_args_ok ops -> Forall not_set_insert ops ->
  run B tsize talign needs_drop hash_of alloc_refuses (new_table B kv) ops = Ok (os, t') ->
  Forall (fun o => is_unwind o = false) os /\
  exists s', spec_run [] ops os = Some s' /\ Inv B tsize talign hash_of t' s'.
Proof. exact run_refines_map. Qed.

(* insert under a present equal key: old value returned, stored key object kept, value replaced *)
Theorem C01_insert_keeps_key : forall (s : spec) k stamp v e,
  lookup s k = Some e ->
  spec_accepts s (OpInsert k stamp v) (OutVal (v_val e)) = Some (put s (mkKV k (k_stamp e) v)).
Proof.
  intros s k stamp v e H. unfold spec_accepts, insert_like, expect. rewrite H. cbn [out_eqb].
  rewrite Z.eqb_refl. reflexivity.
Qed.

Print Assumptions C01_step_refines.
Print Assumptions C01_history_refines.
Print Assumptions C01_insert_keeps_key.
