(* C08 -- Capacity contract: reserved room is real, unused room costs nothing.
   Only property theorems, on the model of RawTable (shared by HashMap, HashSet, HashTable); the
   size computations are the expressions GENERATED from raw/mod.rs.  Quantified over every valid
   table state (any mix of FULL / DELETED / EMPTY), every n, m in [0, 2^64), every element
   layout, every hasher. *)
From Coq Require Import ZArith List Bool Permutation.
From HB Require Import RsPrelude Sse2 Gen Group Raw Check WFDefs RawOpsSafe SafeAllocClear ChurnFacts ShrinkBound.
Import ListNotations.
Open Scope Z_scope.

Section C08.
  Variable B : backend.
  Variable T : Type.
  Hypothesis HW : WidthOK B.
  Hypothesis HB : BackendSpec B.
  Variable tsize talign : Z.
  Hypothesis Hts : 0 <= tsize < 2 ^ 64.
  Hypothesis Hta : exists a, 0 <= a <= 62 /\ talign = 2 ^ a.
  Variable needs_drop : bool.
  Variable drop_ok : T -> bool.
  Variable hasher : T -> option Z.

  (* capacity() >= len() in every valid state *)
  Theorem C08_capacity_ge_len : forall t, SafeWF B T t -> items t <= capacity T t.
  Proof. exact (capacity_ge_len B T). Qed.

  (* with_capacity(n): capacity >= n; n = 0 (and new()/default()) allocates nothing *)
  Theorem C08_with_capacity : forall cap ar f t' evs tr, 0 <= cap < 2 ^ 64 ->
    fallible_with_capacity B T tsize talign cap ar f = Ok (Some t', evs, tr) ->
    tr = TR_ok /\ SafeWF B T t' /\ TOwn B T tsize talign t' /\ items t' = 0 /\ occupants T t' = [] /\
    cap <= capacity T t' /\
    (cap = 0 -> t' = new_table B T /\ evs = []) /\
    (cap <> 0 -> mask t' <> 0%nat /\ exists len al, evs = [EvAlloc len al] /\ ValidLayout len al).
  Proof. exact (with_capacity_contract B T HW tsize talign Hts Hta). Qed.

  (* reserve(n): afterwards capacity >= len + n, same contents *)
  Theorem C08_reserve : forall t additional alloc_refuses t' evs,
    SafeWF B T t -> TOwn B T tsize talign t -> 0 <= additional < 2 ^ 64 ->
    reserve B T tsize talign needs_drop hasher true t additional alloc_refuses = Ok (t', evs, TR_ok, false) ->
    items t' + additional <= capacity T t' /\ items t' = items t /\
    Permutation (occupants T t') (occupants T t).
  Proof. exact (reserve_capacity B T HW HB tsize talign Hts Hta needs_drop hasher). Qed.

  (* inserting up to capacity()-len() elements performs NO allocator call and keeps the table size *)
  Theorem C08_no_alloc_while_room : forall t l t' evs,
    SafeWF B T t -> TOwn B T tsize talign t -> Z.of_nat (length l) <= growth_left t ->
    inserts B T tsize talign needs_drop hasher t l t' evs ->
    evs = [] /\ mask t' = mask t /\ SafeWF B T t' /\ TOwn B T tsize talign t' /\
    items t' = items t + Z.of_nat (length l) /\
    growth_left t - Z.of_nat (length l) <= growth_left t' <= growth_left t.
  Proof. exact (no_alloc_while_room B T HW HB tsize talign needs_drop hasher). Qed.

  (* clear keeps the allocation (same bucket count, still owning its block) and empties the table *)
  Theorem C08_clear_keeps_allocation : forall t, SafeWF B T t ->
    exists t' evs ok, clear B T needs_drop drop_ok t = Ok (t', evs, ok) /\
      SafeWF B T t' /\ mask t' = mask t /\ occupants T t' = [] /\ items t' = 0 /\
      (Allocated B T tsize talign t -> Allocated B T tsize talign t').
  Proof.
    intros t H.
    destruct (clear_safe B T HW HB tsize talign needs_drop drop_ok t H)
      as (t' & evs & ok & E & S & M & O & I & _ & _ & _ & _ & _ & _ & A).
    exists t', evs, ok. tauto.
  Qed.

  (* allocation_size() equals the bytes currently held from the allocator: 0 for the table that never
     allocated (and dropping it hands nothing back); otherwise exactly the size of the one block that
     dropping the table returns to the allocator *)
  Theorem C08_allocation_size_is_the_block_held : forall t, SafeWF B T t -> TOwn B T tsize talign t ->
    exists n evs ok,
      (allocation_size B T tsize talign t = Ok n) /\
      (drop_inner_table B T tsize talign needs_drop drop_ok t = Ok (evs, ok)) /\
      (mask t = 0%nat -> (n = 0) /\ (evs = [])) /\
      (mask t <> 0%nat -> ok = true -> exists dr al, (evs = dr ++ [EvFree n al]) /\
                                        (forall sz a, ~ In (EvFree sz a) dr)).
  Proof.
    intros t HS HO.
    destruct (drop_inner_table_spec B T HW HB tsize talign Hts Hta needs_drop drop_ok t HS HO) as (evs & ok & Ed & H0 & H1).
    unfold allocation_size, is_singleton. destruct (Nat.eqb_spec (mask t) 0) as [Em|Em].
    - exists 0, evs, ok. split; [reflexivity|]. split; [exact Ed|]. split.
      + intros _. split; [reflexivity|exact (proj1 (H0 Em))].
      + intros C. contradiction.
    - destruct (H1 Em) as (len & al & off & dr & El & _ & (l & Hdr & _) & _ & _ & _ & Eevs).
      change (buckets T t) with (nb T t). rewrite El.
      exists len, evs, ok. split; [reflexivity|]. split; [exact Ed|]. split; [intros C; contradiction|].
      intros _ Hok. rewrite Hok in Eevs. exists dr, al. split; [exact Eevs|].
      intros sz a Hin. rewrite Hdr in Hin. apply in_map_iff in Hin. destruct Hin as (x & Hx & _). discriminate Hx.
  Qed.

  (* shrink_to(m) / shrink_to_fit: never loses or changes an element, never enlarges the
     allocation, capacity >= max(len, min(m, previous capacity)), frees everything when the
     collection is empty and m = 0 *)
  Theorem C08_shrink_to : forall t min_size alloc_refuses,
    SafeWF B T t -> TOwn B T tsize talign t -> 0 <= min_size < 2 ^ 64 ->
    shrink_post B T tsize talign hasher t min_size alloc_refuses
      (shrink_to B T tsize talign needs_drop drop_ok hasher t min_size alloc_refuses).
  Proof. exact (shrink_to_spec B T HW HB tsize talign Hts Hta needs_drop drop_ok hasher). Qed.

  (* a fresh with_capacity(cap), cap <> 0, has exactly capacity_to_buckets(cap) buckets *)
  Theorem C08_fresh_table_buckets : forall cap alloc_refuses f t' evs tr nbk,
    0 <= cap < 2 ^ 64 ->
    fallible_with_capacity B T tsize talign cap alloc_refuses f = Ok (Some t', evs, tr) ->
    cap <> 0 ->
    capacity_to_buckets (zn (bk_width B)) cap (lay_size B tsize talign) (ctrl_align B tsize talign) = Some nbk ->
    Z.of_nat (nb T t') = nbk.
  Proof. exact (fresh_table_buckets B T HW tsize talign Hts Hta). Qed.

  (* shrink_to(m), when it shrinks or keeps the table: the allocation is left no larger than a
     fresh with_capacity(max(len, m)) would be -- at most capacity_to_buckets(max(len, m)) buckets,
     the bucket count of that fresh table (C08_fresh_table_buckets).  (max(len, m) = 0 is the
     "frees everything" clause of C08_shrink_to.) *)
  Theorem C08_shrink_to_not_larger_than_fresh : forall t min_size alloc_refuses t' evs,
    SafeWF B T t -> TOwn B T tsize talign t -> 0 <= min_size < 2 ^ 64 ->
    shrink_to B T tsize talign needs_drop drop_ok hasher t min_size alloc_refuses = Ok (t', evs, false) ->
    Z.max (items t) min_size <> 0 ->
    forall nbk,
      capacity_to_buckets (zn (bk_width B)) (Z.max (items t) min_size)
        (lay_size B tsize talign) (ctrl_align B tsize talign) = Some nbk ->
      Z.of_nat (nb T t') <= nbk.
  Proof. exact (shrink_to_fresh_bound B T HW HB tsize talign Hts Hta needs_drop drop_ok hasher). Qed.

  (* the same against the table with_capacity(max(len, m)) actually returns, in buckets and in
     bytes (allocation_size); includes max(len, m) = 0, where both are the unallocated singleton *)
  Theorem C08_shrink_to_vs_fresh_table : forall t min_size alloc_refuses t' evs ar f ft fevs tr,
    SafeWF B T t -> TOwn B T tsize talign t -> 0 <= min_size < 2 ^ 64 ->
    shrink_to B T tsize talign needs_drop drop_ok hasher t min_size alloc_refuses = Ok (t', evs, false) ->
    fallible_with_capacity B T tsize talign (Z.max (items t) min_size) ar f = Ok (Some ft, fevs, tr) ->
    (nb T t' <= nb T ft)%nat /\
    forall sz szf, allocation_size B T tsize talign t' = Ok sz ->
                   allocation_size B T tsize talign ft = Ok szf -> sz <= szf.
  Proof. exact (shrink_to_vs_fresh_table B T HW HB tsize talign Hts Hta needs_drop drop_ok hasher). Qed.
End C08.

Print Assumptions C08_capacity_ge_len.
Print Assumptions C08_allocation_size_is_the_block_held.
Print Assumptions C08_with_capacity.
Print Assumptions C08_reserve.
Print Assumptions C08_no_alloc_while_room.
Print Assumptions C08_clear_keeps_allocation.
Print Assumptions C08_shrink_to.
Print Assumptions C08_fresh_table_buckets.
Print Assumptions C08_shrink_to_not_larger_than_fresh.
Print Assumptions C08_shrink_to_vs_fresh_table.
