(* C19a -- "par_extend, from_par_iter ... give the same results as their sequential counterparts"
   (companion of C19.v).  Only property theorems (proofs: Proofs/ParExtendFacts.v; model:
   Model/ParExtend.v = the code of rayon/map.rs `extend` over ANY chunking of the input).

   rayon hands hashbrown the input cut into chunks (one Vec per leaf of its split tree, appended
   left to right); how it is cut depends on the pool and the scheduler.  For both scanners, every
   element layout, total hash function and allocator answer, EVERY well-formed map and EVERY list
   of chunks: the call returns normally and the map is well-formed and represents exactly the
   reference map after inserting the concatenation of the chunks in order -- i.e. what the
   sequential HashMap::extend of the whole input yields (C01: OpExtend) -- so two different
   chunkings of one input end in maps with the same contents.  from_par_iter is the same from
   HashMap::default().  That the chunks concatenate to the input in order is rayon's contract
   (fold + reduce over an indexed split preserves order); the tie runs par_extend on pools of 1..64
   threads and compares contents with the reference (level A). *)
From Coq Require Import ZArith List Bool Permutation.
From HB Require Import RsPrelude Sse2 Gen Group Raw Map Check AssocSpec WFDefs MapDefs MapRefineBase ParExtend ParExtendFacts.
Import ListNotations.
Open Scope Z_scope.

Theorem C19a_par_extend_is_sequential_extend :
  forall B, WidthOK B -> BackendSpec B -> forall tsize talign, LayoutOK tsize talign ->
  forall needs_drop hash_of, TotalHash hash_of -> forall alloc_refuses (t : table kv) (s : spec) chunks t' o evs,
  Inv B tsize talign hash_of t s -> Z.of_nat (length (concat chunks)) < 2 ^ 62 ->
  m_par_extend B tsize talign needs_drop true hash_of alloc_refuses t chunks = Ok (t', o, evs) ->
  o = OutUnit /\
  Inv B tsize talign hash_of t'
      (fold_left (fun acc (e : kv) => insert_like acc (k_id e) (k_stamp e) (v_val e)) (concat chunks) s).
Proof. exact par_extend_refines. Qed.

Theorem C19a_chunking_is_irrelevant :
  forall B, WidthOK B -> BackendSpec B -> forall tsize talign, LayoutOK tsize talign ->
  forall needs_drop hash_of, TotalHash hash_of -> forall alloc_refuses (t : table kv) (s : spec) ch1 ch2 t1 o1 e1 t2 o2 e2,
  Inv B tsize talign hash_of t s -> concat ch1 = concat ch2 -> Z.of_nat (length (concat ch1)) < 2 ^ 62 ->
  m_par_extend B tsize talign needs_drop true hash_of alloc_refuses t ch1 = Ok (t1, o1, e1) ->
  m_par_extend B tsize talign needs_drop true hash_of alloc_refuses t ch2 = Ok (t2, o2, e2) ->
  exists s', Inv B tsize talign hash_of t1 s' /\ Inv B tsize talign hash_of t2 s' /\
             Permutation (occupants kv t1) (occupants kv t2).
Proof. exact par_extend_chunking_irrelevant. Qed.

Print Assumptions C19a_par_extend_is_sequential_extend.
Print Assumptions C19a_chunking_is_irrelevant.
