(* C19 -- Parallel iteration visits each element exactly once under any split/schedule.
   Only property theorems.  `split_leaves t dec` drives the model of RawIterRange::split
   (Model/Par.v; the split point is the expression GENERATED from raw/mod.rs) along the split
   tree described by ANY list of split-or-consume decisions and returns what each leaf yields.
   Quantified over every SafeWF table (any occupancy pattern, any size, both scanners) and
   every decision list (every binary split tree of any depth). *)
From Coq Require Import ZArith List Bool Permutation.
From HB Require Import RsPrelude Sse2 Gen Group Raw Par WFDefs IterFacts ParFacts.
Import ListNotations.

Section C19.
  Variable B : backend.
  Variable T : Type.
  Hypothesis HW : WidthOK B.
  Hypothesis HB : BackendSpec B.

  (* the leaves, left to right, concatenate to exactly the sequential iteration: every stored
     element delivered exactly once, nothing else; no leaf loads a group out of bounds or
     unaligned (the model would return Fail) *)
  Theorem C19_split_partition : forall (t : table T) (dec : list bool), SafeWF B T t ->
    exists ls, split_leaves B T t dec = Ok ls /\ concat ls = full_list t.
  Proof. exact (split_partition B T HW HB). Qed.

  Theorem C19_leaves_disjoint : forall (t : table T) dec ls, SafeWF B T t ->
    split_leaves B T t dec = Ok ls ->
    forall j k i, j < k -> In i (nth j ls []) -> ~ In i (nth k ls []).
  Proof. exact (split_partition_disjoint B T HW HB). Qed.

  Theorem C19_exactly_the_stored : forall (t : table T) dec ls, SafeWF B T t ->
    split_leaves B T t dec = Ok ls ->
    forall i, In i (concat ls) <-> i < nb T t /\ is_full (byte T t i) = true.
  Proof. exact (split_partition_In B T HW HB). Qed.

  (* par_drain with consumers that stop anywhere: whatever the per-leaf stop positions, every
     stored element is delivered exactly once or dropped exactly once *)
  Theorem C19_drain_conservation : forall (t : table T) dec ls (takes : list nat), SafeWF B T t ->
    split_leaves B T t dec = Ok ls ->
    let parts := drain_all ls takes in
    let delivered := concat (map fst parts) in
    let dropped := concat (map snd parts) in
    Permutation (delivered ++ dropped) (full_list t) /\ NoDup (delivered ++ dropped) /\
    (forall i, In i delivered -> ~ In i dropped) /\
    (forall i, i < nb T t /\ is_full (byte T t i) = true <-> In i delivered \/ In i dropped).
  Proof. exact (drain_conservation B T HW HB). Qed.
End C19.

Print Assumptions C19_split_partition.
Print Assumptions C19_leaves_disjoint.
Print Assumptions C19_exactly_the_stored.
Print Assumptions C19_drain_conservation.
