(* C16 -- Send/Sync markers and variance of the public collection, iterator, drain and entry types.

   "A collection, iterator, drain or entry type can be sent to or shared with another thread only
    when the key, value, hasher and allocator types it gives access to allow it (shared iterators
    need Sync contents, mutable and owning ones need Send contents).  A type that hands out mutable
    access to elements is invariant in every type it can write through."

   Objects:  gen_decls     the declarations of the crate (Gen/GenTypes.v, regenerated from the
                           source by tools/sigx.py on every check)
             send, sync,
             variance      the auto-trait / variance calculus (Model/Marker.v)
             access_table  the hand-written specification (Spec/AccessTable.v): which access each
                           public type gives to each of its parameters; send_req / sync_req say what
                           that access needs.
   The quantifier "all instantiations" is the quantifier over s : sigma, the assignment of
   (Send, Sync) bits to the type parameters.

   Adjustments with respect to the naive reading, all explained in Spec/AccessTable.v:
   * a parameter that is only *read* through a *unique* borrow (keys of IterMut, hasher of a raw
     entry, allocator of a drain) needs Send \/ Sync, not Sync: the source asks for Send there;
   * X : Sync needs Sync (never Send) of every accessible parameter, also for mutable and owning
     handles: a shared &X gives at most shared access;
   * the rayon ParDrain types are Send with no condition on the allocator, to which they give no
     access (NoAccess line), and are never Sync; hash_table::IterHash / IterHashMut are never Send
     nor Sync (they hold a NonNull and have no unsafe impl): the implications hold vacuously there,
     which is the safe direction of "only when".

   The borrow part of the property (handles borrow the collection) is decided by rustc's borrow
   checker; it is exercised by tools/c16_probes.py, not stated here. *)
From Coq Require Import String List Bool.
From HB Require Import Gen.GenTypes Model.Marker Spec.AccessTable Proofs.MarkerFacts.
Import ListNotations.
Open Scope string_scope.

(* Every line of the table names a declaration of the source with exactly these parameters; the
   calculus gives a definite answer for it (no fuel artefact); and whenever the type is Send (Sync)
   under an assignment s, every parameter satisfies what its access kind requires. *)
Theorem C16_send_sync :
  forall X acc, In (X, acc) access_table ->
  exists d, lookup gen_decls X = Some d /\ map fst acc = d_params d /\
    forall s : string -> bool * bool,
      marks gen_decls (S FUEL) s (self_ty d) <> None /\
      (send gen_decls (S FUEL) s (self_ty d) = true ->
         forall P a, In (P, a) acc -> send_req a (s P) = true) /\
      (sync gen_decls (S FUEL) s (self_ty d) = true ->
         forall P a, In (P, a) acc -> sync_req a (s P) = true).
Proof. exact table_holds. Qed.

(* Every parameter a type can write through is invariant. *)
Theorem C16_variance :
  forall X acc P, In (X, acc) access_table -> In (P, Exclusive) acc ->
  variance gen_decls X P = Some Inv.
Proof. exact variance_holds. Qed.

(* The table covers every declaration that the crate exports. *)
Theorem C16_public_covered :
  forall d, In d gen_decls -> d_pub d <> [] -> exists acc, In (d_name d, acc) access_table.
Proof. exact public_covered. Qed.

Print Assumptions C16_send_sync.
Print Assumptions C16_variance.
Print Assumptions C16_public_covered.
