(* C18 -- Behaviour is identical for the SIMD and the portable group scanner.
   Only property theorems here, each closed by `exact <lemma>`.  generic_backend / sse2_backend
   are assembled (Model/Group.v) from the definitions GENERATED from control/group/generic.rs,
   control/group/sse2.rs and control/bitmask.rs; BackendSpec is the byte-by-byte contract. *)
From Coq Require Import ZArith List.
Import ListNotations.
From HB Require Import RsPrelude Sse2 Gen Group GroupBackends.
Open Scope Z_scope.

(* The portable 8-byte word scanner: match_empty, match_empty_or_deleted, match_full, convert and
   the leading/trailing-zero queries equal their byte-by-byte definitions on EVERY group of valid
   control bytes; match_tag reports every true match, in ascending order, and anything else it
   reports differs from the tag only in the lowest bit and lies above a true match. *)
Theorem C18_generic_spec : BackendSpec generic_backend.
Proof. exact generic_backend_spec. Qed.

(* The 16-byte SSE2 scanner (intrinsics as documented, Base/Sse2.v) satisfies the same contract ... *)
Theorem C18_sse2_spec : BackendSpec sse2_backend.
Proof. exact sse2_backend_spec. Qed.

(* ... and its match_tag is exact. *)
Theorem C18_sse2_exact : ExactMatchTag sse2_backend.
Proof. exact sse2_exact. Qed.

(* non-vacuity / the documented false positive really exists for the portable scanner *)
Example C18_generic_false_positive :
  g_match_tag generic_backend [42; 43; 255; 255; 255; 255; 255; 255] 42 = [0%nat; 1%nat].
Proof. vm_compute. reflexivity. Qed.
Example C18_sse2_no_false_positive :
  g_match_tag sse2_backend ([42; 43] ++ repeat 255 14) 42 = [0%nat].
Proof. vm_compute. reflexivity. Qed.

Print Assumptions C18_generic_spec.
Print Assumptions C18_sse2_spec.
Print Assumptions C18_sse2_exact.
