(* C02a -- Address model of buckets and control bytes: every element and every control byte of a
   table lies inside the allocated block, is suitably aligned, distinct elements occupy disjoint
   bytes, and the Bucket pointer arithmetic (from_base_index / to_base_index / next_n / as_ptr)
   is an exact bijection between indices and pointers.
   (Supports C02 "no out-of-bounds / misaligned access" and C15 "multi-key mutable borrows never
   alias".)

   This file contains only the property theorems; each is closed by `exact <lemma>`.
   The address functions are defined in Model/Addr.v next to the Rust lines they model; the
   layout ((len, al), off) is computed by the definitions GENERATED from /repo/src/raw/mod.rs in
   Gen.v (table_layout_new, calculate_layout_for, num_ctrl_bytes).  All addresses are byte
   offsets relative to the start of the allocated block [0, len); `abs base x = base + x` is the
   absolute address for a block placed at `base`.

   All theorems are quantified over both group widths, EVERY element size < 2^64, every
   power-of-two element alignment up to 2^62, every power-of-two bucket count up to 2^62. *)
From Coq Require Import ZArith List Znumtheory.
From HB Require Import RsPrelude Sse2 Gen ArithFacts Addr AddrFacts.
Open Scope Z_scope.

(* The standing hypothesis `valid_layout GW tsize talign b len al off`, spelled out:
   a group width of the crate; a Rust layout for T (size < 2^64, alignment a power of two, size
   a multiple of the alignment); a power-of-two number of buckets; and the layout computation of
   RawTableInner::new_uninitialized succeeded with Layout (len, al) and ctrl_offset off. *)
Theorem C02a_valid_layout_meaning : forall GW tsize talign b len al off,
  valid_layout GW tsize talign b len al off <->
  ((GW = 8 \/ GW = 16) /\
   0 <= tsize < 2 ^ 64 /\
   (exists a, 0 <= a <= 62 /\ talign = 2 ^ a) /\
   (talign | tsize) /\
   (exists k, 0 <= k <= 62 /\ b = 2 ^ k) /\
   calculate_layout_for GW tsize (snd (table_layout_new GW tsize talign)) b
     = Some ((len, al), off)).
Proof. exact valid_layout_meaning. Qed.

(* Element i lies inside the block, below the control bytes. *)
Theorem C02a_elements_in_block : forall GW tsize talign b len al off,
  valid_layout GW tsize talign b len al off ->
  forall i, 0 <= i < b ->
    0 <= off - (i + 1) * tsize /\ off - (i + 1) * tsize <= off - i * tsize /\
    off - i * tsize <= off /\ off <= len.
Proof. exact elements_in_block. Qed.

(* The same in terms of the byte range of element i. *)
Theorem C02a_elem_range_in_block : forall GW tsize talign b len al off,
  valid_layout GW tsize talign b len al off ->
  forall i, 0 <= i < b ->
    range_in_block len (elem_range tsize off i) /\ snd (elem_range tsize off i) <= ctrl_base off.
Proof. exact elem_range_in_block. Qed.

(* Every element start is a multiple of align_of::<T>() (relative to the block; see
   C02a_absolute_alignment for absolute addresses), i.e. Bucket::as_ptr is aligned for T --
   also the fabricated pointer for zero-sized T. *)
Theorem C02a_elements_aligned : forall GW tsize talign b len al off,
  valid_layout GW tsize talign b len al off ->
  forall i, (talign | off - (i + 1) * tsize) /\
            (talign | bucket_as_ptr tsize talign (bucket_ptr tsize off i)).
Proof. exact elements_aligned_both. Qed.

(* For non-zero-sized T distinct buckets occupy disjoint bytes, and both the bucket pointer and
   the element pointer determine the index.  (This is what makes pointer comparison a correct
   duplicate check in get_many_mut for non-zero-sized T.) *)
Theorem C02a_elements_disjoint : forall GW tsize talign b len al off,
  valid_layout GW tsize talign b len al off -> 0 < tsize ->
  forall i j, 0 <= i < b -> 0 <= j < b -> i <> j ->
    ranges_disjoint (elem_range tsize off i) (elem_range tsize off j) /\
    bucket_ptr tsize off i <> bucket_ptr tsize off j /\
    bucket_as_ptr tsize talign (bucket_ptr tsize off i) <>
    bucket_as_ptr tsize talign (bucket_ptr tsize off j).
Proof. exact elements_disjoint_all. Qed.

(* Bucket::as_ptr of bucket i is the first byte of element i, the bucket pointer is one past its
   last byte, and the type-erased RawTableInner::bucket_ptr agrees with Bucket::as_ptr. *)
Theorem C02a_as_ptr_is_element_start : forall tsize talign off i,
  0 < tsize ->
  bucket_as_ptr tsize talign (bucket_ptr tsize off i) = fst (elem_range tsize off i) /\
  bucket_ptr tsize off i = snd (elem_range tsize off i) /\
  inner_bucket_ptr tsize off i = fst (elem_range tsize off i).
Proof. exact bucket_as_ptr_start. Qed.

(* Zero-sized T: the bucket pointer is the integer i + 1 -- non-null, no wrap, injective, and
   to_base_index recovers i -- while the element pointer is the SAME address align_of::<T>() for
   every bucket. *)
Theorem C02a_zst_pointers : forall GW talign b len al off,
  valid_layout GW 0 talign b len al off ->
  (forall i, 0 <= i < b ->
     bucket_ptr 0 off i = i + 1 /\
     0 < bucket_ptr 0 off i < 2 ^ 64 /\
     to_base_index 0 off (bucket_ptr 0 off i) = i /\
     bucket_as_ptr 0 talign (bucket_ptr 0 off i) = talign /\
     0 < talign /\ (talign | bucket_as_ptr 0 talign (bucket_ptr 0 off i))) /\
  (forall i j, bucket_ptr 0 off i = bucket_ptr 0 off j -> i = j) /\
  (forall i j, bucket_as_ptr 0 talign (bucket_ptr 0 off i) =
               bucket_as_ptr 0 talign (bucket_ptr 0 off j)).
Proof. exact zst_pointers. Qed.

(* Hence a duplicate check for zero-sized T must compare bucket pointers (or indices), not
   element pointers: Bucket::as_ptr does not distinguish buckets. *)
Theorem C02a_zst_as_ptr_not_injective : forall talign off i j,
  bucket_as_ptr 0 talign (bucket_ptr 0 off i) = bucket_as_ptr 0 talign (bucket_ptr 0 off j).
Proof. exact AddrFacts.zst_as_ptr_not_injective. Qed.

(* to_base_index inverts from_base_index, next_n moves by n buckets, for every element size
   (zero or not); the pointers produced stay inside the data part (non-zero-sized T; this is the
   in-bounds requirement of <*mut T>::sub) resp. do not wrap (zero-sized T); and the byte
   distance handed to offset_from is an exact multiple of size_of::<T>(). *)
Theorem C02a_index_roundtrip : forall GW tsize talign b len al off,
  valid_layout GW tsize talign b len al off ->
  forall i, 0 <= i < b ->
    to_base_index tsize off (bucket_ptr tsize off i) = i /\
    (forall n, 0 <= n -> i + n <= b ->
       next_n tsize (bucket_ptr tsize off i) n = bucket_ptr tsize off (i + n) /\
       (tsize = 0 -> 0 < bucket_ptr tsize off (i + n) < 2 ^ 64) /\
       (0 < tsize -> 0 <= bucket_ptr tsize off (i + n) <= off)).
Proof. exact index_roundtrip. Qed.

(* The algebraic core of the round trip needs no bounds at all. *)
Theorem C02a_index_roundtrip_unbounded : forall tsize off i n,
  0 <= tsize ->
  to_base_index tsize off (bucket_ptr tsize off i) = i /\
  next_n tsize (bucket_ptr tsize off i) n = bucket_ptr tsize off (i + n) /\
  (tsize <> 0 -> (tsize | data_end off - bucket_ptr tsize off i)).
Proof. exact index_roundtrip_unbounded. Qed.

(* Every control byte, including the mirrored group, is inside the block and above every
   element; num_ctrl_bytes does not wrap. *)
Theorem C02a_ctrl_in_block : forall GW tsize talign b len al off,
  valid_layout GW tsize talign b len al off ->
  num_ctrl_bytes GW (b - 1) = b + GW /\
  (forall j, 0 <= j < num_ctrl_bytes GW (b - 1) -> off <= ctrl_addr off j < len) /\
  (forall i j, 0 <= i < b -> 0 <= j -> snd (elem_range tsize off i) <= ctrl_addr off j).
Proof. exact ctrl_in_block. Qed.

(* A group load at any control index p <= b (the last one reads the mirrored group) stays inside
   the block, and is GW-aligned in absolute terms when p is a multiple of GW and the allocator
   returned an al-aligned block. *)
Theorem C02a_group_loads : forall GW tsize talign b len al off,
  valid_layout GW tsize talign b len al off ->
  forall p, 0 <= p -> p + GW <= b + GW ->
    off <= fst (group_range GW off p) /\ snd (group_range GW off p) <= len /\
    snd (group_range GW off p) = fst (group_range GW off p) + GW /\
    forall base, (al | base) -> (GW | p) -> (GW | abs base (ctrl_addr off p)).
Proof. exact group_loads. Qed.

(* Absolute addresses, for a block at an address `base` aligned as requested from the allocator:
   elements are aligned for T, aligned control groups are aligned for Group, and
   allocation_info recovers the block address from the ctrl pointer. *)
Theorem C02a_absolute_alignment : forall GW tsize talign b len al off base,
  valid_layout GW tsize talign b len al off -> (al | base) ->
  (forall i, (talign | abs base (off - (i + 1) * tsize))) /\
  (0 < tsize -> forall i,
     (talign | abs base (bucket_as_ptr tsize talign (bucket_ptr tsize off i)))) /\
  (forall p, (GW | p) -> (GW | abs base (ctrl_addr off p))) /\
  (GW | abs base (ctrl_base off)) /\
  allocation_start (abs base (ctrl_base off)) off = base.
Proof. exact absolute_alignment. Qed.

(* The requested alignment is the larger of align_of::<T>() and Group::WIDTH and is a multiple of
   both; the block does not exceed isize::MAX even after rounding up to the alignment. *)
Theorem C02a_block_shape : forall GW tsize talign b len al off,
  valid_layout GW tsize talign b len al off ->
  al = Z.max talign GW /\ (talign | al) /\ (GW | al) /\ (al | off) /\
  tsize * b <= off < tsize * b + al /\ len = off + b + GW /\ len + (al - 1) < 2 ^ 63.
Proof. exact block_shape. Qed.

(* A non-null block yields non-null bucket pointers (NonNull::new_unchecked in
   from_base_index / next_n), including the one-past pointer of the last bucket. *)
Theorem C02a_bucket_ptr_nonnull : forall GW tsize talign b len al off base,
  valid_layout GW tsize talign b len al off -> 0 < base -> 0 < tsize ->
  forall i, 0 <= i <= b -> 0 < abs base (bucket_ptr tsize off i).
Proof. exact bucket_ptr_nonnull. Qed.

(* ------------------------------------------------------------------------------------------ *)
(* non-vacuity: the hypotheses are met by concrete tables, and the conclusions computed          *)
(* ------------------------------------------------------------------------------------------ *)

(* (u64, u64, u64)-like T: size 24, align 8; SSE2 groups; 32 buckets *)
Example C02a_example_24 : valid_layout 16 24 8 32 816 16 768.
Proof. exact example_24. Qed.
Example C02a_example_24_addresses :
  elem_range 24 768 0 = (744, 768) /\ elem_range 24 768 31 = (0, 24) /\
  bucket_ptr 24 768 5 = 648 /\ bucket_as_ptr 24 8 648 = 624 /\ to_base_index 24 768 648 = 5 /\
  next_n 24 648 3 = bucket_ptr 24 768 8 /\ ctrl_addr 768 0 = 768 /\ ctrl_addr 768 47 = 815 /\
  num_ctrl_bytes 16 31 = 48 /\ group_range 16 768 32 = (800, 816).
Proof. vm_compute. repeat split. Qed.

(* zero-sized T (HashSet<()>-like): no data part at all, off = 0 *)
Example C02a_example_zst : valid_layout 16 0 1 4 20 16 0.
Proof. exact example_zst. Qed.
Example C02a_example_zst_addresses :
  bucket_ptr 0 0 0 = 1 /\ bucket_ptr 0 0 3 = 4 /\ to_base_index 0 0 4 = 3 /\
  bucket_as_ptr 0 1 (bucket_ptr 0 0 0) = 1 /\ bucket_as_ptr 0 1 (bucket_ptr 0 0 3) = 1 /\
  elem_range 0 0 3 = (0, 0).
Proof. vm_compute. repeat split. Qed.

(* over-aligned T: #[repr(align(64))], size 192; generic 8-byte groups; 8 buckets *)
Example C02a_example_overaligned : valid_layout 8 192 64 8 1552 64 1536.
Proof. exact example_overaligned. Qed.
(* over-aligned zero-sized T: the element pointer is the alignment itself *)
Example C02a_example_overaligned_zst : valid_layout 16 0 64 4 20 64 0.
Proof. exact example_overaligned_zst. Qed.
(* padding in front of the data part: size 1, align 1, 4 buckets, GW 16: the 4 data bytes occupy
   [12, 16) after 12 bytes of padding, off = 16 *)
Example C02a_example_padding : valid_layout 16 1 1 4 36 16 16 /\ elem_range 1 16 3 = (12, 13).
Proof. exact example_padding. Qed.

Print Assumptions C02a_valid_layout_meaning.
Print Assumptions C02a_elements_in_block.
Print Assumptions C02a_elem_range_in_block.
Print Assumptions C02a_elements_aligned.
Print Assumptions C02a_elements_disjoint.
Print Assumptions C02a_as_ptr_is_element_start.
Print Assumptions C02a_zst_pointers.
Print Assumptions C02a_zst_as_ptr_not_injective.
Print Assumptions C02a_index_roundtrip.
Print Assumptions C02a_index_roundtrip_unbounded.
Print Assumptions C02a_ctrl_in_block.
Print Assumptions C02a_group_loads.
Print Assumptions C02a_absolute_alignment.
Print Assumptions C02a_block_shape.
Print Assumptions C02a_bucket_ptr_nonnull.
Print Assumptions C02a_example_24.
Print Assumptions C02a_example_zst.
Print Assumptions C02a_example_overaligned.
