(* C03 -- Every element and every allocation is released exactly once.
   Only property theorems, on the model of RawTable (shared by HashMap / HashSet / HashTable).
   Events: EvDrop e = the table ran e's destructor; EvAlloc / EvFree (size, align) = allocator
   traffic; elements handed back to the caller appear in the operation's result.  `occupants t`
   = the stored elements in bucket order; Permutation = equality as multisets.
   PARTIAL (see MANIFEST): the accounting of objects that are passed in but not stored (the
   duplicate key of insert-on-present-key, the default value of or_insert on an occupied
   entry) is not in the model's event vocabulary; it is checked by the harness registry. *)
From Coq Require Import ZArith List Bool Permutation.
From HB Require Import RsPrelude Sse2 Gen Group Raw Check WFDefs RawOpsSafe SafeAllocClear SafeInsertErase ResizeFacts.
Import ListNotations.
Open Scope Z_scope.

Section C03.
  Variable B : backend.
  Variable T : Type.
  Hypothesis HW : WidthOK B.
  Hypothesis HB : BackendSpec B.
  Variable tsize talign : Z.
  Hypothesis Hts : 0 <= tsize < 2 ^ 64.
  Hypothesis Hta : exists a, 0 <= a <= 62 /\ talign = 2 ^ a.
  Variable needs_drop : bool.
  Variable drop_ok : T -> bool.
  Variable hasher : T -> option Z.

  (* removal: the element is moved out to the caller exactly once and is no longer stored;
     every other element stays *)
  Theorem C03_remove_moves_out_once : forall t i,
    SafeWF B T t -> mask t <> 0%nat -> (i < nb T t)%nat -> is_full (byte T t i) = true ->
    exists e t', remove B T t i = Ok (e, t') /\ slot T t i = Some e /\ SafeWF B T t' /\
      slot T t' i = None /\ Permutation (occupants T t) (e :: occupants T t').
  Proof.
    intros t i H1 H2 H3 H4.
    destruct (remove_safe B T HW t i H1 H2 H3 H4) as (e & t' & E & S & W & _ & _ & _ & N & _ & P & _).
    exists e, t'. tauto.
  Qed.

  (* clear: every stored element dropped exactly once, in bucket order, nothing remains;
     without drop glue nothing is run *)
  Theorem C03_clear_drops_each_once : forall t, SafeWF B T t ->
    exists t' evs ok, clear B T needs_drop drop_ok t = Ok (t', evs, ok) /\
      SafeWF B T t' /\ occupants T t' = [] /\
      drops_prefix T evs (occupants T t) /\
      (needs_drop = true -> ok = true -> evs = map EvDrop (occupants T t)) /\
      (needs_drop = false -> evs = [] /\ ok = true).
  Proof.
    intros t H.
    destruct (clear_safe B T HW HB tsize talign needs_drop drop_ok t H)
      as (t' & evs & ok & E & S & _ & O & _ & D & A & N & _).
    exists t', evs, ok. tauto.
  Qed.

  (* dropping the collection: every stored element dropped exactly once, then the block is
     returned exactly once with the layout it was requested with; the unallocated singleton
     owns nothing and releases nothing *)
  Theorem C03_drop_releases_once : forall t, SafeWF B T t -> TOwn B T tsize talign t ->
    exists evs ok, drop_inner_table B T tsize talign needs_drop drop_ok t = Ok (evs, ok) /\
      (mask t = 0%nat -> evs = [] /\ ok = true) /\
      (mask t <> 0%nat -> exists len al off dr,
         layout_for B tsize talign (nb T t) = Some (len, al, off) /\ ValidLayout len al /\
         drops_prefix T dr (occupants T t) /\
         (needs_drop = true -> ok = true -> dr = map EvDrop (occupants T t)) /\
         (needs_drop = false \/ items t = 0 -> dr = [] /\ ok = true) /\
         (ok = false -> exists l e, dr = map EvDrop (l ++ [e]) /\ drop_ok e = false) /\
         evs = (if ok then dr ++ [EvFree len al] else dr)).
  Proof. exact (drop_inner_table_spec B T HW HB tsize talign Hts Hta needs_drop drop_ok). Qed.

  (* a block obtained by with_capacity is released by drop with exactly the requested layout *)
  Theorem C03_alloc_free_pair : forall cap f t' evs, 0 <= cap < 2 ^ 64 ->
    fallible_with_capacity B T tsize talign cap false f = Ok (Some t', evs, TR_ok) ->
    (cap = 0 /\ evs = [] /\ drop_inner_table B T tsize talign needs_drop drop_ok t' = Ok ([], true)) \/
    (exists len al, ValidLayout len al /\ evs = [EvAlloc len al] /\
       drop_inner_table B T tsize talign needs_drop drop_ok t' = Ok ([EvFree len al], true)).
  Proof. exact (alloc_then_drop B T HW HB tsize talign Hts Hta needs_drop drop_ok). Qed.

  (* growing / rehashing (reserve, and the reserve inside insert): elements are only moved, none
     dropped; at most one new block is requested and the old block is freed with its own layout *)
  Theorem C03_reserve_moves_elements : forall t additional alloc_refuses f t' evs tr unw,
    SafeWF B T t -> TOwn B T tsize talign t ->
    reserve_post B T tsize talign needs_drop hasher t additional alloc_refuses f (Ok (t', evs, tr, unw)) ->
    SafeWF B T t' /\ TOwn B T tsize talign t' /\
    (tr <> TR_ok -> f = Fallible /\ t' = t /\ evs = [] /\ unw = false /\
       match tr with TR_alloc_error len al => alloc_refuses = true /\ ValidLayout len al
                   | _ => CapOverflow B T tsize talign t additional end) /\
    (tr = TR_ok -> unw = false ->
       Permutation (occupants T t') (occupants T t) /\ items t' = items t /\
       additional <= growth_left t' /\ ReserveEvs B T tsize talign t t' evs) /\
    (unw = true -> tr = TR_ok /\ ReserveUnwind T needs_drop hasher t t' evs /\
       (exists dropped, Permutation (occupants T t) (occupants T t' ++ dropped)) /\
       (exists e, In e (occupants T t) /\ hasher e = None)).
  Proof. exact (reserve_post_ok B T tsize talign needs_drop hasher). Qed.

  (* shrinking never runs a destructor and keeps every element *)
  Theorem C03_shrink_keeps_elements : forall t min_size alloc_refuses t' evs unw,
    SafeWF B T t -> TOwn B T tsize talign t -> 0 <= min_size < 2 ^ 64 ->
    shrink_to B T tsize talign needs_drop drop_ok hasher t min_size alloc_refuses = Ok (t', evs, unw) ->
    SafeWF B T t' /\ TOwn B T tsize talign t' /\ Permutation (occupants T t') (occupants T t) /\
    items t' = items t /\ (forall e, ~ In (EvDrop e) evs).
  Proof. exact (shrink_to_preserves B T HW HB tsize talign Hts Hta needs_drop drop_ok hasher). Qed.
End C03.

(* a collection that was never given an element or a capacity owns no block at all *)
Theorem C03_new_owns_nothing : forall B T tsize talign,
  allocation_size B T tsize talign (new_table B T) = Ok 0%Z /\ mask (new_table B T) = 0%nat.
Proof. exact (fun B T ts ta => conj (new_table_allocation_size B T ts ta) eq_refl). Qed.

Print Assumptions C03_remove_moves_out_once.
Print Assumptions C03_clear_drops_each_once.
Print Assumptions C03_drop_releases_once.
Print Assumptions C03_alloc_free_pair.
Print Assumptions C03_reserve_moves_elements.
Print Assumptions C03_shrink_keeps_elements.
Print Assumptions C03_new_owns_nothing.
